//! Step functions registered through the REAL `#[given]` attribute, one per way of spelling a fallible return type.
//! The compiler's MIR of the code the macro generates for them is what checks/macro_probe.py executes symbolically.
#![allow(dead_code, clippy::all)]
use cucumber::{given, then, when, World};

#[derive(Debug, Default, World)]
pub struct W;

pub type TestResult = Result<(), String>;
pub mod nested {
    pub type Fallible = std::result::Result<(), String>;
}

#[given("unit")]
fn ret_unit(_: &mut W) {}

#[given("direct")]
fn ret_direct(_: &mut W) -> Result<(), String> {
    Err("direct".to_owned())
}

#[given("std path")]
fn ret_std_path(_: &mut W) -> std::result::Result<(), String> {
    Err("std path".to_owned())
}

#[given("io")]
fn ret_io(_: &mut W) -> std::io::Result<()> {
    Err(std::io::Error::other("io"))
}

#[given("alias")]
fn ret_alias(_: &mut W) -> TestResult {
    Err("alias".to_owned())
}

#[given("nested alias")]
fn ret_nested_alias(_: &mut W) -> nested::Fallible {
    Err("nested alias".to_owned())
}

#[given("async alias")]
async fn ret_async_alias(_: &mut W) -> TestResult {
    Err("async alias".to_owned())
}

#[given("async direct")]
async fn ret_async_direct(_: &mut W) -> Result<(), String> {
    Err("async direct".to_owned())
}

// ---- registration / dispatch probes (C19)

#[when("when literal (with) meta.chars?")]
fn when_literal(_: &mut W) {}

#[then(regex = r"^then (\d+) and (\S+)$")]
fn then_two_args(_: &mut W, n: u64, s: String) {
    let _ = (n, s);
}

#[given(regex = r"^step arg (\d+)$")]
fn given_step_arg(_: &mut W, n: u64, #[step] st: &cucumber::gherkin::Step) {
    let _ = (n, st);
}

#[when(regex = r"^async (-?\d+)$")]
async fn when_async_arg(_: &mut W, n: i32) -> Result<(), String> {
    let _ = n;
    Ok(())
}

// ---- Cucumber Expressions and a custom Parameter with several capturing groups (C19)

/// Ordinal number: both groups take part in every match; `FromStr` is to see the first non-empty one.
#[derive(Clone, Copy, Debug, cucumber::Parameter, PartialEq)]
#[param(name = "ordinal", regex = r"(\d+)(st|nd|rd|th)")]
pub struct Ordinal(pub u32);

impl std::str::FromStr for Ordinal {
    type Err = std::num::ParseIntError;

    fn from_str(s: &str) -> Result<Self, Self::Err> {
        s.parse().map(Self)
    }
}

#[given(expr = "pick the {ordinal} of {int} from {word}")]
fn expr_custom(_: &mut W, which: Ordinal, total: u32, shelf: String) {
    let _ = (which, total, shelf);
}

#[when(regex = r"^all of (\d+) (\d+) (\d+)$")]
fn slice_args(_: &mut W, all: &[u64]) {
    let _ = all;
}

// ---- several attributes on one function: one registration per attribute, each under its own keyword
#[given("twice")]
#[when("twice again")]
fn twice(_: &mut W) {}

// ---- user-named capture groups whose names share a prefix: each group is its own argument
#[then(regex = r"^(?P<user_name>\S+) is (?P<user_age>\d+)$")]
fn named_groups(_: &mut W, name: String, age: u32) {
    let _ = (name, age);
}
