"""C15 - filtering by name, tags or closure runs exactly the matching scenarios.

Kernel: the stream-map closure of Cucumber::filter_run (`features.map(move |feature| { .. })`) with the composed
`filter` closure it captures, and the real `tag::Ext::eval`.  A parsed feature with <= 2 top-level scenarios and one
rule with <= 2 scenarios goes in; tag vectors have 0..1 element per level (thorough: 2); tag contents, the regex
verdict per scenario (Regex::is_match is opaque) and the user closure's verdict are symbolic; the tag expression
ranges over a menu of tree shapes over two symbolic tag names.
Oracle: the surviving scenarios are exactly the accepted ones, in order; everything else in the feature is the same object.
"""
import itertools
import re

import z3

from checks import common, tagsets
from checks.common import Obligation
from mirsmt.values import Cell, Lazy, Adt, Ref, Obj, UNIT, bv
from mirsmt.interp import Inconclusive, PathEnd


def closure_captures(prog, closure_ty):
    """names of a closure's captured variables, from the aggregate statement that builds it"""
    for b in prog.bodies.values():
        for blk in b.blocks.values():
            for st in blk.stmts:
                if st[0] == 'assign' and st[2][0] == 'agg' and st[2][1] == 'closure' and st[2][2] == closure_ty:
                    return [n for n, _ in st[2][3]]
    raise Inconclusive('no aggregate builds %s' % closure_ty)


def tag_tree(ix_tag, shape):
    """TagOperation value for a shape like ('and', ('tag','A'), ('not', ('tag','B')))."""
    k = shape[0]
    T = 'gherkin::tagexpr::TagOperation'
    if k == 'tag':
        return Adt(T, {(ix_tag['Tag'], 0): Obj('symstr', name='expr.' + shape[1])}, ix_tag['Tag'])
    if k == 'not':
        return Adt(T, {(ix_tag['Not'], 0): Ref(Cell(tag_tree(ix_tag, shape[1])), ())}, ix_tag['Not'])
    v = ix_tag['And'] if k == 'and' else ix_tag['Or']
    return Adt(T, {(v, 0): Ref(Cell(tag_tree(ix_tag, shape[1])), ()), (v, 1): Ref(Cell(tag_tree(ix_tag, shape[2])), ())}, v)


def tree_sem(shape, tags):
    k = shape[0]
    if k == 'tag':
        return z3.Or(*[z3.Bool('%s==%s' % tuple(sorted((t, 'expr.' + shape[1])))) for t in tags]) if tags else z3.BoolVal(False)
    if k == 'not':
        return z3.Not(tree_sem(shape[1], tags))
    a, b = tree_sem(shape[1], tags), tree_sem(shape[2], tags)
    return z3.And(a, b) if k == 'and' else z3.Or(a, b)


SHAPES = [('tag', 'A'), ('not', ('tag', 'A')), ('and', ('tag', 'A'), ('tag', 'B')), ('or', ('tag', 'A'), ('tag', 'B')),
          ('and', ('tag', 'A'), ('not', ('tag', 'B'))), ('not', ('or', ('tag', 'A'), ('tag', 'B')))]


def all_trees(nops, leaves=('A', 'B')):
    """every tag-expression tree with exactly `nops` operator nodes"""
    if nops == 0:
        return [('tag', x) for x in leaves]
    out = [('not', t) for t in all_trees(nops - 1, leaves)]
    for k in range(nops):
        for l in all_trees(k, leaves):
            for r in all_trees(nops - 1 - k, leaves):
                out.append(('and', l, r))
                out.append(('or', l, r))
    return out


@common.part
def eval_obligation(chk, prop, obs):
    """`<TagOperation as tag::Ext>::eval` (and whatever it calls) on MIR for EVERY expression tree with <= 3 operator nodes
    (and / or / not over two tag names; 1112 trees) over tag lists of 0, 1 and 2 symbolic strings: the result equals the
    Boolean formula for every truth assignment of the four tag equalities (decided by the solver on every path)."""
    prog = chk.prog
    t = prog.tables
    ev = [b for (st, m), lst in prog.by_method.items() if m == 'eval' for tr, b in lst if tr == 'Ext' and st == 'TagOperation']
    if len(ev) != 1:
        raise Inconclusive('<TagOperation as tag::Ext>::eval: %d candidates' % len(ev))
    vs = t.enum_variants('gherkin::tagexpr::TagOperation')
    ix_tag = {v[0]: i for i, v in enumerate(vs)}
    maxops = 3
    shapes = [s for k in range(maxops + 1) for s in all_trees(k)]
    o = chk.add(Obligation('%s.eval=boolean-formula' % prop, 'every and/or/not tree with <= %d operator nodes over 2 tag names (%d trees), tag lists of 0, 1, 2 symbolic strings' % (maxops, len(shapes))))
    o.verdict = 'holds'
    obs['eval=boolean-formula'] = o
    ex, M = chk.new_exec(loop_bound=12, max_paths=400000)
    for tags, shape in [(tg, sh_) for tg in ([], ['t0'], ['t0', 't1']) for sh_ in shapes]:
        def run(ex_, shape=shape, tags=tags):
            tv = Ref(Cell(Obj('vec', items=tuple(Obj('symstr', name=n) for n in tags), ty='Vec<String>'), name='tags'), ())
            tree = Ref(Cell(tag_tree(ix_tag, shape), name='expr'), ())
            return ex_.call_body(ev[0], [tree, tv])

        def on_end(ex_, rec, shape=shape, tags=tags):
            kind, r, pc, dec = rec
            o.paths += 1
            if kind != 'ok':
                if o.verdict != 'violated':
                    o.verdict = 'violated' if kind == 'panic' else 'inconclusive'
                    o.detail = '%s: %s on %s' % (kind, r, shape)
                return
            o.queries += 1
            want = tree_sem(shape, tags)
            if z3.is_bool(r) is False:
                r = ex_.materialize(r, 'bool')
            if ex_.check(r != want) and o.verdict != 'violated':
                m = ex_.solver.model()
                o.verdict = 'violated'
                o.model = {'expression': repr(shape), 'tag equalities': {str(d): str(m[d]) for d in m.decls()}, 'eval': str(m.eval(r, model_completion=True)),
                           'formula': str(m.eval(want, model_completion=True))}
                o.detail = 'eval(%s) over a tag list of %d tags differs from the Boolean formula' % (shape, len(tags))
        ex.explore(run, on_end)
    if o.verdict == 'violated' and prop != 'C15':
        confirm(chk, [o])          # the same evaluator filters scenarios: the native filter grid shows the deviation


def body(chk):
    prog = chk.prog
    t = prog.tables
    outer = [b for (st, m), lst in prog.by_method.items() if st == 'Cucumber' and m == 'filter_run' for tr, b in lst]
    if len(outer) != 1:
        raise Inconclusive('Cucumber::filter_run: %d candidates' % len(outer))
    poll = prog.bodies.get(outer[0].name + '::{closure#0}')
    # (the map closure and whatever filter value it captures are taken from the REAL coroutine below: no assumption
    #  about how filter_run structures its closures)
    vs = t.enum_variants('gherkin::tagexpr::TagOperation')
    ix_tag = {v[0]: i for i, v in enumerate(vs)}
    F = t.struct_fields('gherkin::Feature')
    Rl = t.struct_fields('gherkin::Rule')
    Sc = t.struct_fields('gherkin::Scenario')
    ntags = 2 if chk.tier == 'thorough' else 1
    modes = [('closure', None), ('name', None)] + [('tags', s) for s in SHAPES] + [('name+tags', SHAPES[0])]
    if chk.tier != 'thorough':
        modes = modes[:2] + [('tags', s) for s in SHAPES[:5]] + [('name+tags', SHAPES[0])]
    layouts = [(2, 2)] if chk.tier != 'thorough' else [(2, 2), (1, 0), (0, 1)]
    obs = {}
    bound = 'every path of the filter_run map closure; feature with <= 2 top-level scenarios and a rule with <= 2 scenarios; 0..%d tags per level with symbolic contents; --name verdict and user-closure verdict symbolic per scenario; tag expressions %s' % (ntags, SHAPES)

    def ob(name):
        if name not in obs:
            obs[name] = chk.add(Obligation('C15.%s' % name, bound))
            obs[name].verdict = 'holds'
        return obs[name]
    npaths = [0]
    for (mode, shape), (ntop, nrule), (ft, rt, st) in itertools.product(modes, layouts, [(0, 0, 0), (1, 1, 1)] if ntags == 1 else [(0, 0, 0), (1, 1, 1), (2, 1, 2)]):
        ex, M = chk.new_exec(loop_bound=12)
        names = {}

        def is_match(ex_, info, a, dty, M=M):
            s = ex_.materialize(a[1])
            while isinstance(s, Ref):
                nm = s.cell.name
                s2 = ex_.read_path(s.cell, s.path)
                if isinstance(s2, (Lazy,)):
                    nm = s2.name
                    break
                s = ex_.materialize(s2)
            M.log(ex_, 'is_match', on=nm)
            return z3.Bool('name_matches(%s)' % nm)
        M.table['Regex::is_match'] = is_match

        def user_filter(ex_, f, args, dty, info, M=M):
            def nm(v):
                v = ex_.materialize(v)
                if isinstance(v, Adt) and v.discr is not None:       # Option<&Rule>
                    if z3.simplify(M.discr(ex_, v)).as_long() == 0:
                        return None
                    v = ex_.materialize(ex_.field_of(v, 1, 0, '&gherkin::Rule'))
                while isinstance(v, Ref) and v.path == () and isinstance(ex_.read_path(v.cell, ()), Ref):
                    v = ex_.read_path(v.cell, ())
                if isinstance(v, Ref):
                    tgt = ex_.read_path(v.cell, v.path)
                    return tgt.name if isinstance(tgt, Adt) else None
                return None
            key = (nm(args[0]), nm(args[1]), nm(args[2]))
            M.log(ex_, 'user_filter', key=key)
            return z3.Bool('user_filter(%s)' % (key,))
        M.opaque_fn_hook = user_filter

        def scen(name, tags):
            return tagsets.gherkin_node(prog, 'gherkin::Scenario', name, tags, {'name': Lazy('std::string::String', name + '.name')})

        def run(ex_, mode=mode, shape=shape, ntop=ntop, nrule=nrule, ft=ft, rt=rt, st=st, M=M):
            tops = [scen('top%d' % i, ['top%d.tag%d' % (i, j) for j in range(st)]) for i in range(ntop)]
            rsc = [scen('rsc%d' % i, ['rsc%d.tag%d' % (i, j) for j in range(st)]) for i in range(nrule)]
            rule = tagsets.gherkin_node(prog, 'gherkin::Rule', 'rule', ['rule.tag%d' % j for j in range(rt)],
                                        {'scenarios': Obj('vec', items=tuple(rsc), ty='Vec<Scenario>')})
            # a second rule (one scenario, own tags): rules are filtered one by one, each with its own tags
            r2sc = [scen('r2sc0', ['r2sc0.tag%d' % j for j in range(st)])]
            rule_b = tagsets.gherkin_node(prog, 'gherkin::Rule', 'ruleB', ['ruleB.tag%d' % j for j in range(rt)],
                                          {'scenarios': Obj('vec', items=tuple(r2sc), ty='Vec<Scenario>')})
            feat = tagsets.gherkin_node(prog, 'gherkin::Feature', 'feat', ['feat.tag%d' % j for j in range(ft)],
                                        {'scenarios': Obj('vec', items=tuple(tops), ty='Vec<Scenario>'),
                                         'rules': Obj('vec', items=(rule, rule_b), ty='Vec<Rule>')})
            # run the REAL filter_run coroutine up to `features.map(<closure>)` to obtain the closure with its real environment
            CU = t.struct_fields('cucumber::Cucumber<W>')
            OP = t.struct_fields('cli::Opts<A, B, C>')
            opts = Adt('cli::Opts<P, R, W, C>', {(None, i): Lazy('?', 'opts.' + n) for i, n in enumerate(OP)})
            opts = opts.with_field((None, OP.index('re_filter')), Adt('Option<regex::Regex>', {(1, 0): Lazy('regex::Regex', 're')}, 1 if 'name' in mode else 0))
            opts = opts.with_field((None, OP.index('tags_filter')), Adt('Option<TagOperation>', {(1, 0): tag_tree(ix_tag, shape)} if shape else {}, 1 if 'tags' in mode else 0))
            cu = Adt('cucumber::Cucumber<W, P, I, R, Wr, Cli>', {(None, i): Lazy('?', 'self.' + n) for i, n in enumerate(CU)})
            cu = cu.with_field((None, CU.index('cli')), Adt('Option<cli::Opts<..>>', {(1, 0): opts}, 1))
            got = {}

            def grab(ex__, info, a, dty):
                got['closure'] = a[1]
                got['kind'] = info['method']
                raise PathEnd('stop', 'map closure constructed')
            M.table['StreamExt::map'] = grab
            M.table['StreamExt::filter_map'] = grab        # (a feature may also be dropped altogether: the closure yields None)
            co = ex_.call_body(outer[0], [cu, Lazy('I', 'input'), Lazy('F', 'user_filter')])
            cocell = Cell(co, name='coroutine')
            try:
                ex_.call_body(poll, [Adt('Pin<&mut coroutine>', {(None, 0): Ref(cocell, ())}), Ref(Cell(Lazy('Context', 'cx')), ())])
            except PathEnd as e:
                if e.kind != 'stop':
                    raise
            if 'closure' not in got:
                raise Inconclusive('filter_run did not reach features.map(..)')
            mapv = got['closure']
            inp = Adt('std::result::Result<gherkin::Feature, parser::Error>', {(0, 0): feat}, 0)
            out = ex_.materialize(ex_.call_value(mapv, [inp]))
            dropped = False
            if got.get('kind') == 'filter_map':
                # the closure returns a future of Option<item>
                if isinstance(out, Obj) and out.kind == 'future' and out.what == ('ready',):
                    out = ex_.materialize(out.value)
                else:
                    co2 = Cell(out, name='filter_map future')
                    r_ = ex_.materialize(M.poll_cell(ex_, co2, Ref(Cell(Lazy('Context', 'cx')), ()), 'Poll<?>'))
                    if not ex_.branch(M.discr(ex_, r_) == bv(0)):
                        raise Inconclusive('filter_map future pending')
                    out = ex_.materialize(ex_.field_of(r_, 0, 0, 'Option<?>'))
                if ex_.branch(M.discr(ex_, out) == bv(0)):
                    dropped = True
                else:
                    out = ex_.materialize(ex_.field_of(out, 1, 0, 'Result<Feature, Error>'))
            return {'out': out, 'dropped': dropped, 'feat': feat, 'tops': tops, 'rsc': rsc, 'rule': rule, 'r2sc': r2sc, 'rule_b': rule_b}

        def on_end(ex_, rec, mode=mode, shape=shape, ft=ft, rt=rt, st=st, M=M):
            kind, res, pc, dec = rec
            npaths[0] += 1
            if kind != 'ok':
                o = ob('completes')
                o.verdict = 'inconclusive' if kind in ('loopbound', 'unreachable') else 'violated'
                o.detail = '%s: %s' % (kind, res)
                return
            out = res['out']
            if not res.get('dropped') and (not ex_.check(M.discr(ex_, out) == bv(0)) or ex_.check(M.discr(ex_, out) != bv(0))):
                o = ob('ok-feature-stays-ok')
                o.verdict = 'violated'
                return
            f2 = ex_.materialize(ex_.field_of(out, 0, 0, 'gherkin::Feature')) if not res.get('dropped') else None
            feat = res['feat']

            def accept(s, in_rule):
                rname = None if not in_rule else ('rule' if in_rule is True else in_rule)
                if 'name' in mode:
                    return z3.Bool('name_matches(%s.name)' % s.name)
                if 'tags' in mode:
                    tags = ['feat.tag%d' % j for j in range(ft)] + (['%s.tag%d' % (rname, j) for j in range(rt)] if rname else []) + \
                        ['%s.tag%d' % (s.name, j) for j in range(st)]
                    return tree_sem(shape, tags)
                return z3.Bool('user_filter(%s)' % (('feat', rname, s.name),))
            terms = {}
            if res.get('dropped'):
                # the whole feature was withheld from the runner: right only if not one of its scenarios is accepted
                o = ob('top-level-scenarios=exactly-the-accepted-in-order')
                o.paths += 1
                every = [(x, False) for x in res['tops']] + [(x, True) for x in res['rsc']] + [(x, 'ruleB') for x in res['r2sc']]
                hit = [x.name for x, inr in every if ex_.check(accept(x, inr)) and not ex_.check(z3.Not(accept(x, inr)))]
                if hit:
                    o.verdict = 'violated'
                    o.detail = 'the feature was dropped although %s are accepted (mode %s)' % (hit, mode)
                return

            def survivors(vec):
                return [x.name for x in ex_.materialize(vec).items]

            def check_list(o, got, cands, in_rule):
                # on this path the accept verdicts are decided by the path condition
                o.paths += 1
                want = []
                for s in cands:
                    a = accept(s, in_rule)
                    t_, f_ = ex_.check(a), ex_.check(z3.Not(a))
                    if t_ and f_:
                        # not decided on this path: the code did not look at it - then both outcomes must agree with `got`
                        o.verdict = 'violated' if o.verdict != 'violated' else o.verdict
                        o.detail = 'scenario %s kept/dropped without evaluating its filter verdict (mode %s)' % (s.name, mode)
                        o.model = {'mode': mode, 'expression': str(shape), 'scenario': s.name, 'kept': s.name in got,
                                   'feature_tags': ft, 'rule_tags': rt, 'scenario_tags': st}
                        return
                    if t_:
                        want.append(s.name)
                if got != want:
                    o.verdict = 'violated'
                    o.detail = 'kept %s, accepted are %s (mode %s, expression %s)' % (got, want, mode, shape)
                    m = ex_.solver.model() if ex_.check() else None
                    o.model = {'mode': mode, 'expression': str(shape), 'kept': got, 'accepted': want,
                               'feature_tags': ft, 'rule_tags': rt, 'scenario_tags': st,
                               'true_atoms': sorted(str(d) for d in (m.decls() if m else []) if z3.is_true(m[d]))}
            check_list(ob('top-level-scenarios=exactly-the-accepted-in-order'), survivors(ex_.field_of(f2, None, F.index('scenarios'), 'Vec')), res['tops'], False)
            rules2 = ex_.materialize(ex_.field_of(f2, None, F.index('rules'), 'Vec'))
            o = ob('rules-kept')
            o.paths += 1
            if len(rules2.items) != 2:
                o.verdict = 'violated'
                o.detail = '%d rules after filtering (2 before)' % len(rules2.items)
                return
            r2 = ex_.materialize(rules2.items[0])
            check_list(ob('rule-scenarios=exactly-the-accepted-in-order'), survivors(ex_.field_of(r2, None, Rl.index('scenarios'), 'Vec')), res['rsc'], True)
            r2b = ex_.materialize(rules2.items[1])
            check_list(ob('rule-scenarios=exactly-the-accepted-in-order'), survivors(ex_.field_of(r2b, None, Rl.index('scenarios'), 'Vec')), res['r2sc'], 'ruleB')
            o = ob('rest-of-feature-untouched')
            o.paths += 1
            same = ex_.field_of(f2, None, F.index('tags'), 'Vec') is feat.fields[(None, F.index('tags'))] and \
                ex_.field_of(r2, None, Rl.index('tags'), 'Vec') is res['rule'].fields[(None, Rl.index('tags'))]
            for nm in ('background', 'name', 'description', 'keyword', 'position', 'span', 'path'):
                a = ex_.field_of(f2, None, F.index(nm), '?')
                b = ex_.field_of(feat, None, F.index(nm), '?')
                same = same and (a is b or (isinstance(a, Lazy) and isinstance(b, Lazy) and a.name == b.name))
            if not same:
                o.verdict = 'violated'
                o.detail = 'feature fields other than the scenario lists changed'
            if any(o_.verdict == 'violated' for o_ in obs.values()):
                ex_.stop = True          # a counterexample: go and confirm it instead of enumerating the rest
        ex.explore(run, on_end)
        if any(o_.verdict == 'violated' for o_ in obs.values()):
            break
    eval_obligation(chk, 'C15', obs)
    # the tags a filter sees on a scenario that came out of an outline are the ones expansion gave it (outline's + its own
    # Examples block's): decided on expand_scenario / expand_examples
    from checks import c16
    c16.obligations(chk, 'C15')
    # the --name / --tags options installed through Cucumber::with_cli() survive the builder methods called afterwards
    from checks import cucumber_builders
    cucumber_builders.obligations(chk, 'C15')
    bad = [o for o in obs.values() if o.verdict == 'violated']
    if bad:
        confirm(chk, bad)
    else:
        # no violation: the native grid must agree with the reference (validates the reference the confirmations rely on)
        probe = Obligation('C15.native-grid-agrees-with-reference', 'driver mode filter: features x filters grid')
        probe.verdict, probe.detail = 'violated', ''
        confirm(chk, [probe])
        probe.kind = 'witness'
        probe.verdict = 'witness-ok' if 'follows the reference' in probe.detail else 'witness-missing'
        chk.add(probe)
    w = chk.add(Obligation('C15.witness', 'exploration'))
    w.kind = 'witness'
    w.verdict = 'witness-ok' if npaths[0] >= 100 and 'rule-scenarios=exactly-the-accepted-in-order' in obs else 'witness-missing'
    w.detail = '%d paths' % npaths[0]
    chk.assumptions += ['Regex::is_match is an opaque Boolean per scenario name; the user closure is an opaque Boolean per (feature, rule, scenario)',
                        'clap\'s mutual exclusion of --name/--tags is not assumed: name+tags is explored and --name must win',
                        'the surrounding stream plumbing (parser.parse, runner.run) is outside this kernel']


def confirm(chk, bad):
    """Native differential replay: the real Cucumber::filter_run with an in-memory parser and a recording runner
    (driver mode `filter`) on a grid of features x filters, against an independent reference."""
    import os
    from checks import replay
    d = os.path.join(common.EVID, 'replay')
    os.makedirs(d, exist_ok=True)
    path = os.path.join(d, '%s-filter.script' % chk.prop)
    res, out = replay.run_script('mode filter\n', path, timeout=300)
    chk.replays += 1
    exprs = {'tags1': lambda t: 'smoke' in t, 'tags2': lambda t: 'wip' not in t, 'tags3': lambda t: 'smoke' in t and 'wip' not in t,
             'tags4': lambda t: 'wip' in t or 'slow' in t, 'tags5': lambda t: not ('smoke' in t or 'wip' in t),
             'tags6': lambda t: 'slow' not in t, 'tags7': lambda t: 'x' in t and 'slow' not in t,
             'tags8': lambda t: 'smoke' in t, 'tags9': lambda t: not ('smoke' in t and 'wip' not in t),
             'tags10': lambda t: not ('wip' in t or 'slow' not in t),
             'tags11': lambda t: not ((not ('smoke' in t or 'wip' in t)) and 'slow' not in t)}
    scen = [('t_plain', False, []), ('t_wip', False, ['wip']), ('r_plain', True, []), ('r_wip', True, ['wip']), ('r_slow', True, ['slow']),
            ('r_smoke', True, ['smoke']),          # (a tag that the rule / the feature may carry as well: tags form a multiset)
            ('q_wip', 'r2', ['wip']), ('q_plain', 'r2', [])]          # a second, untagged rule
    devs, n = [], 0
    for ln in out.splitlines():
        if not ln.startswith('CASE '):
            continue
        n += 1
        kv = dict(x.split('=', 1) for x in ln.split()[1:])
        ft = [] if kv['ft'] == '-' else [kv['ft'].lstrip('@')]
        rt = [] if kv['rt'] == '-' else [kv['rt'].lstrip('@')]
        f = kv['filter']
        want = []
        for name, in_rule, st in scen:
            tags = set(ft + (rt if in_rule is True else []) + st)
            if f == 'closure':
                ok = name.endswith('plain')
            elif f == 'name':
                ok = 'wip' in name
            elif f == 'name+tags':
                ok = 'plain' in name
            else:
                ok = exprs[f](tags)
            if ok:
                want.append(name)
        none_kept = not want
        want.append('#rules=2#bg=true#tags=%s' % '+'.join(ft))
        # (a feature left without any scenario may be handed to the runner or withheld: the property does not say)
        if kv['kept'].split(',') != want and not (none_kept and kv['kept'] == ''):
            devs.append('%s | reference kept=%s' % (ln, ','.join(want)))
    for o in bad:
        if res is None or n == 0:
            o.verdict = 'inconclusive'
            o.detail += ' | native replay failed: %s' % out[-300:]
        elif devs:
            o.replay = path
            if path not in chk.replay_files:
                chk.replay_files.append(path)
            o.detail += ' | reproduced natively through the real Cucumber::filter_run with a recording runner (%d cases, %d deviate), e.g. %s' % (n, len(devs), devs[0][:300])
        else:
            o.verdict = 'inconclusive'
            o.detail += ' | native differential replay (%d cases) follows the reference - counterexample not reproduced' % n


if __name__ == '__main__':
    common.main('C15', body)
