"""C03 - event stream framing: run / feature / rule brackets are exact and properly nested.

Kernels decided on the MIR (the counting logic the brackets come from):
  FinishedRulesAndFeatures::{rule_scenario_finished, feature_scenario_finished} - arbitrary map, arbitrary counts
  FinishedRulesAndFeatures::finish_all_rules_and_features - every leftover bracket closed once, rules before features
  FinishedRulesAndFeatures::start_scenarios - Started exactly for brackets not open yet, features before rules
  insert_features - counters of ParsingFinished, errors forwarded in order, stop after the first error under fail-fast
"""
import itertools

import z3

from checks import common, events
from checks.common import Obligation
from checks.fail_on_skipped import poll_to_completion
from mirsmt.values import Cell, Lazy, Adt, Ref, Obj, UNIT, bv
from mirsmt.interp import Inconclusive, PathEnd

BV = z3.BitVecSort(64)
FKEY = 'event::Source<gherkin::Feature>'
RKEY = '(event::Source<gherkin::Feature>, event::Source<gherkin::Rule>)'


def method(prog, st, meth):
    c = [b for (s, m), lst in prog.by_method.items() if s == st and m == meth for tr, b in lst]
    if len(c) != 1:
        raise Inconclusive('%s::%s: %d candidates' % (st, meth, len(c)))
    return c[0]


def src(inner, pid, nm):
    return events.source(inner, pid, nm)


@common.part
def counting(chk):
    prog = chk.prog
    ix = events.CukeIdx(prog)
    FR = prog.tables.struct_fields('runner::basic::FinishedRulesAndFeatures')
    if not isinstance(FR, list) or 'features_scenarios_count' not in FR or 'rule_scenarios_count' not in FR:
        raise Inconclusive('FinishedRulesAndFeatures fields %r' % (FR,))
    for which in ('rule', 'feature'):
        body = method(prog, 'FinishedRulesAndFeatures', '%s_scenario_finished' % which)
        obs = {}
        bound = 'every path of %s_scenario_finished; arbitrary map contents (SMT arrays), count < 2^62, total = arbitrary value, is_retried arbitrary' % which

        def ob(name, which=which, obs=obs, bound=bound):
            if name not in obs:
                obs[name] = chk.add(Obligation('C03.%s_scenario_finished.%s' % (which, name), bound))
                obs[name].verdict = 'holds'
            return obs[name]
        ex, M = chk.new_exec(loop_bound=4)
        pf, pr = z3.BitVecs('K.feature K.rule', 64)
        retried = z3.Bool('is_retried')
        total_f = ex.func('count_scenarios', BV, BV)

        def count_scen(ex_, info, a, dty, M=M, total_f=total_f):
            r = ex_.materialize(a[0])
            if not (isinstance(r, Ref) and r.cell.name == 'feat'):
                raise Inconclusive('count_scenarios on %r' % (r,))
            return total_f(pf)
        M.table['Ext::count_scenarios'] = count_scen
        state = {}

        def run(ex_, which=which, M=M, body=body, state=state):
            fm = M.new_symmap(ex_, 'features', FKEY, 'usize')
            rm = M.new_symmap(ex_, 'rules', RKEY, 'usize')
            state['fm'], state['rm'] = fm, rm
            sv = Adt('runner::basic::FinishedRulesAndFeatures', {(None, FR.index('features_scenarios_count')): fm,
                                                                 (None, FR.index('rule_scenarios_count')): rm}, None, 'self')
            cell = Cell(sv, name='self')
            f = src('gherkin::Feature', pf, 'feat')
            r = src('gherkin::Rule', pr, 'rule')
            m0 = fm if which == 'feature' else rm
            key = M.key_term(ex_, f if which == 'feature' else Adt('tuple', {(None, 0): f, (None, 1): r}), m0.ksh)
            state['key'] = key
            ex_.add(z3.ULT(z3.Select(m0.leaves[0], key), bv(1 << 62)))
            args = [Ref(cell, ()), f] + ([r] if which == 'rule' else []) + [retried]
            try:
                out = ex_.call_body(body, args)
                return {'out': ex_.materialize(out), 'self': cell.v, 'panic': None}
            except PathEnd as e:
                if e.kind != 'panic':
                    raise
                return {'out': None, 'self': cell.v, 'panic': e.msg}

        def on_end(ex_, rec, which=which, M=M, state=state, ob=ob):
            kind, res, pc, dec = rec
            if kind != 'ok':
                o = ob('completes')
                o.verdict = 'inconclusive'
                o.detail = '%s: %s' % (kind, res)
                return
            m0 = state['fm'] if which == 'feature' else state['rm']
            other0 = state['rm'] if which == 'feature' else state['fm']
            key = state['key']
            present0, count0 = z3.Select(m0.present, key), z3.Select(m0.leaves[0], key)
            total = total_f(pf) if which == 'feature' else z3.BitVec('rule.%d.len' % prog.tables.struct_fields('gherkin::Rule').index('scenarios'), 64)
            terms = {'is_retried': retried, 'present': present0, 'count': count0, 'total': total}

            def refute(o, claim):
                o.paths += 1
                o.queries += 1
                if ex_.check(z3.Not(claim)):
                    if o.verdict != 'violated':
                        o.verdict = 'violated'
                        o.model = common.model_dict(ex_.solver.model(), terms)
                        o.detail = 'counterexample'
            if res['panic'] is not None:
                refute(ob('panics-only-for-an-unopened-bracket'), z3.And(z3.Not(retried), z3.Not(present0)))
                return
            sv = res['self']
            m1 = ex_.field_of(sv, None, FR.index('features_scenarios_count' if which == 'feature' else 'rule_scenarios_count'), 'HashMap')
            o1 = ex_.field_of(sv, None, FR.index('rule_scenarios_count' if which == 'feature' else 'features_scenarios_count'), 'HashMap')
            out = res['out']
            d = M.discr(ex_, out)
            finishing = z3.And(z3.Not(retried), count0 + 1 == total)
            refute(ob('Finished-iff-last-final-scenario'), (d == bv(1)) == finishing)
            if ex_.check(d == bv(1)):
                ev = ex_.materialize(ex_.field_of(out, 1, 0, 'event::Cucumber<W>'))
                c = [M.discr(ex_, ev) == bv(ix.Top['Feature']), M.pid(ex_, ex_.field_of(ev, ix.Top['Feature'], 0, FKEY)) == pf]
                fe = ex_.materialize(ex_.field_of(ev, ix.Top['Feature'], 1, 'event::Feature<W>'))
                if which == 'feature':
                    c.append(M.discr(ex_, fe) == bv(ix.Fe['Finished']))
                else:
                    c.append(M.discr(ex_, fe) == bv(ix.Fe['Rule']))
                    if not ex_.check(M.discr(ex_, fe) != bv(ix.Fe['Rule'])):
                        c.append(M.pid(ex_, ex_.field_of(fe, ix.Fe['Rule'], 0, 'event::Source<gherkin::Rule>')) == pr)
                        c.append(M.discr(ex_, ex_.field_of(fe, ix.Fe['Rule'], 1, 'event::Rule<W>')) == bv(ix.Re['Finished']))
                refute(ob('Finished-event-names-this-bracket'), z3.Implies(d == bv(1), z3.And(*c)))
            p1, c1 = z3.Select(m1.present, key), z3.Select(m1.leaves[0], key)
            refute(ob('count-updated-and-entry-removed-exactly-when-finishing'),
                   z3.If(retried, z3.And(p1 == present0, c1 == count0),
                         z3.If(finishing, z3.Not(p1), z3.And(p1, c1 == count0 + 1))))
            k2 = z3.BitVec('K2', key.size())
            refute(ob('other-brackets-untouched'), z3.Implies(k2 != key, z3.And(z3.Select(m1.present, k2) == z3.Select(m0.present, k2),
                                                                            z3.Select(m1.leaves[0], k2) == z3.Select(m0.leaves[0], k2))))
            k3 = z3.BitVec('K3', M.key_sort(other0.ksh).size())
            refute(ob('other-brackets-untouched'), z3.And(z3.Select(o1.present, k3) == z3.Select(other0.present, k3),
                                                         z3.Select(o1.leaves[0], k3) == z3.Select(other0.leaves[0], k3)))
        ex.explore(run, on_end)
        w = chk.add(Obligation('C03.%s_scenario_finished.witness' % which, 'exploration'))
        w.kind = 'witness'
        w.verdict = 'witness-ok' if {'Finished-iff-last-final-scenario', 'panics-only-for-an-unopened-bracket', 'Finished-event-names-this-bracket'} <= set(obs) else 'witness-missing'
        w.detail = 'exercised %s' % sorted(obs)
    chk.assumptions += ['Feature::count_scenarios is an uninterpreted function of the feature (same symbol wherever it is used); rule.scenarios.len() is one symbolic value',
                        'counts < 2^62']


def describe_event(ex, M, ix, ev):
    """-> ('feature'|'rule', kind, feature pid term, rule pid term|None) for a bracket event, else None"""
    ev = ex.materialize(ev)
    if z3.simplify(M.discr(ex, ev)).as_long() != ix.Top['Feature']:
        return None
    pf = z3.simplify(M.pid(ex, ex.field_of(ev, ix.Top['Feature'], 0, FKEY)))
    fe = ex.materialize(ex.field_of(ev, ix.Top['Feature'], 1, 'event::Feature<W>'))
    d = z3.simplify(M.discr(ex, fe)).as_long()
    inv = {v: k for k, v in ix.Fe.items()}
    if inv[d] in ('Started', 'Finished'):
        return ('feature', inv[d], str(pf), None)
    if inv[d] == 'Rule':
        pr = z3.simplify(M.pid(ex, ex.field_of(fe, ix.Fe['Rule'], 0, 'event::Source<gherkin::Rule>')))
        re_ = ex.materialize(ex.field_of(fe, ix.Fe['Rule'], 1, 'event::Rule<W>'))
        rd = z3.simplify(M.discr(ex, re_)).as_long()
        return ('rule', {v: k for k, v in ix.Re.items()}[rd], str(pf), str(pr))
    return None


@common.part
def finish_all(chk, prop='C03'):
    """finish_all_rules_and_features: leftover maps with <= 2 features x <= 2 rules, every hash-map iteration order."""
    prog = chk.prog
    ix = events.CukeIdx(prog)
    FR = prog.tables.struct_fields('runner::basic::FinishedRulesAndFeatures')
    body = method(prog, 'FinishedRulesAndFeatures', 'finish_all_rules_and_features')
    o = chk.add(Obligation(prop + '.finish_all.every-open-bracket-closed-once-rules-before-their-feature',
                           'leftover brackets: 0..2 features, 0..2 rules distributed over them; all iteration orders of both hash maps'))
    o.verdict = 'holds'
    np = 0
    shapes = [(nf, rules) for nf in (0, 1, 2) for rules in ([], [0], [1], [0, 1], [1, 1], [0, 0]) if all(r < nf for r in rules)]
    for nf, rules in shapes:
        ex, M = chk.new_exec(loop_bound=10)

        def run(ex_, nf=nf, rules=rules, M=M):
            fs = [src('gherkin::Feature', bv(0x100 + i), 'feat%d' % i) for i in range(nf)]
            fm = M.new_assoc(FKEY, 'usize', [(fs[i], bv(i)) for i in range(nf)])
            rm = M.new_assoc(RKEY, 'usize', [(Adt('tuple', {(None, 0): fs[fi], (None, 1): src('gherkin::Rule', bv(0x200 + j), 'rule%d' % j)}), bv(0))
                                             for j, fi in enumerate(rules)])
            sv = Adt('runner::basic::FinishedRulesAndFeatures', {(None, FR.index('features_scenarios_count')): fm,
                                                                 (None, FR.index('rule_scenarios_count')): rm}, None, 'self')
            cell = Cell(sv, name='self')
            it = ex_.call_body(body, [Ref(cell, ())])
            items = M.seq_of(ex_, it)
            return {'events': [describe_event(ex_, M, ix, e) for e in items], 'self': cell.v}

        def on_end(ex_, rec, nf=nf, rules=rules, M=M):
            nonlocal np
            kind, res, pc, dec = rec
            np += 1
            o.paths += 1
            if kind != 'ok':
                o.verdict = 'inconclusive' if kind in ('loopbound', 'unreachable') else 'violated'
                o.detail = '%s: %s' % (kind, res)
                return
            evs = res['events']
            want_f = sorted(str(0x100 + i) for i in range(nf))
            want_r = sorted((str(0x100 + fi), str(0x200 + j)) for j, fi in enumerate(rules))
            got_f = sorted(e[2] for e in evs if e and e[0] == 'feature' and e[1] == 'Finished')
            got_r = sorted((e[2], e[3]) for e in evs if e and e[0] == 'rule' and e[1] == 'Finished')
            ok = None not in evs and len(evs) == len(want_f) + len(want_r) and got_f == want_f and got_r == want_r
            if ok:
                # nesting: a rule's Finished precedes its feature's Finished
                for i, e in enumerate(evs):
                    if e[0] == 'rule':
                        fi = [k for k, x in enumerate(evs) if x[0] == 'feature' and x[2] == e[2]]
                        ok = ok and bool(fi) and fi[0] > i
            sv = res['self']
            empty = all(len(ex_.field_of(sv, None, FR.index(n), 'HashMap').entries) == 0 for n in ('features_scenarios_count', 'rule_scenarios_count'))
            if not ok or not empty:
                o.verdict = 'violated'
                o.detail = 'leftover features %d, rules of features %s: emitted %s (maps emptied: %s)' % (nf, rules, evs, empty)
                o.model = {'features': nf, 'rules_of_feature': rules, 'emitted': [list(e) if e else None for e in evs]}
        ex.explore(run, on_end)
    if o.verdict == 'violated':
        confirm_finish_all(chk, o, prop)
    return o


def confirm_finish_all(chk, o, prop='C03'):
    """In-crate replay of the real finish_all_rules_and_features on the counterexample's leftover brackets."""
    import os
    from checks import incrate
    nf, rules = o.model['features'], o.model['rules_of_feature']
    code = r'''
    #[test]
    fn verif_replay() {
      // hash-map iteration order is random per map instance: repeat with fresh maps
      for _round in 0..40 {
        let (_tx, rx) = mpsc::unbounded();
        let mut fr = FinishedRulesAndFeatures::new(rx);
        let feats: Vec<Source<gherkin::Feature>> = (0..%d).map(|i| Source::new(gherkin::Feature::parse(format!("Feature: f{i}\n  Rule: r{i}a\n    Scenario: x\n      Given x\n  Rule: r{i}b\n    Scenario: y\n      Given y\n"), gherkin::GherkinEnv::default()).unwrap())).collect();
        for f in &feats { fr.features_scenarios_count.insert(f.clone(), 0); }
        let rules_of: Vec<usize> = vec![%s];
        let mut seen = vec![0usize; feats.len()];
        for fi in rules_of {
            let f = &feats[fi];
            let r = Source::new(f.rules[seen[fi]].clone());
            seen[fi] += 1;
            fr.rule_scenarios_count.insert((f.clone(), r), 0);
        }
        let evs: Vec<event::Cucumber<()>> = fr.finish_all_rules_and_features().collect();
        let mut out = vec![];
        for e in &evs {
            match e {
                event::Cucumber::Feature(f, event::Feature::Finished) => out.push(format!("F:{}", f.name)),
                event::Cucumber::Feature(f, event::Feature::Rule(r, event::Rule::Finished)) => out.push(format!("R:{}:{}", f.name, r.name)),
                _ => out.push("other".to_owned()),
            }
        }
        println!("RESULT events={} left_f={} left_r={}", out.join(",") + "_", fr.features_scenarios_count.len(), fr.rule_scenarios_count.len());
      }
    }
''' % (nf, ', '.join(str(r) for r in rules))
    res, out = incrate.run('src/runner/basic.rs', code)
    chk.replays += 1
    d = os.path.join(common.EVID, 'replay')
    os.makedirs(d, exist_ok=True)
    path = os.path.join(d, '%s-finish-all.txt' % prop)
    if not res:
        o.verdict = 'inconclusive'
        o.detail += ' | in-crate replay did not run: %s' % out[-400:]
        return
    want_f = sorted('F:f%d' % i for i in range(nf))
    n_r = len(rules)
    ok, evs, bad_r = True, [], None
    for r in res:
        evs = [x for x in str(r['events']).rstrip('_').split(',') if x]
        good = sorted(e for e in evs if e.startswith('F:')) == want_f and len([e for e in evs if e.startswith('R:')]) == n_r and len(set(evs)) == len(evs) and \
            r['left_f'] == 0 and r['left_r'] == 0
        for i, e in enumerate(evs):
            if e.startswith('R:'):
                fname = e.split(':')[1]
                good = good and ('F:' + fname) in evs[i + 1:]
        if not good:
            ok, bad_r = False, r
            break
    if not ok:
        res = [bad_r]
    if ok:
        o.verdict = 'inconclusive'
        o.detail += ' | in-crate replay: the real function closes all brackets correctly (%s) - counterexample not reproduced' % evs
    else:
        open(path, 'w').write('leftover features %d, rules of features %s\nreal finish_all_rules_and_features emitted: %s (left in maps: %s features, %s rules)\n' % (nf, rules, evs, res[0]['left_f'], res[0]['left_r']))
        chk.replay_files.append(path)
        o.replay = path
        o.detail += ' | reproduced natively (in-crate replay of the real finish_all_rules_and_features): emitted %s' % evs


@common.part
def start_scenarios(chk):
    """start_scenarios: a batch of <= 3 runnable entries over <= 2 features / <= 2 rules, some brackets already open."""
    prog = chk.prog
    ix = events.CukeIdx(prog)
    FR = prog.tables.struct_fields('runner::basic::FinishedRulesAndFeatures')
    body = method(prog, 'FinishedRulesAndFeatures', 'start_scenarios')
    o = chk.add(Obligation('C03.start_scenarios.Started-exactly-for-unopened-brackets-features-before-rules',
                           'batches of 1..3 entries over 2 features and 2 rules (rule j belongs to feature j), with every subset of brackets already open'))
    o.verdict = 'holds'
    batches = [b for n in (1, 2, 3) for b in itertools.product([(0, None), (0, 0), (1, None), (1, 1)], repeat=n)]
    if chk.tier != 'thorough':
        batches = [b for b in batches if len(b) <= 2] + [((0, None), (0, 0), (1, 1)), ((0, 0), (0, 0), (0, None)), ((1, 1), (0, 0), (1, 1))]
    for batch in batches:
        for open_f, open_r in itertools.product(itertools.product((0, 1), repeat=2), repeat=2):
            if any(open_r[j] and not open_f[j] for j in (0, 1)):
                continue
            ex, M = chk.new_exec(loop_bound=10)

            def run(ex_, batch=batch, open_f=open_f, open_r=open_r, M=M):
                fs = [src('gherkin::Feature', bv(0x100 + i), 'feat%d' % i) for i in range(2)]
                rs = [src('gherkin::Rule', bv(0x200 + i), 'rule%d' % i) for i in range(2)]
                fm = M.new_assoc(FKEY, 'usize', [(fs[i], bv(7)) for i in range(2) if open_f[i]])
                rm = M.new_assoc(RKEY, 'usize', [(Adt('tuple', {(None, 0): fs[i], (None, 1): rs[i]}), bv(5)) for i in range(2) if open_r[i]])
                sv = Adt('runner::basic::FinishedRulesAndFeatures', {(None, FR.index('features_scenarios_count')): fm,
                                                                     (None, FR.index('rule_scenarios_count')): rm}, None, 'self')
                cell = Cell(sv, name='self')
                items = []
                for k, (fi, ri) in enumerate(batch):
                    ro = Adt('Option<event::Source<gherkin::Rule>>', {(1, 0): rs[ri]} if ri is not None else {}, 1 if ri is not None else 0)
                    items.append(Adt('(ScenarioId, ..)', {(None, 0): Lazy('ScenarioId', 'id%d' % k), (None, 1): fs[fi], (None, 2): ro,
                                                          (None, 3): Lazy('event::Source<gherkin::Scenario>', 'sc%d' % k),
                                                          (None, 4): Lazy('ScenarioType', 'ty%d' % k), (None, 5): Lazy('Option<RetryOptions>', 'ret%d' % k)}))
                runnable = Obj('vec', items=tuple(items), ty='Vec<..>')
                it = ex_.call_body(body, [Ref(cell, ()), runnable])
                evs = [describe_event(ex_, M, ix, e) for e in M.seq_of(ex_, it)]
                sv = cell.v
                fm1 = ex_.field_of(sv, None, FR.index('features_scenarios_count'), 'HashMap')
                rm1 = ex_.field_of(sv, None, FR.index('rule_scenarios_count'), 'HashMap')
                keys_f = {str(z3.simplify(M.pid(ex_, k))): z3.simplify(v).as_long() for k, v in fm1.entries}
                keys_r = {str(z3.simplify(M.pid(ex_, ex_.field_of(k, None, 1, 'Source')))): z3.simplify(v).as_long() for k, v in rm1.entries}
                return {'events': evs, 'keys_f': keys_f, 'keys_r': keys_r}

            def on_end(ex_, rec, batch=batch, open_f=open_f, open_r=open_r):
                kind, res, pc, dec = rec
                o.paths += 1
                if kind != 'ok':
                    o.verdict = 'inconclusive' if kind in ('loopbound', 'unreachable') else 'violated'
                    o.detail = '%s: %s' % (kind, res)
                    return
                want_f, want_r = [], []
                for fi, ri in batch:
                    if not open_f[fi] and str(0x100 + fi) not in want_f:
                        want_f.append(str(0x100 + fi))
                    if ri is not None and not open_r[ri] and (str(0x100 + fi), str(0x200 + ri)) not in want_r:
                        want_r.append((str(0x100 + fi), str(0x200 + ri)))
                want = [('feature', 'Started', f, None) for f in want_f] + [('rule', 'Started', f, r) for f, r in want_r]
                kf = {str(0x100 + i): 7 for i in range(2) if open_f[i]}
                kf.update({f: 0 for f in want_f})
                kr = {str(0x200 + i): 5 for i in range(2) if open_r[i]}
                kr.update({r: 0 for _, r in want_r})
                if res['events'] != want or res['keys_f'] != kf or res['keys_r'] != kr:
                    o.verdict = 'violated'
                    o.detail = 'batch %s with open features %s rules %s: emitted %s, expected %s; maps %s %s' % (batch, open_f, open_r, res['events'], want, res['keys_f'], res['keys_r'])
                    o.model = {'batch': [list(b) for b in batch], 'open_features': list(open_f), 'open_rules': list(open_r), 'emitted': [list(e) if e else None for e in res['events']]}
            ex.explore(run, on_end)
    if o.verdict == 'violated':
        confirm_brackets(chk, [o])
    return o


def confirm_brackets(chk, bad):
    """Native replay through the REAL runner: scripted runs with rules, retries, serial scenarios and fail-fast;
    the event stream is checked by an independent bracket checker."""
    import os
    import re
    from checks import replay
    d = os.path.join(common.EVID, 'replay')
    os.makedirs(d, exist_ok=True)
    scripts = bracket_scripts()
    devs, fails = [], []
    for name, lines in scripts:
        path = os.path.join(d, 'C03-brackets-%s.script' % name)
        res, out = replay.run_script('\n'.join(['mode runner'] + lines) + '\n', path, timeout=60)
        chk.replays += 1
        if res is None or res.get('timeout'):
            fails.append((name, out[-200:]))
            continue
        err = check_brackets([ln[7:].rsplit(' t=', 1)[0] for ln in out.splitlines() if ln.startswith('LOG EV ')])
        if err:
            devs.append((name, err, path))
            if path not in chk.replay_files:
                chk.replay_files.append(path)
        else:
            os.remove(path)
    for o in bad:
        if devs:
            o.replay = devs[0][2]
            o.detail += ' | reproduced natively through the real runner: %s' % '; '.join('%s: %s' % (n, e) for n, e, _ in devs[:3])
        elif fails:
            o.verdict = 'inconclusive'
            o.detail += ' | native replay failed: %s' % (fails[0],)
        else:
            o.verdict = 'inconclusive'
            o.detail += ' | %d native runs through the real runner keep all brackets exact - counterexample not reproduced' % len(scripts)


def bracket_scripts():
    def feat(name, body, late=0):
        return ['feature late=%d' % late, '| Feature: %s' % name] + ['| ' + x for x in body]
    f_rules = lambda n, tag='': feat(n, ['  Scenario: %s_t' % n, '    Given %s_t' % n, '  Rule: %s_r1' % n, '    %s' % tag, '    Scenario: %s_a' % n, '      Given %s_a' % n,
                                          '    Scenario: %s_b' % n, '      Given %s_b' % n, '  Rule: %s_r2' % n, '    Scenario: %s_c' % n, '      Given %s_c' % n])  # noqa
    out = []
    out.append(('plain', ['builder max_concurrent=2'] + f_rules('f1') + f_rules('f2') + ['step f1_a yields=3', 'step f2_c yields=2']))
    out.append(('failfast-retry', ['builder max_concurrent=2 fail_fast=1 retries=1'] + f_rules('f1') + f_rules('f2') +
                ['step f1_a yields=6 fail_first=1', 'step f2_b always_fail', 'step f1_t yields=1']))
    out.append(('failfast-serial', ['builder max_concurrent=3 fail_fast=1'] + f_rules('f1', '@serial') + f_rules('f2', '@serial') +
                ['step f2_a always_fail', 'step f1_t yields=4', 'step f2_t yields=2']))
    out.append(('failfast-late', ['builder max_concurrent=1 fail_fast=1'] + f_rules('f1') + feat('f2', ['  Rule: r', '    Scenario: x', '      Given x'], late=2) +
                ['step f1_b always_fail']))
    out.append(('lazy-retry', ['builder max_concurrent=2 retries=2'] + f_rules('f1') + feat('f2', ['  Rule: r', '    Scenario: x', '      Given x'], late=5) +
                ['step f1_c fail_first=2 yields=1', 'step x yields=2']))
    # attempts that do not start at current = 0 (a custom retry resolver may hand out any RetryOptions): a whole rule and a
    # whole feature made of such scenarios still get their brackets
    out.append(('resumed-attempts', ['builder max_concurrent=2 retry_resolver=resumed'] + f_rules('f1') +
                feat('f2', ['  Rule: only', '    Scenario: f2_a', '      Given f2_a', '    Scenario: f2_c', '      Given f2_c']) + ['step f1_a fail_first=1', 'step f2_c yields=2']))
    out.append(('parse-error', ['builder max_concurrent=2', 'parse_error'] + f_rules('f1') + ['parse_error late=1'] + feat('f2', ['  Scenario: y', '    Given y'])))
    return out


def check_brackets(evs):
    """independent bracket checker over classify() lines; returns an error string or None"""
    import re
    if not evs or 'started' not in evs:
        return 'no run-Started'
    firstf = [i for i, e in enumerate(evs) if e.startswith('feature[')]
    if firstf and firstf[0] < evs.index('started'):
        return 'a feature event precedes run-Started'
    if evs[-1] != 'finished':
        return 'stream does not end with run-Finished'
    evs = ['parsing_finished' if e.startswith('parsing_finished') else e for e in evs]
    if evs.count('started') != 1 or evs.count('finished') != 1 or evs.count('parsing_finished') != 1:
        return 'run-Started / ParsingFinished / run-Finished not exactly once'
    open_f, open_r, done_f, done_r = {}, {}, set(), set()
    for e in evs[:-1]:
        if e in ('parsing_finished', 'err', 'started'):
            continue
        m = re.match(r'feature\[(.*?)\]:(.*)$', e)
        if not m:
            return 'unexpected item %s' % e
        f, rest = m.group(1), m.group(2)
        if rest == 'started':
            if f in open_f or f in done_f:
                return 'feature %s started twice' % f
            open_f[f] = 0
            continue
        if f not in open_f:
            return 'event of feature %s outside its bracket: %s' % (f, e)
        if rest == 'finished':
            if any(r[0] == f for r in open_r):
                return 'feature %s finished while its rule %s is still open' % (f, [r[1] for r in open_r if r[0] == f])
            if open_f[f] == 0:
                return 'bracket of feature %s has no scenario' % f
            del open_f[f]
            done_f.add(f)
            continue
        m2 = re.match(r'rule\[(.*?)\]:(.*)$', rest)
        if m2:
            r, rrest = (f, m2.group(1)), m2.group(2)
            if rrest == 'started':
                if r in open_r or r in done_r:
                    return 'rule %s started twice' % (r,)
                open_r[r] = 0
                continue
            if r not in open_r:
                return 'event of rule %s outside its bracket: %s' % (r, e)
            if rrest == 'finished':
                if open_r[r] == 0:
                    return 'bracket of rule %s has no scenario' % (r,)
                del open_r[r]
                done_r.add(r)
                continue
            open_r[r] += 1
        open_f[f] += 1
    if open_f or open_r:
        return 'brackets never closed: features %s rules %s' % (sorted(open_f), sorted(open_r))
    return None


def body(chk):
    counting(chk)
    finish_all(chk)
    start_scenarios(chk)
    from checks import ingest, sched_worlds
    ingest.obligations(chk, 'C03')
    sched_worlds.run(chk, 'C03')
    # the bracket counters act on what an attempt reports when it ends (failed? going to be retried?): reported correctly for
    # every kind of failure (step, hook, World)
    from checks import attempt_driver
    attempt_driver.run(chk, 'C03')


if __name__ == '__main__':
    common.main('C03', body)
