"""Repeat (C13): filter closures and handle_event delivery, decided on the MIR."""
import z3

from checks import common, events
from checks.common import Obligation
from checks.fail_on_skipped import _entry, poll_to_completion
from mirsmt.values import Cell, Lazy, Adt, Ref, Obj, UNIT, bv
from mirsmt.interp import Inconclusive, PathEnd


@common.part
def filters(chk, prop):
    """Repeat::skipped / Repeat::failed filter closures accept exactly the event shapes of the statement."""
    ix = events.CukeIdx(chk.prog)
    out = []
    for which in ('skipped', 'failed'):
        cands = [b for (st, m), lst in chk.prog.by_method.items() if st == 'Repeat' and m == which for tr, b in lst]
        if len(cands) != 1:
            raise Inconclusive('Repeat::%s: %d candidates' % (which, len(cands)))
        body = chk.prog.bodies.get(cands[0].name + '::{closure#0}')
        if body is None:
            raise Inconclusive('Repeat::%s filter closure not found' % which)
        o = chk.add(Obligation('%s.repeat.filter[%s]' % (prop, which), 'every path of the filter closure, arbitrary stream item'))
        o.verdict = 'holds'
        ex, M = chk.new_exec(loop_bound=4)
        E = events.SymCuke('E')
        S = E.sc
        if which == 'skipped':
            spec = z3.And(E.is_scenario(ix), S.is_step_ev(ix), S.step == bv(ix.Step['Skipped']))
        else:
            spec = z3.Or(E.is_err(), z3.And(E.is_scenario(ix), z3.Or(
                z3.And(S.is_step_ev(ix), S.step == bv(ix.Step['Failed'])), S.hook_failed(ix))))

        def run(ex_, E=E, body=body):
            ex_.add(E.well_formed(ix))
            evc = Cell(E.build(ix), name='item')
            args = [Ref(evc, ())]
            p0 = body.params[0][1].strip()
            clo = Adt(p0.lstrip('&').replace('mut ', '').strip(), {}, None, None)
            args = [Ref(Cell(clo), ()) if p0.startswith('&') else clo] + args
            return ex_.call_body(body, args)

        def on_end(ex_, rec, o=o, spec=spec, E=E):
            kind, res, pc, dec = rec
            o.paths += 1
            if kind != 'ok':
                o.verdict = 'inconclusive' if kind in ('loopbound', 'unreachable') else 'violated'
                o.detail = '%s: %s' % (kind, res)
                return
            o.queries += 1
            if ex_.check(res != spec):
                o.verdict = 'violated'
                o.model = common.model_dict(ex_.solver.model(), {'res': E.res, 'top': E.top, 'fe': E.fe, 're': E.re, 'sc': E.sc.sc,
                                                                 'step': E.sc.step, 'hook': E.sc.hook, 'ret': E.sc.ret, 'cur': E.sc.cur, 'left': E.sc.left, 'err': E.sc.err, 'returned': res})
                o.detail = 'filter accepts a different set of events'
        ex.explore(run, on_end)
        if o.verdict == 'violated':
            confirm_filter(chk, o, prop, which, ix)
        out.append(o)
    return out


def confirm_filter(chk, o, prop, which, ix):
    """Native replay: feed the model's item, then run-Finished, through the real Repeat::<which>."""
    import os
    from checks import replay
    m = o.model
    inv = lambda d: {v: k for k, v in d.items()}  # noqa
    d = os.path.join(common.EVID, 'replay')
    os.makedirs(d, exist_ok=True)
    path = os.path.join(d, '%s-repeat-filter-%s.script' % (prop, which))
    lines = ['mode events', 'wrapper repeat_%s' % which, 'bg 1', 'own 1']
    ev = None
    # the item's Option<Retries> as the model has it (values shortened to what the driver accepts)
    rtok = 'r=-' if not m.get('ret') else 'r=%d/%d' % (min(int(m.get('cur') or 0), 1000), min(int(m.get('left') or 0), 1000))
    if m['res'] == 1:
        ev = 'ev parse_error'
    else:
        top = inv(ix.Top)[m['top']]
        if top == 'Started':
            ev = 'ev run_started'
        elif top == 'ParsingFinished':
            ev = 'ev parsing_finished'
        elif top == 'Finished':
            ev = None
        else:
            fe = inv(ix.Fe)[m['fe']]
            in_rule = fe == 'Rule'
            if fe == 'Started':
                ev = 'ev feature_started'
            elif fe == 'Finished':
                ev = 'ev feature_finished'
            elif in_rule and inv(ix.Re)[m['re']] == 'Started':
                ev, lines = 'ev rule_started', lines + ['rule 1']
            elif in_rule and inv(ix.Re)[m['re']] == 'Finished':
                ev = None
            else:
                if in_rule:
                    lines.append('rule 1')
                sc = inv(ix.Sc)[m['sc']]
                if sc in ('Started', 'Finished'):
                    ev = ('ev %s ' % sc.lower()) + rtok
                elif sc == 'Hook':
                    ev = ('ev hook after %s ' % inv(ix.Hook)[m['hook']].lower()) + rtok
                elif sc in ('Background', 'Step'):
                    k = inv(ix.Step)[m['step']].lower()
                    ev = ('ev %s 0 %s%s ' % ('bg' if sc == 'Background' else 'step', k, (' ' + {ix.Err['NotFound']: 'notfound', ix.Err['AmbiguousMatch']: 'ambiguous'}.get(m.get('err'), 'panic')) if k == 'failed' else '')) + rtok
    if ev is None:
        o.verdict = 'inconclusive'
        o.detail += ' | counterexample item not scriptable'
        return
    res, out = replay.run_script('\n'.join(lines + [ev, 'ev run_finished']) + '\n', path)
    chk.replays += 1
    chk.replay_files.append(path)
    o.replay = path
    n = res.get('inner_events') if res else None
    want_by_encoder = 3 if str(m['returned']) in ('True', 'true') else 2
    if n == want_by_encoder:
        o.detail += ' | reproduced natively: real Repeat::%s %s this item (%s)' % (which, 're-emits' if n == 3 else 'does not re-emit', path)
    else:
        o.verdict = 'inconclusive'
        o.detail += ' | native replay DISAGREES: inner events %s' % n


@common.part
def delivery(chk, prop):
    """handle_event: pass-through in order; after run-Finished the buffered items are re-emitted once, in order,
    and the buffer is emptied; an item is buffered iff the filter accepts it."""
    ix = events.CukeIdx(chk.prog)
    entry = _entry(chk, 'Repeat')
    fl = chk.prog.tables.struct_fields('repeat::Repeat<W, Wr, F>')
    if not isinstance(fl, list) or set(fl) != {'writer', 'filter', 'events'}:
        raise Inconclusive('Repeat fields: %r' % (fl,))
    nbuf = (0, 1, 2) if chk.tier == 'thorough' else (0, 2)
    pendings = (0, 1) if chk.tier == 'thorough' else (0,)
    obs = {}
    bound = 'every path of Repeat::handle_event polled to completion; buffer of %s earlier items; arbitrary item; arbitrary filter verdict; inner futures pending %s polls' % (nbuf, pendings)

    def ob(name):
        if name not in obs:
            obs[name] = chk.add(Obligation('%s.repeat.%s' % (prop, name), bound))
            obs[name].verdict = 'holds'
        return obs[name]
    npaths = [0]
    for n in nbuf:
        for k in pendings:
            ex, M = chk.new_exec(loop_bound=n + 6)
            E = events.SymCuke('E')
            keep = z3.Bool('filter(item)')

            def hook(ex_, f, args, dty, info, M=M, keep=keep):
                M.log(ex_, 'filter', args=args)
                return keep
            M.opaque_fn_hook = hook

            def run(ex_, n=n, k=k, E=E, M=M):
                ex_.env['inner_pending'] = k
                ex_.add(E.well_formed(ix))
                old = tuple(Lazy('Result<Event<Cucumber<W>>, parser::Error>', 'buffered%d' % i) for i in range(n))
                sv = Adt('repeat::Repeat<W, Wr, F>', {(None, fl.index('writer')): Lazy('Wr', 'inner'),
                                                      (None, fl.index('filter')): Lazy('F', 'filter'),
                                                      (None, fl.index('events')): Obj('vec', items=old, ty='Vec<..>')}, None, None)
                cell = Cell(sv, name='self')
                evv = E.build(ix)
                cli = Ref(Cell(Lazy('Cli', 'cli'), name='cli'), ())
                co = ex_.call_body(entry, [Ref(cell, ()), evv, cli])
                poll_to_completion(ex_, M, co, (n + 2) * (k + 1) + 3)
                return {'log': list(ex_.env.get('log', [])), 'input': evv, 'old': old, 'self': cell.v}

            def on_end(ex_, rec, E=E, M=M, keep=keep, n=n):
                kind, res, pc, dec = rec
                npaths[0] += 1
                if kind != 'ok':
                    o = ob('completes')
                    o.verdict = 'inconclusive' if kind in ('loopbound', 'unreachable') else 'violated'
                    o.detail = '%s: %s' % (kind, res)
                    return
                log = res['log']
                got = [e['event'] for e in log if e['kind'] == 'inner_handle_event_done']
                fin = E.top_is(ix, 'Finished')
                is_fin = ex_.check(fin)
                not_fin = ex_.check(z3.Not(fin))
                kept = ex_.check(keep)
                not_kept = ex_.check(z3.Not(keep))
                if is_fin and not_fin:
                    ob('path-decides').verdict = 'inconclusive'
                    return
                if kept and not_kept:
                    # the filter verdict never influenced this path although what must be delivered depends on it
                    o = ob('pass-through-then-re-emit-matching-once-in-order-after-run-Finished')
                    o.paths += 1
                    o.verdict = 'violated'
                    o.detail = 'the filter verdict is not consulted for this item (Finished=%s, buffered=%d): delivery cannot follow it' % (is_fin, n)
                    o.model = {'finished': is_fin, 'filter': 'not consulted', 'buffered_before': n}
                    return
                inp, old = res['input'], list(res['old'])

                def same(a, b):
                    return common.same_value(ex_, a, b)
                want = [inp]
                if is_fin:
                    want += old + ([inp] if kept else [])
                o = ob('pass-through-then-re-emit-matching-once-in-order-after-run-Finished')
                o.paths += 1
                if len(got) != len(want) or not all(same(x, y) for x, y in zip(got, want)):
                    o.verdict = 'violated'
                    o.detail = 'inner writer received %d items, expected %d (Finished=%s, filter=%s, buffered=%d)' % (len(got), len(want), is_fin, kept, n)
                    o.model = {'finished': is_fin, 'filter': kept, 'buffered_before': n, 'delivered': len(got), 'expected': len(want)}
                buf = ex_.field_of(res['self'], None, fl.index('events'), 'Vec')
                o2 = ob('buffer-holds-exactly-the-matching-items')
                o2.paths += 1
                wantbuf = [] if is_fin else old + ([inp] if kept else [])
                items = list(buf.items) if isinstance(buf, Obj) and buf.kind == 'vec' else None
                if items is None or len(items) != len(wantbuf) or not all(same(x, y) for x, y in zip(items, wantbuf)):
                    o2.verdict = 'violated'
                    o2.detail = 'buffer after the call has %s items, expected %d' % (None if items is None else len(items), len(wantbuf))
                    o2.model = {'finished': is_fin, 'filter': kept, 'buffered_before': n}
                o3 = ob('filter-evaluated-on-the-item')
                o3.paths += 1
                fc = [e for e in log if e['kind'] == 'filter']
                if len(fc) != 1:
                    o3.verdict = 'violated'
                    o3.detail = 'filter evaluated %d times' % len(fc)
                else:
                    r = ex_.materialize(fc[0]['args'][0])
                    v = ex_.read_path(r.cell, r.path) if isinstance(r, Ref) else None
                    if v is not inp:
                        o3.verdict = 'violated'
                        o3.detail = 'filter evaluated on something else than the item'
            ex.explore(run, on_end)
    bad = [o for o in obs.values() if o.verdict == 'violated']
    if bad:
        confirm_delivery(chk, bad, prop)
    w = chk.add(Obligation('%s.repeat.witness' % prop, 'exploration'))
    w.kind = 'witness'
    w.verdict = 'witness-ok' if npaths[0] >= 4 * len(nbuf) * len(pendings) else 'witness-missing'
    w.detail = '%d paths' % npaths[0]
    return list(obs.values())


def confirm_delivery(chk, bad, prop):
    """Native replay through the real Repeat::skipped: streams with 0..2 matching items, with and without run-Finished;
    the number of items reaching the inner writer is compared with the specification."""
    import os
    from checks import replay
    d = os.path.join(common.EVID, 'replay')
    os.makedirs(d, exist_ok=True)
    deviations = []
    for n in (0, 1, 2):
        for fin in (False, True):
            for extra in ('passed', 'skipped'):
                path = os.path.join(d, '%s-repeat-delivery-%d-%s-%s.script' % (prop, n, 'fin' if fin else 'nofin', extra))
                lines = ['mode events', 'wrapper repeat_skipped', 'bg 3', 'own 1'] + ['ev bg %d skipped r=-' % i for i in range(n)]
                lines.append('ev step 0 %s r=-' % extra)
                if fin:
                    lines.append('ev run_finished')
                fed = n + 1 + (1 if fin else 0)
                want = fed + ((n + (1 if extra == 'skipped' else 0)) if fin else 0)
                res, out = replay.run_script('\n'.join(lines) + '\n', path)
                chk.replays += 1
                if res is None:
                    for o in bad:
                        o.verdict = 'inconclusive'
                        o.detail += ' | native replay failed: %s' % out[-200:]
                    return
                if res.get('inner_events') != want:
                    deviations.append((path, res.get('inner_events'), want))
                    chk.replay_files.append(path)
                else:
                    os.remove(path)
    # what is re-emitted is the very event that went through before (a skipped BACKGROUND step stays a background step)
    path = os.path.join(d, '%s-repeat-same-events.script' % prop)
    lines = ['mode events', 'wrapper repeat_skipped', 'bg 1', 'own 1', 'ev bg 0 started r=-', 'ev bg 0 skipped r=-', 'ev run_finished']
    res, out = replay.run_script('\n'.join(lines) + '\n', path)
    chk.replays += 1
    logs = [ln[4:] for ln in out.splitlines() if ln.startswith('LOG ')]
    if res is not None and 'finished' in logs:
        k = logs.index('finished')
        first, again = [x for x in logs[:k] if ':skipped' in x], logs[k + 1:]
        if first != again:
            deviations.append((path, again, first))
            chk.replay_files.append(path)
        else:
            os.remove(path)
    # a matching item stays buffered whatever passes through between it and run-Finished (run-Started - which the real runner
    # may emit AFTER the parser's errors -, ParsingFinished, brackets, a parser error under `skipped`)
    for wrapper, first in (('repeat_skipped', 'ev bg 0 skipped r=-'), ('repeat_failed', 'ev parse_error')):
        for mid in ('run_started', 'parsing_finished', 'feature_started', 'feature_finished', 'parse_error' if wrapper == 'repeat_skipped' else 'feature_started'):
            path = os.path.join(d, '%s-repeat-kept-across-%s-%s.script' % (prop, wrapper, mid))
            lines = ['mode events', 'wrapper %s' % wrapper, 'bg 1', 'own 1', first, 'ev %s' % mid, 'ev run_finished']
            res, out = replay.run_script('\n'.join(lines) + '\n', path)
            chk.replays += 1
            if res is not None and res.get('inner_events') != 4:
                deviations.append((path, res.get('inner_events'), 4))
                chk.replay_files.append(path)
            elif res is not None:
                os.remove(path)
    # a custom filter selecting everything: the run-level events (run-Finished itself) are re-emitted too
    for n in (0, 1):
        path = os.path.join(d, '%s-repeat-all-%d.script' % (prop, n))
        lines = ['mode events', 'wrapper repeat_all', 'bg 3', 'own 1', 'ev run_started'] + ['ev bg %d passed r=-' % i for i in range(n)] + ['ev run_finished']
        fed = n + 2
        res, out = replay.run_script('\n'.join(lines) + '\n', path)
        chk.replays += 1
        if res is not None and res.get('inner_events') != 2 * fed:
            deviations.append((path, res.get('inner_events'), 2 * fed))
            chk.replay_files.append(path)
        elif res is not None:
            os.remove(path)
    for o in bad:
        if deviations:
            o.replay = deviations[0][0]
            o.detail += ' | reproduced natively: real Repeat::skipped delivered %s items, specification %s (%s)' % (deviations[0][1], deviations[0][2], deviations[0][0])
        else:
            o.verdict = 'inconclusive'
            o.detail += ' | native replays follow the specification - encoder and real code disagree'
