"""C17 - step matching is keyword-scoped, exact about ambiguity, and order independent.

Kernel: the real step::Collection::find (+ closures).  The regex engine is an oracle table: for definition i and
the step text, `matched_i` is a symbolic Boolean, the number of groups and their names are fixed per definition,
participation of each group is a symbolic Boolean, spans are symbolic.  The three keyword maps are association maps
whose iteration order is a symbolic permutation (every order explored).
"""
import itertools

import z3

from checks import common
from checks.common import Obligation
from mirsmt.values import Cell, Lazy, Adt, Ref, Obj, UNIT, bv, conc
from mirsmt.interp import Inconclusive, PathEnd


DEFS_A = [dict(groups=0, names=[None]), dict(groups=1, names=[None, 'n']), dict(groups=2, names=[None, None, 'x'])]
# definitions 0 and 2 have the same group structure: their regex TEXTS may be identical (a symbolic Boolean) while their
# locations differ - the same step definition written in two places
DEFS_B = [dict(groups=0, names=[None]), dict(groups=1, names=[None, 'n']), dict(groups=0, names=[None])]
# hand-registered definitions (no Location) with three different regex texts: nothing but the regex text orders them
DEFS_C = [dict(groups=0, names=[None], noloc=True), dict(groups=1, names=[None, 'n'], noloc=True), dict(groups=0, names=[None], noloc=True)]
# the SAME (keyword, regex, location) triple registered twice (definitions 0 and 2: no Location, texts may be identical): a
# collection is a set of definitions - when the texts are identical there is ONE definition, not an ambiguity
DEFS_D = [dict(groups=0, names=[None], noloc=True, same_def=True), dict(groups=1, names=[None, 'n']), dict(groups=0, names=[None], noloc=True, same_def=True)]
DEFS = DEFS_A


@common.part
def obligations(chk, prop='C17'):
    prog = chk.prog
    t = prog.tables
    find = [b for (st, m), lst in prog.by_method.items() if st == 'Collection' and m == 'find' for tr, b in lst]
    if len(find) != 1:
        raise Inconclusive('step::Collection::find: %d candidates' % len(find))
    find = find[0]
    CF = t.struct_fields('step::Collection<W>')
    SF = t.struct_fields('gherkin::Step')
    CX = t.struct_fields('step::Context')
    stype = {v[0]: i for i, v in enumerate(t.enum_variants('gherkin::StepType'))}
    if not isinstance(CF, list) or set(CF) != {'given', 'when', 'then'}:
        raise Inconclusive('Collection fields %r' % (CF,))
    kw_of = {'given': 'Given', 'when': 'When', 'then': 'Then'}
    layouts = [('given', 'given', 'given'), ('given', 'when', 'given'), ('then', 'then', 'given'), ('when', 'when', 'when')]
    if chk.tier == 'thorough':
        layouts = list(itertools.product(('given', 'when', 'then'), repeat=3))
    obs = {}
    bound = 'every path of Collection::find; 3 definitions (0, 1, 2 capture groups) placed on keywords in %d layouts; step keyword symbolic; match verdict and group participation symbolic; every iteration order of the keyword maps' % len(layouts)

    def ob(name):
        if name not in obs:
            obs[name] = chk.add(Obligation('%s.%s' % (prop, 'find.' + name if prop != 'C17' else name), bound))
            obs[name].verdict = 'holds'
        return obs[name]
    npaths = [0]
    reg_body = {}
    for k in ('given', 'when', 'then'):
        c = [b for (st, m), lst in prog.by_method.items() if st == 'Collection' and m == k for tr, b in lst]
        if len(c) != 1:
            raise Inconclusive('step::Collection::%s: %d candidates' % (k, len(c)))
        reg_body[k] = c[0]
    cb = [b for (st, m), lst in prog.by_method.items() if st == 'Collection' and m == 'clone' for tr, b in lst if tr == 'Clone']
    clone_body = cb[0] if len(cb) == 1 else None
    global DEFS
    runs = [(l, DEFS_A) for l in layouts] + [(l, DEFS_B) for l in (('given', 'when', 'given'), ('given', 'given', 'given'), ('then', 'when', 'then'))]
    runs += [(l, DEFS_D) for l in (('given', 'when', 'given'), ('then', 'then', 'then'))]
    runs += [(l, DEFS_C) for l in (('given', 'given', 'when'), ('then', 'when', 'then'))]       # two candidates at most: the anchors and the comparison of stripped texts are free per pair
    cmp_body = common.find_method(prog, 'HashableRegex', 'cmp', 'Ord')
    new_body = common.find_method(prog, 'Collection', 'new')
    for layout, DEFS in runs:
        same_text = z3.Bool('same-regex-text(0,2)') if DEFS in (DEFS_B, DEFS_D) else z3.BoolVal(False)
        ex, M = chk.new_exec(loop_bound=16, max_paths=6000)
        matched = [z3.Bool('matched%d' % i) for i in range(3)]
        part = {(i, g): z3.Bool('participates(%d,%d)' % (i, g)) for i in range(3) for g in range(1, DEFS[i]['groups'] + 1)}
        kwd = z3.BitVec('step.ty', 64)

        def def_of(ex_, v):
            """which definition does this regex / capture object belong to"""
            v = ex_.materialize(v)
            for _ in range(6):
                if isinstance(v, Ref):
                    v = ex_.materialize(ex_.read_path(v.cell, v.path))
                elif isinstance(v, Adt) and (None, 0) in v.fields and not (isinstance(v, Obj)):
                    v = ex_.materialize(v.fields[(None, 0)])
                else:
                    break
            if isinstance(v, Obj) and 'd' in v.d:
                return v.d['d']
            raise Inconclusive('regex oracle: cannot identify %r' % (v,))

        def reg(*keys):
            def deco(f):
                for key in keys:
                    M.table[key] = f
                return f
            return deco

        @reg('Regex::capture_locations')
        def _(ex_, info, a, dty):
            return Obj('caplocs', d=def_of(ex_, a[0]))

        @reg('Regex::capture_names')
        def _(ex_, info, a, dty):
            i = def_of(ex_, a[0])
            items = []
            for nm in DEFS[i]['names']:
                items.append(Adt('Option<&str>', {(1, 0): Obj('str', text='"%s"' % nm)} if nm else {}, 1 if nm else 0))
            return Obj('iter', items=tuple(items), ty=dty, d=i)

        prev_new = M.table.get('Regex::new')

        @reg('Regex::new')
        def _(ex_, info, a, dty):
            # a regex compiled again from the TEXT of a registered one is another regex: it matches what that text matches
            # with default options - not necessarily what the registered regex (built with its own options) matches
            p_ = pattern_of(ex_, a[0])
            if p_ is not None and not (p_.d['lead'] or p_.d['trail']):
                return Adt(dty or 'Result<Regex, regex::Error>', {(0, 0): Obj('regex', d=p_.d['d'], recompiled=True)}, 0)
            if prev_new is not None:
                return prev_new(ex_, info, a, dty)
            raise Inconclusive('Regex::new(%r)' % (a[0],))

        def is_recompiled(ex_, v):
            v = ex_.materialize(v)
            for _ in range(6):
                if isinstance(v, Ref):
                    v = ex_.materialize(ex_.read_path(v.cell, v.path))
                elif isinstance(v, Adt) and (None, 0) in v.fields:
                    v = ex_.materialize(v.fields[(None, 0)])
                else:
                    break
            return isinstance(v, Obj) and bool(v.d.get('recompiled'))

        @reg('Regex::captures_read')
        def _(ex_, info, a, dty):
            i = def_of(ex_, a[0])
            if is_recompiled(ex_, a[0]):
                # the verdict of ANOTHER regex: free, and the registered definition was not asked
                M.log(ex_, 'recompiled_regex_tried', d=i)
                return Adt(dty or 'Option<Match>', {(1, 0): Obj('match', d=i)}, z3.If(z3.Bool('text-of-regex(%d)-recompiled-with-default-options-matches' % i), bv(1), bv(0)))
            M.log(ex_, 'regex_tried', d=i)
            return Adt(dty or 'Option<Match>', {(1, 0): Obj('match', d=i)}, z3.If(matched[i], bv(1), bv(0)))

        @reg('CaptureLocations::len')
        def _(ex_, info, a, dty):
            return bv(DEFS[def_of(ex_, a[0])]['groups'] + 1)

        @reg('CaptureLocations::get')
        def _(ex_, info, a, dty):
            i = def_of(ex_, a[0])
            g = conc(z3.simplify(a[1]))
            if g is None or not (1 <= g <= DEFS[i]['groups']):
                raise Inconclusive('CaptureLocations::get(%r)' % (a[1],))
            span = Adt('(usize, usize)', {(None, 0): Obj('span', d=i, g=g, end=False), (None, 1): Obj('span', d=i, g=g, end=True)})
            return Adt(dty, {(1, 0): span}, z3.If(part[(i, g)], bv(1), bv(0)))

        @reg('Match::as_str')
        def _(ex_, info, a, dty):
            return Obj('symstr', name='whole(%d)' % def_of(ex_, a[0]))

        @reg('ToOwned::to_owned', 'str::to_owned', '<impl>::to_owned')
        def _(ex_, info, a, dty):
            v = ex_.materialize(a[0])
            return ex_.read_path(v.cell, v.path) if isinstance(v, Ref) else v

        @reg('Index::index')
        def _(ex_, info, a, dty):
            r = ex_.materialize(a[1])
            s = ex_.materialize(ex_.field_of(r, None, 0, 'usize'))
            if isinstance(s, Obj) and s.kind == 'span':
                # capture offsets are offsets into the STEP TEXT: slicing that text gives the group; slicing another string
                # with them gives the group only if that string starts where the step text starts (match at offset 0)
                base = M.str_of(ex_, a[0]) if hasattr(M, 'str_of') else ex_.materialize(a[0])
                bname = base.name if isinstance(base, Obj) and base.kind == 'symstr' else repr(base)
                if bname == 'step.value':
                    return Obj('symstr', name='group(%d,%d)' % (s.d['d'], s.d['g']))
                if bname == 'whole(%d)' % s.d['d'] and ex_.branch(z3.Bool('match(%d)-starts-at-offset-0' % s.d['d'])):
                    return Obj('symstr', name='group(%d,%d)' % (s.d['d'], s.d['g']))
                return Obj('symstr', name='slice-of-%s-by-offsets-of-group(%d,%d)' % (bname, s.d['d'], s.d['g']))
            raise Inconclusive('string index by %r' % (r,))

        @reg('Regex::as_str')
        def _(ex_, info, a, dty):
            return Obj('pattern', d=def_of(ex_, a[0]), lead=False, trail=False)

        def pattern_of(ex_, v):
            v = ex_.materialize(v)
            for _ in range(4):
                if isinstance(v, Ref):
                    v = ex_.materialize(ex_.read_path(v.cell, v.path))
            return v if isinstance(v, Obj) and v.kind == 'pattern' else None

        @reg('<impl>::strip_prefix', '<impl>::strip_suffix')
        def _(ex_, info, a, dty):
            # stripping an anchor off a regex text: whether the text has it is a free Boolean per definition
            p_ = pattern_of(ex_, a[0])
            ch = ex_.materialize(a[1])
            anchor = {'strip_prefix': '^', 'strip_suffix': '$'}[info['method']]
            is_anchor = (isinstance(ch, Obj) and ch.kind == 'char' and ch.text == "'%s'" % anchor) or (
                z3.is_expr(ch) and z3.is_bv_value(z3.simplify(ch)) and z3.simplify(ch).as_long() == ord(anchor))       # a char constant
            if p_ is None or not is_anchor:
                raise Inconclusive('%s(%r, %r)' % (info['method'], p_, ch))
            which = 'lead' if info['method'] == 'strip_prefix' else 'trail'
            if p_.d[which] or not ex_.branch(z3.Bool('regex-text(%d)-%s' % (p_.d['d'], 'starts-with-^' if which == 'lead' else 'ends-with-$'))):
                return M.none(dty)
            return M.some(dty, p_.set(**{which: True}))

        prev_cmp = M.table.get('Ord::cmp')

        def ordering(k):
            return Adt('std::cmp::Ordering', {}, k)          # Less 0 / Equal 1 / Greater 2

        @reg('Ord::cmp')
        def _(ex_, info, a, dty, same_text=same_text):
            x, y = pattern_of(ex_, a[0]), pattern_of(ex_, a[1])
            if x is None or y is None:
                if prev_cmp is not None:
                    return prev_cmp(ex_, info, a, dty)
                raise Inconclusive('Ord::cmp on %r' % (a[0],))
            kx, ky = (x.d['d'], x.d['lead'], x.d['trail']), (y.d['d'], y.d['lead'], y.d['trail'])
            if kx == ky:
                return ordering(1)
            if not (x.d['lead'] or x.d['trail'] or y.d['lead'] or y.d['trail']):
                # whole regex texts: r0 < r1 < r2, except that r0 and r2 may be the same text (DEFS_B)
                if {kx[0], ky[0]} == {0, 2} and ex_.branch(same_text):
                    return ordering(1)
                return ordering(0 if kx[0] < ky[0] else 2)
            # texts with an anchor stripped: how they compare is free (consistently per unordered pair on a path)
            memo = ex_.env.setdefault('pattern_cmp', {})
            lo, hi = sorted((kx, ky))
            if (lo, hi) not in memo:
                memo[(lo, hi)] = 1 if ex_.branch(z3.Bool('stripped-texts-equal%s%s' % (lo, hi))) else (0 if ex_.branch(z3.Bool('stripped-text-less%s%s' % (lo, hi))) else 2)
            r_ = memo[(lo, hi)]
            return ordering(r_ if (kx, ky) == (lo, hi) else 2 - r_)

        @reg('Itertools::sorted')
        def _(ex_, info, a, dty, same_text=same_text):
            items = M.seq_of(ex_, a[0])
            # a stable sort keeps candidates that compare Equal in the order they came out of the hash map: two candidates
            # with different regex texts and the same location must therefore never compare Equal (real `Ord for HashableRegex`)
            def loc_id(it):
                l_ = ex_.materialize(ex_.field_of(ex_.materialize(it), None, 1, 'Option<step::Location>'))
                if z3.simplify(M.discr(ex_, l_)).as_long() == 0:
                    return None
                return def_of(ex_, ex_.field_of(l_, 1, 0, 'step::Location'))
            for x_, y_ in itertools.combinations(items, 2):
                kx_, ky_ = (ex_.field_of(ex_.materialize(v_), None, 0, 'HashableRegex') for v_ in (x_, y_))
                dx_, dy_ = def_of(ex_, kx_), def_of(ex_, ky_)
                if dx_ == dy_ or loc_id(x_) != loc_id(y_):
                    continue
                r_ = ex_.materialize(ex_.call_body(cmp_body, [Ref(Cell(ex_.materialize(kx_)), ()), Ref(Cell(ex_.materialize(ky_)), ())]))
                if z3.simplify(M.discr(ex_, r_)).as_long() == 1 and not ({dx_, dy_} == {0, 2} and not ex_.check(z3.Not(same_text))):
                    M.log(ex_, 'sort_tie', a=dx_, b=dy_)
            # definitions are created with regex texts r0 < r1 < r2, so (regex, location) order is the definition order
            return Obj('iter', items=tuple(sorted(items, key=lambda it: def_of(ex_, ex_.field_of(ex_.materialize(it), None, 0, 'HashableRegex')))), ty=dty)
        orig_map = M.table['Iterator::map']

        def map_range(ex_, info, a, dty):
            v = ex_.materialize(a[0])
            if isinstance(v, Adt) and 'Range' in v.ty:
                lo, hi = conc(z3.simplify(v.fields[(None, 0)])), conc(z3.simplify(v.fields[(None, 1)]))
                return Obj('iter', items=tuple(ex_.call_value(a[1], [bv(k)]) for k in range(lo, hi)), ty=dty)
            return orig_map(ex_, info, a, dty)
        M.table['Iterator::map'] = map_range

        def obj_eq(ex_, a, b, same_text=same_text):
            # key equality of the registration maps: regexes compare by TEXT (HashableRegex), locations by value
            if a.kind != b.kind:
                raise Inconclusive('comparison of %r and %r' % (a, b))
            if a.d['d'] == b.d['d']:
                return z3.BoolVal(True)
            if a.kind == 'regex' and {a.d['d'], b.d['d']} == {0, 2}:
                return same_text
            return z3.BoolVal(False)
        M.obj_eq = obj_eq
        M.key_order = lambda ex_, k: def_of(ex_, k)      # regex texts are ordered like the definition indices

        def run(ex_, layout=layout, M=M, same_text=same_text, DEFS=DEFS):
            ex_.add(z3.ULT(kwd, bv(3)))
            # identical regex texts match the same step texts
            ex_.add(z3.Implies(same_text, matched[0] == matched[2]))
            # the Collection is built through the real registration methods, in definition order (the maps iterate in
            # every order anyway): whatever key the maps use is the code's own
            # the empty collection is the code's own (`Collection::new()`): whatever containers it uses
            coll = ex_.materialize(ex_.call_body(new_body, []))
            for i, k in enumerate(layout):
                loc = Adt('Option<step::Location>', {(1, 0): Obj('loc', d=i)}, 0 if DEFS[i].get('noloc') else 1)
                coll = ex_.call_body(reg_body[k], [coll, loc, Obj('regex', d=i), Obj('stepfn', d=i)])
            # a clone of a configured collection (runner::Basic::clone / Cucumber::clone copy it) matches exactly like the original
            if clone_body is not None and ex_.branch(z3.Bool('use-a-clone-of-the-collection')):
                coll = ex_.call_body(clone_body, [Ref(Cell(coll, name='original collection'), ())])
            step = Adt('gherkin::Step', {(None, SF.index('ty')): Adt('gherkin::StepType', {}, kwd), (None, SF.index('value')): Obj('symstr', name='step.value')}, None, 'step')
            out = ex_.call_body(find, [Ref(Cell(coll, name='collection'), ()), Ref(Cell(step, name='step'), ())])
            return {'out': ex_.materialize(out), 'tried': [e['d'] for e in ex_.env.get('log', []) if e['kind'] == 'regex_tried'],
                    'ties': [(e['a'], e['b']) for e in ex_.env.get('log', []) if e['kind'] == 'sort_tie']}

        def on_end(ex_, rec, layout=layout, M=M, DEFS=DEFS, same_text=same_text):
            kind, res, pc, dec = rec
            npaths[0] += 1
            if kind != 'ok':
                o = ob('completes')
                o.verdict = 'inconclusive' if kind in ('loopbound', 'unreachable') else 'violated'
                o.detail = '%s: %s' % (kind, res)
                return
            out = res['out']
            # the path fixes the keyword and the relevant match verdicts
            kws = [k for k in range(3) if ex_.check(kwd == bv(k))]
            if len(kws) != 1:
                ob('path-decides').verdict = 'inconclusive'
                return
            kwname = [n for n, v in stype.items() if v == kws[0]][0]
            mine = [i for i, k in enumerate(layout) if kw_of[k] == kwname]
            o = ob('only-definitions-of-the-steps-keyword-are-consulted')
            o.paths += 1
            if set(res['tried']) - set(mine):
                o.verdict = 'violated'
                o.detail = 'keyword %s: regexes of definitions %s were tried (layout %s)' % (kwname, sorted(set(res['tried'])), layout)
                o.model = {'layout': list(layout), 'keyword': kwname, 'tried': sorted(set(res['tried']))}
            cands = []
            for i in mine:
                t_, f_ = ex_.check(matched[i]), ex_.check(z3.Not(matched[i]))
                if t_ and f_:
                    o2 = ob('all-candidates-considered')
                    o2.verdict = 'violated'
                    o2.detail = 'definition %d of keyword %s was never tried, its verdict is undecided on this path (layout %s)' % (i, kwname, layout)
                    o2.model = {'layout': list(layout), 'keyword': kwname, 'untried': i}
                    return
                if t_:
                    cands.append(i)
            # definitions 0 and 2 registered as the very same triple: one definition
            one_def = bool(DEFS[0].get('same_def')) and 0 in cands and 2 in cands and not ex_.check(z3.Not(same_text))
            alts = cands[:1]
            if one_def:
                cands = [c_ for c_ in cands if c_ != 0]
                alts = [0, 2] if cands == [2] else [cands[0]]
            d = z3.simplify(M.discr(ex_, out)).as_long()
            model = {'layout': list(layout), 'keyword': kwname, 'matching_definitions': cands, 'same_triple_registered_twice': one_def}
            if len(cands) == 0:
                o3 = ob('no-match=>not-found')
                o3.paths += 1
                okk = d == 0 and z3.simplify(M.discr(ex_, ex_.field_of(out, 0, 0, 'Option'))).as_long() == 0
                if not okk:
                    o3.verdict, o3.detail, o3.model = 'violated', 'no definition matches but the result is not Ok(None)', model
            elif len(cands) >= 2:
                o4 = ob('several-matches=>ambiguity-error-listing-all-candidates-sorted')
                o4.paths += 1
                okk = d == 1
                listed = None
                if okk:
                    err = ex_.materialize(ex_.field_of(out, 1, 0, 'AmbiguousMatchError'))
                    pm = ex_.materialize(ex_.field_of(err, None, 0, 'Vec'))
                    listed = [def_of(ex_, ex_.field_of(ex_.materialize(x), None, 0, 'HashableRegex')) for x in pm.items]
                    if one_def:
                        listed = [2 if x_ == 0 else x_ for x_ in listed]       # the one definition, under either of its registrations
                    # (when definition 2 is definition 0 registered again its text is r0: it sorts before r1)
                    okk = listed == sorted(cands, key=lambda x_: 0 if (one_def and x_ == 2) else x_)
                if not okk:
                    o4.verdict, o4.detail = 'violated', 'definitions %s match, the error lists %s' % (cands, listed)
                    o4.model = dict(model, listed=listed)
                elif res.get('ties') and o4.verdict != 'violated':
                    o4.verdict = 'violated'
                    o4.detail = 'candidates %s have different regex texts and the same location but compare Equal: a stable sort leaves them in the hash map\'s iteration order, the listing is not deterministic' % (list(res['ties'][0]),)
                    o4.model = dict(model, ties=[list(t_) for t_ in res['ties']])
            else:
                i = cands[0]
                o5 = ob('one-match=>that-definition-with-whole-match-and-all-groups-in-order')
                o5.paths += 1
                okk = d == 0 and z3.simplify(M.discr(ex_, ex_.field_of(out, 0, 0, 'Option'))).as_long() == 1
                why = 'result is not Ok(Some(..))'
                if okk:
                    tup = ex_.materialize(ex_.field_of(ex_.materialize(ex_.field_of(out, 0, 0, 'Option')), 1, 0, 'tuple'))
                    fn = ex_.materialize(ex_.field_of(tup, None, 0, '&Step'))
                    fn = ex_.read_path(fn.cell, fn.path) if isinstance(fn, Ref) else fn
                    ctx = ex_.materialize(ex_.field_of(tup, None, 3, 'step::Context'))
                    ms = ex_.materialize(ex_.field_of(ctx, None, CX.index('matches'), 'Vec'))
                    got = []
                    for it in ms.items:
                        it = ex_.materialize(it)
                        nm = ex_.materialize(ex_.field_of(it, None, 0, 'Option<String>'))
                        val = ex_.materialize(ex_.field_of(it, None, 1, 'String'))
                        nmv = None
                        if z3.simplify(M.discr(ex_, nm)).as_long() == 1:
                            nmo = ex_.field_of(nm, 1, 0, 'String')
                            nmv = nmo.text.strip('"') if isinstance(nmo, Obj) and nmo.kind == 'str' else repr(nmo)
                        got.append((nmv, val.name if isinstance(val, Obj) and val.kind == 'symstr' else (val.text if isinstance(val, Obj) else repr(val))))
                    undecided = False
                    wants = []
                    for j in alts:
                        want = [(DEFS[j]['names'][0], 'whole(%d)' % j)]
                        for g in range(1, DEFS[j]['groups'] + 1):
                            p_t, p_f = ex_.check(part[(j, g)]), ex_.check(z3.Not(part[(j, g)]))
                            if p_t and p_f:
                                undecided = True
                            want.append((DEFS[j]['names'][g], 'group(%d,%d)' % (j, g) if p_t else '""'))
                        wants.append(want)
                    want = wants[0]
                    okk = (isinstance(fn, Obj) and fn.d.get('d') in alts) and got in wants and not undecided
                    why = 'chosen fn %r, matches %s, expected %s' % (fn, got, want)
                    same_step = ex_.field_of(ctx, None, CX.index('step'), 'gherkin::Step')
                if not okk:
                    o5.verdict, o5.detail, o5.model = 'violated', why, model
        ex.explore(run, on_end)
    bad = [o for o in obs.values() if o.verdict == 'violated']
    if bad:
        confirm(chk, bad)
    w = chk.add(Obligation('%s.%switness' % (prop, 'find.' if prop != 'C17' else ''), 'exploration'))
    w.kind = 'witness'
    need = {'no-match=>not-found', 'several-matches=>ambiguity-error-listing-all-candidates-sorted', 'one-match=>that-definition-with-whole-match-and-all-groups-in-order'}
    w.verdict = 'witness-ok' if need <= set(obs) and npaths[0] >= 100 else 'witness-missing'
    w.detail = '%d paths' % npaths[0]
    DEFS = DEFS_A
    chk.assumptions += ['the regex engine is an oracle (match verdict, group participation and spans symbolic; group count / names fixed per definition); multi-byte text is outside the claim',
                        'definitions carry regex texts r0 < r1 < r2, so sorting by (regex, location) is sorting by definition index']


def confirm(chk, bad):
    """Native differential replay of the public Collection::find (driver mode `find`) against Python's `re`."""
    import os
    import re
    from checks import replay
    d = os.path.join(common.EVID, 'replay')
    os.makedirs(d, exist_ok=True)
    path = os.path.join(d, '%s-find.script' % chk.prop)
    res, out = replay.run_script('mode find\n', path, timeout=300)
    chk.replays += 1
    devs, n = [], 0
    for ln in out.splitlines():
        if not ln.startswith('CASE '):
            continue
        n += 1
        kv = dict(x.split('=', 1) for x in ln.split(' ')[1:] if '=' in x)
        defs = [x.split(':', 1) for x in kv['defs'].split('~~') if x]
        text = kv['text'].replace('_', ' ').strip()     # gherkin trims step texts
        kw = kv['kw']
        cands = sorted(rx for k, rx in defs if k == kw and re.search(rx.replace('_', ' '), text))
        if not cands:
            want = 'none'
        elif len(cands) > 1:
            want = 'ambiguous:' + ','.join(cands)
        else:
            m = re.search(cands[0].replace('_', ' '), text)
            rx = re.compile(cands[0].replace('_', ' '))
            names = {v: k for k, v in rx.groupindex.items()}
            parts = [('-', m.group(0))] + [(names.get(g, '-'), m.group(g) or '') for g in range(1, rx.groups + 1)]
            want = 'one:%s:%s' % (cands[0], ';'.join('%s=%s' % (a, b.replace(' ', '_')) for a, b in parts))
        if kv['result'] != want:
            devs.append('%s | reference %s' % (ln, want))
    # look-alike hand-registered definitions on 64 fresh collections each: one listing per pair, whatever the hash seeds
    for ln in out.splitlines():
        m_ = re.match(r'TIE pair=(\d+) distinct=(\d+) listings=(.*)$', ln)
        if m_:
            n += 1
            if m_.group(2) != '1':
                devs.append('the same two ambiguous definitions are listed in %s different orders over 64 fresh collections: %s' % (m_.group(2), m_.group(3).replace('_', ' ')))
    # the same (keyword, regex, location) registered twice is one definition: a step only it matches is not ambiguous
    for ln in out.splitlines():
        m_ = re.match(r'DUPCASE (\S+) result=(\S+)', ln)
        if m_:
            n += 1
            if not m_.group(2).startswith('one:'):
                devs.append('the same (keyword, regex, location) registered twice (%s) and matched by nothing else: %s (one definition expected)' % (m_.group(1), m_.group(2)))
    # regexes built with non-default options (RegexBuilder) match as built
    for ln in out.splitlines():
        m_ = re.match(r'BUILDERCASE (\S+) ok=(\w+) result=(\S*)', ln)
        if m_:
            n += 1
            if m_.group(2) != 'true':
                devs.append('a definition registered with a %s regex (RegexBuilder) gives %s for a step only it matches' % (m_.group(1), m_.group(3)))
    for o in bad:
        if res is None or n == 0:
            o.verdict = 'inconclusive'
            o.detail += ' | native replay failed: %s' % out[-300:]
        elif devs:
            o.replay = path
            if path not in chk.replay_files:
                chk.replay_files.append(path)
            o.detail += ' | reproduced natively with the public Collection::find (%d cases, %d deviate from the reference), e.g. %s' % (n, len(devs), devs[0][:300])
        else:
            o.verdict = 'inconclusive'
            o.detail += ' | native differential replay (%d cases) follows the reference - counterexample not reproduced' % n


def body(chk):
    obligations(chk, 'C17')
    # the runner side of "a step is matched only against definitions of its own keyword type": run_step asks the collection
    # about every step as itself (two scenarios whose steps have the same text)
    from checks import attempt_driver
    attempt_driver.run_pair(chk, 'C17')


if __name__ == '__main__':
    common.main('C17', body)
