"""Symbolic harness for the real `Summarize::handle_scenario` / `handle_step` kernels (C01, C12).

The pre-state, the scenario key and the event are built with explicit, named z3
constants; every index (struct field, enum variant) is looked up by NAME in the
tables extracted from /repo's sources on this run.
"""
import re

import z3

from mirsmt.values import Cell, Lazy, Adt, Ref, bv
from mirsmt.interp import Inconclusive, PathEnd

BV = z3.BitVecSort(64)
COUNTERS = ['features', 'rules', 'sc_passed', 'sc_skipped', 'sc_failed', 'sc_retried',
            'st_passed', 'st_skipped', 'st_failed', 'st_retried', 'parsing_errors', 'failed_hooks']

IND_TY = 'writer::summarize::Indicator'


class Idx:
    """Name -> index lookups from the source tables (fail => inconclusive)."""

    def __init__(self, prog):
        t = prog.tables
        self.t = t

        def sf(ty, name):
            fl = t.struct_fields(ty)
            if not isinstance(fl, list) or name not in fl:
                raise Inconclusive('struct %s has no field %s' % (ty, name))
            return fl.index(name)

        def ev(ty, name):
            vs = t.enum_variants(ty)
            if vs is None:
                raise Inconclusive('enum %s not found' % ty)
            for i, x in enumerate(vs):
                if x[0] == name:
                    return i
            raise Inconclusive('enum %s has no variant %s' % (ty, name))

        self.sf, self.ev = sf, ev
        S = 'writer::summarize::Summarize<W>'
        self.S = {n: sf(S, n) for n in ('writer', 'features', 'rules', 'scenarios', 'steps', 'parsing_errors',
                                          'failed_hooks', 'state', 'handled_scenarios')}
        self.Stats = {n: sf('summarize::Stats', n) for n in ('passed', 'skipped', 'failed', 'retried')}
        self.Ind = {n: ev(IND_TY, n) for n in ('Failed', 'Skipped', 'Retried')}
        self.Sc = {n: ev('event::Scenario<W>', n) for n in ('Started', 'Hook', 'Background', 'Step', 'Log', 'Finished')}
        self.Hook = {n: ev('event::Hook<W>', n) for n in ('Started', 'Passed', 'Failed')}
        self.Step = {n: ev('event::Step<W>', n) for n in ('Started', 'Skipped', 'Passed', 'Failed')}
        self.Err = {n: ev('event::StepError', n) for n in ('NotFound', 'AmbiguousMatch', 'Panic')}
        self.RS = {n: sf('event::RetryableScenario<W>', n) for n in ('event', 'retries')}
        self.Ret = {n: sf('event::Retries', n) for n in ('current', 'left')}
        # whatever states the summariser has: only `InProgress` is known by name (the others are told apart by what the
        # code does from them, see summ_event)
        svs = prog.tables.enum_variants('writer::summarize::State') or []
        self.State = {v[0]: i for i, v in enumerate(svs)}
        if 'InProgress' not in self.State:
            raise Inconclusive('writer::summarize::State has no variant InProgress')


class SymState:
    """Named z3 constants for the summariser's counters and the map slot of ONE key."""

    def __init__(self, tag):
        self.tag = tag
        self.c = {n: z3.BitVec('%s.%s' % (tag, n), 64) for n in COUNTERS}

    def vars(self):
        return [self.c[n] for n in COUNTERS]


class SymEvent:
    """A fully symbolic `RetryableScenario` event with named discriminants."""

    def __init__(self, tag):
        self.sc = z3.BitVec('%s.sc' % tag, 64)          # Scenario variant
        self.hook = z3.BitVec('%s.hook' % tag, 64)      # Hook variant (if sc == Hook)
        self.step = z3.BitVec('%s.step' % tag, 64)      # Step variant (if sc in Background, Step)
        self.err = z3.BitVec('%s.err' % tag, 64)        # StepError variant (if step == Failed)
        self.ret = z3.BitVec('%s.ret' % tag, 64)        # Option<Retries> discriminant
        self.cur = z3.BitVec('%s.cur' % tag, 64)
        self.left = z3.BitVec('%s.left' % tag, 64)
        self.has_last = z3.Bool('%s.has_last' % tag)     # scenario.steps.last().is_some()
        self.eq_last = z3.Bool('%s.eq_last' % tag)       # *last == step (the whole gherkin::Step, position included)
        # a step may LOOK like the last own step without being it (same keyword type and same text at another position)
        self.same_ty = z3.Bool('%s.same_ty_as_last' % tag)
        self.same_text = z3.Bool('%s.same_text_as_last' % tag)
        self.tag = tag

    def vars(self):
        return [self.sc, self.hook, self.step, self.err, self.ret, self.cur, self.left, self.has_last, self.eq_last, self.same_ty, self.same_text]

    def well_formed(self, ix):
        return z3.And(z3.ULT(self.sc, bv(len(ix.Sc))), z3.ULT(self.hook, bv(len(ix.Hook))),
                      z3.ULT(self.step, bv(len(ix.Step))), z3.ULT(self.err, bv(len(ix.Err))), z3.ULT(self.ret, bv(2)),
                      z3.Implies(self.eq_last, z3.And(self.same_ty, self.same_text)))

    def build(self, ix):
        t_step = 'event::Step<W>'
        errv = Adt('event::StepError', {}, self.err, 'ev.err')
        stepv = Adt(t_step, {(ix.Step['Failed'], 3): errv}, self.step, 'ev.step')
        hookv = Adt('event::Hook<W>', {}, self.hook, 'ev.hook')
        scv = Adt('event::Scenario<W>', {
            (ix.Sc['Hook'], 1): hookv,
            (ix.Sc['Background'], 1): stepv,
            (ix.Sc['Step'], 1): stepv,
        }, self.sc, 'ev.sc')
        retv = Adt('std::option::Option<event::Retries>', {
            (1, 0): Adt('event::Retries', {(None, ix.Ret['current']): self.cur, (None, ix.Ret['left']): self.left})
        }, self.ret, None)
        return Adt('event::RetryableScenario<W>', {(None, ix.RS['event']): scv, (None, ix.RS['retries']): retv})

    # ---- predicates used by specs
    def is_step_ev(self, ix):
        return z3.Or(self.sc == bv(ix.Sc['Step']), self.sc == bv(ix.Sc['Background']))

    def step_is(self, ix, name):
        return z3.And(self.is_step_ev(ix), self.step == bv(ix.Step[name]))

    def hook_failed(self, ix):
        return z3.And(self.sc == bv(ix.Sc['Hook']), self.hook == bv(ix.Hook['Failed']))

    def retry_left(self):
        return z3.And(self.ret == bv(1), z3.UGT(self.left, bv(0)))

    def finished(self, ix):
        return self.sc == bv(ix.Sc['Finished'])


def key_values(kf, kr_d, kr, ks, sfx=''):
    def src(ty, inner, pid, nm):
        return Adt('event::Source<%s>' % inner, {(None, 0): Ref(Cell(Lazy(inner, nm), name=nm), (), pid=pid)})
    f = src('f', 'gherkin::Feature', kf, 'feat' + sfx)
    s = src('s', 'gherkin::Scenario', ks, 'scn' + sfx)
    r = Adt('std::option::Option<event::Source<gherkin::Rule>>', {(1, 0): src('r', 'gherkin::Rule', kr, 'rule' + sfx)}, kr_d, None)
    return f, r, s


def indicator_key_type(prog, body):
    """The key type of the indicator map, as the compiler spells it in the kernels' MIR (type aliases resolved)."""
    found = set()
    bodies = [body] + [b for n, b in prog.bodies.items() if n.endswith('>::handle_step')]
    for b in bodies:
        for ty in b.locals.values():
            mm = re.search(r'HashMap<(.*), (?:writer::summarize::)?Indicator>$', ty.strip())
            if mm:
                found.add(mm.group(1))
    if len(found) != 1:
        raise Inconclusive('key type of the indicator map not found in handle_scenario / handle_step (candidates: %s)' % sorted(found))
    return found.pop()


def role_of(ty):
    """Which part of a scenario's identity a parameter / key component of this type stands for."""
    t = re.sub(r"'\w+\s*", '', ty).replace(' ', '')
    refd = t.startswith('&')
    t = t.lstrip('&').replace('mut', '', 1) if t.startswith('&mut') else t.lstrip('&')
    table = (('Source<gherkin::Feature>', 'f'), ('Option<event::Source<gherkin::Rule>>', 'r'), ('Option<Source<gherkin::Rule>>', 'r'),
             ('Source<gherkin::Scenario>', 's'), ('gherkin::Feature', 'f*'), ('gherkin::Rule', 'r*'), ('gherkin::Scenario', 's*'))
    for pat, role in table:
        if t.endswith(pat) and (t == pat or t[:-len(pat)].endswith('::') or t[:-len(pat)] in ('event::', 'std::option::')):
            return role, refd
    if 'RetryableScenario<' in t:
        return 'ev', refd
    return None, refd


class Harness:
    """Runs the real handle_scenario on (SymState, key, SymEvent); returns post terms per path."""

    def __init__(self, chk, loop_bound=4):
        self.chk = chk
        self.ix = Idx(chk.prog)
        self.ex, self.M = chk.new_exec(loop_bound=loop_bound)
        self.body = chk.prog.find('>::handle_scenario')
        if 'Summarize' not in self.body.params[0][1]:
            raise Inconclusive('handle_scenario is not Summarize\'s')
        self.key_ty = indicator_key_type(chk.prog, self.body)
        self.pre = SymState('S')
        self.ev = SymEvent('E')
        self.kf, self.kr, self.ks = z3.BitVecs('K.f K.r K.s', 64)
        self.kr_d = z3.BitVec('K.r_d', 64)
        self.map0 = None
        ex, M, H = self.ex, self.M, self

        # `scenario.steps.last()` and `*s == step` on gherkin values are the two opaque oracles
        def last_model(ex_, info, a, dty):
            ev = H.ev
            cell = Cell(Lazy('gherkin::Step', 'last_step'))
            return Adt(dty, {(1, 0): Ref(cell, ())}, z3.If(ev.has_last, bv(1), bv(0)), None)

        def eq_model(ex_, info, a, dty):
            ev = H.ev
            st = re.sub(r"[&\s]|'\w+", '', info['self_ty'] or '')
            if st.endswith('StepType'):
                r = ev.same_ty
            elif st in ('String', 'std::string::String', 'str'):
                r = ev.same_text
            elif 'gherkin::Step' in st:
                r = ev.eq_last
            else:
                raise Inconclusive('unexpected PartialEq::eq on %s' % info['self_ty'])
            return r if info['method'] == 'eq' else z3.Not(r)
        M.table['<impl>::last'] = last_model
        M.table['PartialEq::eq'] = eq_model
        M.table['PartialEq::ne'] = eq_model

    def pre_state(self):
        ix, S = self.ix, self.pre
        m = self.M.new_symmap(self.ex, 'S.map', self.key_ty, IND_TY)
        self.map0 = m
        self.ex.env.setdefault('ranged', set())

        def stats(pfx):
            return Adt('writer::summarize::Stats', {(None, ix.Stats[n]): S.c['%s_%s' % (pfx, n)] for n in ix.Stats})
        fields = {
            (None, ix.S['features']): S.c['features'], (None, ix.S['rules']): S.c['rules'],
            (None, ix.S['scenarios']): stats('sc'), (None, ix.S['steps']): stats('st'),
            (None, ix.S['parsing_errors']): S.c['parsing_errors'], (None, ix.S['failed_hooks']): S.c['failed_hooks'],
            (None, ix.S['handled_scenarios']): m,
        }
        return Adt('writer::summarize::Summarize<W>', fields, None, 'S')

    def post_terms(self, sv):
        ix, ex = self.ix, self.ex
        out = {}

        def fld(v, i, ty='usize'):
            return ex.materialize(ex.field_of(v, None, i, ty), ty)
        out['features'] = fld(sv, ix.S['features'])
        out['rules'] = fld(sv, ix.S['rules'])
        out['parsing_errors'] = fld(sv, ix.S['parsing_errors'])
        out['failed_hooks'] = fld(sv, ix.S['failed_hooks'])
        for pfx, f in (('sc', 'scenarios'), ('st', 'steps')):
            st = ex.field_of(sv, None, ix.S[f], 'Stats')
            for n in ix.Stats:
                out['%s_%s' % (pfx, n)] = fld(st, ix.Stats[n])
        m = ex.field_of(sv, None, ix.S['handled_scenarios'], 'HashMap')
        out = {k: z3.simplify(v) for k, v in out.items()}
        return out, m

    def key_of(self, f, r, s):
        """The map key that stands for the scenario (f, r, s): one component per component of the real key type."""
        from mirsmt.values import tuple_elems
        comps = tuple_elems(self.key_ty)
        single = comps is None
        vals = []
        for ty in ([self.key_ty] if single else comps):
            role, _ = role_of(ty)
            v = {'f': f, 'r': r, 's': s}.get(role)
            if v is None:
                raise Inconclusive('indicator key component of type %s is no Source of the scenario\'s path: which scenario a key '
                                   'stands for is decided by the key-separation obligation only' % ty)
            vals.append(v)
        if single:
            return vals[0]
        return Adt('tuple', {(None, i): v for i, v in enumerate(vals)})

    def key_term(self):
        f, r, s = key_values(self.kf, self.kr_d, self.kr, self.ks)
        return self.M.key_term(self.ex, self.key_of(f, r, s), self.map0.ksh)

    def bind_args(self, f, r, s, evref):
        """handle_scenario's arguments, each parameter bound by its TYPE (whatever their order and by-value / by-reference form)."""
        args = []
        for _, ty in self.body.params[1:]:
            role, refd = role_of(ty)
            if role == 'ev':
                args.append(evref)
            elif role in ('f', 'r', 's'):
                v = {'f': f, 'r': r, 's': s}[role]
                args.append(Ref(Cell(v), ()) if refd else v)
            elif role in ('f*', 's*') and refd:
                arc = {'f*': f, 's*': s}[role].fields[(None, 0)]
                args.append(Ref(arc.cell, ()))          # a reference into the Arc's content
            else:
                raise Inconclusive('handle_scenario parameter of type %s: not part of a scenario event' % ty)
        return args

    def add_invariants(self, ex):
        """INV: counters < 2^62; the stored indicator of the key is a valid enum value."""
        ex.add(z3.And(*[z3.ULT(v, bv(1 << 62)) for v in self.pre.vars()]))
        self.pre_state()
        k0 = self.key_term()
        ex.add(z3.Implies(z3.Select(self.map0.present, k0), z3.ULT(z3.Select(self.map0.leaves[0], k0), bv(len(self.ix.Ind)))))

    def run_path(self, ex):
        cell = Cell(self.pre_state(), name='self')
        ex.add(z3.ULT(self.kr_d, bv(2)))
        ex.add(self.ev.well_formed(self.ix))
        f, r, s = key_values(self.kf, self.kr_d, self.kr, self.ks)
        evc = Cell(self.ev.build(self.ix), name='ev')
        try:
            ex.call_body(self.body, [Ref(cell, ())] + self.bind_args(f, r, s, Ref(evc, ())))
            panicked = None
        except PathEnd as e:
            if e.kind != 'panic':
                raise
            panicked = e.msg
        post, m = self.post_terms(cell.v)
        return {'post': post, 'map': m, 'panic': panicked}


# ---------------------------------------------------------------- native replay of ONE transition

def transition_terms(H, res, k):
    """Terms whose model values describe a per-transition counterexample completely."""
    S, E, m0 = H.pre, H.ev, H.map0
    t = {'pre.' + n: S.c[n] for n in COUNTERS}
    t.update({'post.' + n: res['post'][n] for n in COUNTERS})
    t.update({'map.present': z3.Select(m0.present, k), 'map.ind': z3.Select(m0.leaves[0], k),
              'ev.sc': E.sc, 'ev.hook': E.hook, 'ev.step': E.step, 'ev.err': E.err, 'ev.ret': E.ret,
              'ev.cur': E.cur, 'ev.left': E.left, 'ev.has_last': E.has_last, 'ev.eq_last': E.eq_last,
              'ev.same_ty': E.same_ty, 'ev.same_text': E.same_text})
    return t


def replayable(H):
    """Constraints that make a counterexample expressible through the public API (contract-abiding event)."""
    ix, E = H.ix, H.ev
    return z3.And(z3.Implies(E.sc == bv(ix.Sc['Step']), E.has_last),
                  z3.Implies(E.sc != bv(ix.Sc['Step']), z3.Not(E.eq_last)),
                  z3.ULT(E.cur, bv(1000)), z3.ULT(E.left, bv(1000)))


def get_cex(H, ex, claim, res, k):
    """If pc AND NOT claim is sat return a model dict (preferring a replayable one), else None."""
    terms = transition_terms(H, res, k)
    from checks import common
    if ex.check(z3.Not(claim), replayable(H)):
        d = common.model_dict(ex.solver.model(), terms)
        d['replayable'] = True
        return d
    if ex.check(z3.Not(claim)):
        d = common.model_dict(ex.solver.model(), terms)
        d['replayable'] = False
        return d
    return None


def transition_script(H, d):
    ix = H.ix
    inv = lambda m: {v: k for k, v in m.items()}  # noqa
    r = 'r=-' if d['ev.ret'] == 0 else 'r=%d/%d' % (d['ev.cur'], d['ev.left'])
    pre = []
    if d['map.present']:
        ind = inv(ix.Ind).get(d['map.ind'])
        pre = {'Failed': ['ev bg 0 failed panic r=-'], 'Skipped': ['ev bg 0 skipped r=-'],
               'Retried': ['ev bg 0 failed panic r=0/1']}[ind]
    sc = inv(ix.Sc)[d['ev.sc']]
    if sc in ('Started', 'Finished'):
        ev = 'ev %s %s' % (sc.lower(), r)
    elif sc == 'Log':
        return None
    elif sc == 'Hook':
        ev = 'ev hook after %s %s' % (inv(ix.Hook)[d['ev.hook']].lower(), r)
    else:
        kind = inv(ix.Step)[d['ev.step']].lower()
        err = ''
        if kind == 'failed':
            err = ' ' + {'NotFound': 'notfound', 'Panic': 'panic', 'AmbiguousMatch': 'ambiguous'}[inv(ix.Err)[d['ev.err']]]
        if sc == 'Background':
            ev = 'ev bg 0 %s%s %s' % (kind, err, r)
        else:
            ev = 'ev step %d %s%s %s' % (1 if d['ev.eq_last'] else 0, kind, err, r)
    head = ['mode summarize', 'bg 1', 'own 2']
    if sc in ('Background', 'Step') and not d['ev.eq_last'] and d.get('ev.same_ty') and d.get('ev.same_text'):
        head.append('bgdup 0' if sc == 'Background' else 'dup 0')      # the event's step looks like the last own step
    return '\n'.join(head + pre) + '\n', '\n'.join(head + pre + [ev]) + '\n'


def confirm_transition(chk, H, o, prop, tag):
    """Replay a per-transition counterexample: same indicator state reached by a prefix, then the event;
    the real Summarize must show the predicted counter DELTAS (additivity makes deltas state independent)."""
    import os
    from checks import replay, common
    d = o.model
    if not d or not d.get('replayable'):
        o.verdict = 'inconclusive'
        o.detail += ' | counterexample is not expressible through the public API (non contract-abiding event)'
        return
    sc = transition_script(H, d)
    if sc is None:
        o.verdict = 'inconclusive'
        o.detail += ' | Log event not scriptable'
        return
    rd = os.path.join(common.EVID, 'replay')
    os.makedirs(rd, exist_ok=True)
    path = os.path.join(rd, '%s-%s.script' % (prop, tag))
    r0, out0 = replay.run_script(sc[0], path + '.prefix')
    r1, out1 = replay.run_script(sc[1], path)
    chk.replays += 1
    chk.replay_files.append(path)
    o.replay = path
    if r0 is None or r1 is None:
        o.verdict = 'inconclusive'
        o.detail += ' | native replay failed to run: %s' % (out1[-300:])
        return
    names = {'sc_passed', 'sc_skipped', 'sc_failed', 'sc_retried', 'st_passed', 'st_skipped', 'st_failed', 'st_retried',
             'parsing_errors', 'failed_hooks'}
    want = {n: (d['post.' + n] - d['pre.' + n]) % (1 << 64) for n in names}
    got = {n: (r1[n] - r0[n]) % (1 << 64) for n in names}
    if want == got:
        o.detail += ' | reproduced natively (counter deltas %s): %s' % ({k: v for k, v in got.items() if v}, path)
    else:
        o.verdict = 'inconclusive'
        o.detail += ' | native replay DISAGREES: predicted deltas %s, real %s' % (want, got)


# ---------------------------------------------------------------- which scenario an indicator belongs to

def key_separation(chk, prop):
    """Two scenario events of DIFFERENT scenarios (different `Source<Scenario>`), arbitrary otherwise, handled one after
    the other by the real handle_scenario: whatever keys the code uses for its indicator map in the two calls, a key of
    the first call never equals a key of the second.  (The frame and additivity obligations speak about "the other
    keys"; this is what makes them speak about the other scenarios.)"""
    from checks import common
    from checks.common import Obligation
    H = Harness(chk)
    ex, M, ix = H.ex, H.M, H.ix
    o = chk.add(Obligation('%s.key.different-scenarios-never-share-an-indicator' % prop,
                           'two calls of handle_scenario, arbitrary pre-state, arbitrary events of two scenarios A and B; every pair of map keys used'))
    o.verdict = 'holds'
    w = chk.add(Obligation('%s.key.witness' % prop, 'exploration'))
    w.kind = 'witness'
    w.verdict = 'witness-missing'
    A = (H.kf, H.kr_d, H.kr, H.ks)
    B = tuple(z3.BitVec('KB.%s' % n, 64) for n in ('f', 'r_d', 'r', 's'))
    EA, EB = H.ev, SymEvent('EB')
    quick = chk.tier != 'thorough'
    pairs = [0]

    def run(ex_):
        ex_.add(z3.And(*[z3.ULT(v, bv(1 << 62)) for v in H.pre.vars()]))
        cell = Cell(H.pre_state(), name='self')
        m0 = H.map0
        keys = {'A': [], 'B': []}
        cur = ['A']
        orig = M.key_term

        def rec(ex__, v, ksh):
            t = orig(ex__, v, ksh)
            if ksh is m0.ksh or ksh == m0.ksh:
                keys[cur[0]].append(t)
                # the stored indicator of any key looked at is a valid enum value (pre-state invariant)
                ex__.add(z3.Implies(z3.Select(m0.present, t), z3.ULT(z3.Select(m0.leaves[0], t), bv(len(ix.Ind)))))
            return t
        M.key_term = rec
        try:
            for tag, K, E in (('A', A, EA), ('B', B, EB)):
                cur[0] = tag
                H.ev = E
                ex_.add(z3.ULT(K[1], bv(2)))
                ex_.add(E.well_formed(ix))
                if quick and tag == 'B':
                    ex_.add(E.is_step_ev(ix))          # quick tier: the second event is a step event (thorough: any)
                f, r, s = key_values(*K, sfx='' if tag == 'A' else '.B')
                evc = Cell(E.build(ix), name='ev' + tag)
                try:
                    ex_.call_body(H.body, [Ref(cell, ())] + H.bind_args(f, r, s, Ref(evc, ())))
                except PathEnd as e:
                    if e.kind != 'panic':
                        raise
        finally:
            M.key_term = orig
            H.ev = EA
        return keys

    def on_end(ex_, rec):
        kind, res, pc, dec = rec
        if kind != 'ok':
            if kind in ('loopbound', 'unreachable'):
                return
            o.verdict = 'inconclusive'
            o.detail = '%s: %s' % (kind, res)
            return
        ka = {t.sexpr(): t for t in res['A']}
        kb = {t.sexpr(): t for t in res['B']}
        if ka and kb:
            w.verdict = 'witness-ok'
        for a in ka.values():
            for b in kb.values():
                pairs[0] += 1
                o.paths += 1
                o.queries += 1
                if a.sort() != b.sort():
                    continue
                differ = A[3] != B[3]
                terms = {'A.feature': A[0], 'A.rule?': A[1], 'A.rule': A[2], 'A.scenario': A[3],
                         'B.feature': B[0], 'B.rule?': B[1], 'B.rule': B[2], 'B.scenario': B[3], 'key(A)': a, 'key(B)': b}
                same_place = z3.And(A[0] == B[0], A[1] == B[1], z3.Implies(A[1] == bv(1), A[2] == B[2]))
                for extra in (same_place, None):
                    cs = [differ, a == b] + ([extra] if extra is not None else [])
                    if ex_.check(*cs):
                        o.verdict = 'violated'
                        o.model = common.model_dict(ex_.solver.model(), terms)
                        o.model['same_feature_and_rule'] = extra is not None
                        o.detail = 'two different scenarios are filed under one key'
                        ex_.stop = True
                        return

    ex.explore(run, on_end)
    w.detail = '%d key pairs compared' % pairs[0]
    if o.verdict == 'violated':
        confirm_key_separation(chk, o, prop)
    return o


def confirm_key_separation(chk, o, prop):
    """Native: scenario A (two attempts failing with a retry left, then passing) and another scenario B of the same
    feature at the same position, run between A's attempts.  By the statement A is counted once as retried and both are
    passed; anything else is the shared indicator showing."""
    import os
    from checks import replay, common
    d = o.model or {}
    if not d.get('same_feature_and_rule'):
        o.verdict = 'inconclusive'
        o.detail += ' | the shared key needs two features (not scriptable)'
        return
    in_rule = 1 if d.get('A.rule?') == 1 else 0
    sc = ['mode summarize', 'own 2', 'rule %d' % in_rule, 'twin',
          'ev started r=0/2', 'ev step 0 failed panic r=0/2', 'ev finished r=0/2',
          'tev started r=-', 'tev step 0 passed r=-', 'tev step 1 passed r=-', 'tev finished r=-',
          'ev started r=1/1', 'ev step 0 failed panic r=1/1', 'ev finished r=1/1',
          'ev started r=2/0', 'ev step 0 passed r=2/0', 'ev step 1 passed r=2/0', 'ev finished r=2/0']
    rd = os.path.join(common.EVID, 'replay')
    os.makedirs(rd, exist_ok=True)
    path = os.path.join(rd, '%s-key-separation.script' % prop)
    r, out = replay.run_script('\n'.join(sc) + '\n', path)
    chk.replays += 1
    chk.replay_files.append(path)
    if r is None:
        o.verdict = 'inconclusive'
        o.detail += ' | native replay failed to run: %s' % out[-300:]
        return
    got = {n: r.get(n) for n in ('sc_passed', 'sc_skipped', 'sc_failed', 'sc_retried')}
    want = {'sc_passed': 2, 'sc_skipped': 0, 'sc_failed': 0, 'sc_retried': 1}
    if got != want:
        o.replay = path
        o.detail += ' | reproduced natively: two scenarios at one position, one retried twice and passed, the other passed: summary says %s, the stream %s: %s' % (got, want, path)
    else:
        o.verdict = 'inconclusive'
        o.detail += ' | native replay does not show it (summary %s)' % got
