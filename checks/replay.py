"""Native replay: build /verif/replay against a scratch copy of /repo's current tree
(outside /repo and /verif) and run scripts produced from solver models."""
import fcntl
import os
import re
import shutil
import subprocess
import time

from mirsmt import frontend

VERIF = os.path.dirname(os.path.dirname(os.path.abspath(__file__)))
CACHE = frontend.CACHE
_built = {}


def build(profile='dev'):
    """-> path of the replay binary built from /repo's current working tree."""
    if profile in _built:
        return _built[profile]
    os.makedirs(CACHE, exist_ok=True)
    lock = open(os.path.join(CACHE, 'replay.lock'), 'w')
    fcntl.flock(lock, fcntl.LOCK_EX)
    try:
        src = os.path.join(CACHE, 'replay-src')
        crate = os.path.join(CACHE, 'replay-crate')
        tgt = os.path.join(CACHE, 'replay-target')
        os.makedirs(src, exist_ok=True)
        subprocess.run(['rsync', '-a', '--delete', '--exclude', 'target', '--exclude', '.git', '--exclude', 'book',
                        frontend.REPO.rstrip('/') + '/', src + '/'], check=True)
        os.makedirs(os.path.join(crate, 'src'), exist_ok=True)
        subprocess.run(['rsync', '-a', '--delete', os.path.join(VERIF, 'replay', 'src') + '/', os.path.join(crate, 'src') + '/'], check=True)
        toml = open(os.path.join(VERIF, 'replay', 'Cargo.toml.in')).read().replace('@SRC@', src)
        p = os.path.join(crate, 'Cargo.toml')
        if not os.path.exists(p) or open(p).read() != toml:
            open(p, 'w').write(toml)
        lk = os.path.join(crate, 'Cargo.lock')
        if not os.path.exists(lk):
            shutil.copy(os.path.join(src, 'Cargo.lock'), lk)
        env = dict(os.environ)
        env['CARGO_NET_OFFLINE'] = 'true'
        env['RUSTFLAGS'] = '--cap-lints allow'
        cmd = ['cargo', 'build', '--offline', '--target-dir', tgt]
        if profile == 'release':
            cmd.append('--release')
        t0 = time.time()
        r = subprocess.run(cmd, cwd=crate, env=env, stdout=subprocess.PIPE, stderr=subprocess.STDOUT, text=True)
        if r.returncode != 0:
            raise RuntimeError('replay driver build failed:\n' + r.stdout[-4000:])
        exe = os.path.join(tgt, 'release' if profile == 'release' else 'debug', 'cuke-replay')
        # copy the binary so that a later rebuild for another tree does not swap it under us
        out = os.path.join(CACHE, 'cuke-replay-%s-%d' % (profile, os.getpid()))
        for fn in os.listdir(CACHE):          # copies left behind by runs that were killed
            mm = re.match(r'cuke-replay-\w+-(\d+)$', fn)
            if mm and not os.path.exists('/proc/%s' % mm.group(1)):
                try:
                    os.remove(os.path.join(CACHE, fn))
                except OSError:
                    pass
        shutil.copy(exe, out)
        _built[profile] = out
        return out
    finally:
        fcntl.flock(lock, fcntl.LOCK_UN)
        lock.close()


def cleanup():
    for p in _built.values():
        try:
            os.remove(p)
        except OSError:
            pass
    _built.clear()


def run_script(script_text, path, profile='dev', timeout=60):
    """Write the script to `path`, run the driver, return (dict from RESULT line | None, raw output)."""
    exe = build(profile)
    with open(path, 'w') as f:
        f.write(script_text)
    try:
        r = subprocess.run([exe, path], stdout=subprocess.PIPE, stderr=subprocess.STDOUT, text=True, timeout=timeout)
        out = r.stdout
    except subprocess.TimeoutExpired as e:
        return {'timeout': True}, (e.stdout or b'').decode() if isinstance(e.stdout, bytes) else (e.stdout or '')
    res = None
    for ln in out.splitlines():
        if ln.startswith('RESULT '):
            res = {}
            for tok in ln.split()[1:]:
                k, v = tok.split('=', 1)
                res[k] = (v == 'true') if v in ('true', 'false') else (int(v) if v.lstrip('-').isdigit() else v)
    return res, out
