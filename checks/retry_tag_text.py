"""The text grammar of retry tags (C18): `@retry`, `@retry(N)`, `@retry.after(D)`, `@retry(N).after(D)`.

The C18 kernels treat what the per-tag parser (`parse_tags`, a closure of RetryOptions::parse_from_tags) returns as an
arbitrary value.  Here the closure itself is executed on ONE tag whose text is the literal skeleton of one of the four
documented shapes with UNKNOWN chunks for the count text N and the delay text D (any strings without `)` that parse;
`str::parse::<usize>` and `humantime::parse_duration` give an unknown value per text they are given, and an unknown
verdict for any other text) - and must return exactly (count of N if N is there, delay of D if D is there); a tag that does not start
with `retry` must give nothing.  What a malformed payload means is not part of the property and is not demanded.
"""
import re

import z3

from checks import common
from checks.common import Obligation
from mirsmt.values import Cell, Lazy, Adt, Ref, Obj, UNIT, bv
from mirsmt.interp import Inconclusive, PathEnd

BV64 = z3.BitVecSort(64)


def pstr(parts):
    """a string as a sequence of literal chunks and named unknown chunks: ('lit', text) | ('sym', name)"""
    out = []
    for k, v in parts:
        if k == 'lit' and v == '':
            continue
        if k == 'lit' and out and out[-1][0] == 'lit':
            out[-1] = ('lit', out[-1][1] + v)
        else:
            out.append((k, v))
    return Obj('pstr', parts=tuple(out))


def key_of(parts):
    return ''.join(v if k == 'lit' else '<%s>' % v for k, v in parts)


def lit_text(v):
    if isinstance(v, Obj) and v.kind == 'str':
        t = v.text
        if t.startswith('"') and t.endswith('"') and '\\' not in t:
            return t[1:-1]
    return None


@common.part
def obligations(chk, prop):
    prog = chk.prog
    body = common.find_method(prog, 'RetryOptions', 'parse_from_tags')
    pt = prog.bodies.get(body.name + '::{closure#0}')
    if pt is None:
        raise Inconclusive('parse_tags closure not found')
    o = chk.add(Obligation('%s.retry-tag-text.the-four-documented-shapes-give-their-count-and-delay' % prop,
                           'the parse_tags closure of parse_from_tags on one tag; tag text = literal skeleton with unknown chunks: retry | retry(N) | retry.after(D) | retry(N).after(D), '
                           'N, D any strings without `)` that parse; a tag not starting with `retry`; usize / humantime parsing uninterpreted'))
    o.verdict = 'holds'
    w = chk.add(Obligation('%s.retry-tag-text.witness' % prop, 'exploration'))
    w.kind = 'witness'
    paths = {}
    # facts about the unknown chunks: N and D contain no `)`; X does not start with `retry`; N parses as usize, D as a duration
    NO_PAREN = {'N', 'D'}
    shapes = {
        'retry': ([('lit', 'retry')], None, None),
        'retry(N)': ([('lit', 'retry('), ('sym', 'N'), ('lit', ')')], 'N', None),
        'retry.after(D)': ([('lit', 'retry.after('), ('sym', 'D'), ('lit', ')')], None, 'D'),
        'retry(N).after(D)': ([('lit', 'retry('), ('sym', 'N'), ('lit', ').after('), ('sym', 'D'), ('lit', ')')], 'N', 'D'),
        'another tag': ([('sym', 'X')], None, None),
    }
    bad = []

    def usize_of(parts):
        return z3.BitVec('usize(%s)' % key_of(parts), 64)

    def dur_of(parts):
        return z3.BitVec('duration(%s)' % key_of(parts), 64)
    for sname, (text, n_, d_) in shapes.items():
        ex, M = chk.new_exec(loop_bound=6)

        def parts_of(ex_, v):
            v = ex_.materialize(v)
            for _ in range(4):
                if isinstance(v, Ref):
                    v = ex_.materialize(ex_.read_path(v.cell, v.path))
            if isinstance(v, Obj) and v.kind == 'pstr':
                return list(v.parts)
            t = lit_text(v)
            if t is not None:
                return [('lit', t)] if t else []
            raise Inconclusive('string operation on %r' % (v,))

        def pat_of(ex_, v):
            v = ex_.materialize(v)
            if z3.is_expr(v) and z3.is_bv_value(z3.simplify(v)):
                return chr(z3.simplify(v).as_long())
            ps = parts_of(ex_, v)
            if len(ps) <= 1 and all(k == 'lit' for k, _ in ps):
                return ps[0][1] if ps else ''
            raise Inconclusive('pattern %r' % (ps,))

        def strip_prefix(ex_, info, a, dty):
            ps, pat = parts_of(ex_, a[0]), pat_of(ex_, a[1])
            none = Adt(dty or 'Option<&str>', {}, 0)
            if not ps:
                return none
            k, v = ps[0]
            if k == 'lit':
                if v.startswith(pat):
                    return Adt(dty or 'Option<&str>', {(1, 0): Ref(Cell(pstr([('lit', v[len(pat):])] + ps[1:])), ())}, 1)
                if pat.startswith(v) and len(ps) > 1:
                    raise Inconclusive('strip_prefix(%r) runs into the unknown chunk of %s' % (pat, key_of(ps)))
                return none
            if v == 'X' and pat == 'retry':
                return none                                   # the fact about X
            raise Inconclusive('strip_prefix(%r) on a string starting with the unknown chunk %s' % (pat, v))

        def split_once(ex_, info, a, dty):
            ps, pat = parts_of(ex_, a[0]), pat_of(ex_, a[1])
            none = Adt(dty or 'Option<(&str, &str)>', {}, 0)
            for i, (k, v) in enumerate(ps):
                if k == 'sym':
                    if pat == ')' and v in NO_PAREN:
                        continue                              # the fact about N and D
                    raise Inconclusive('split_once(%r) over the unknown chunk %s' % (pat, v))
                j = v.find(pat)
                if j >= 0:
                    l_, r_ = pstr(ps[:i] + [('lit', v[:j])]), pstr([('lit', v[j + len(pat):])] + ps[i + 1:])
                    tup = Adt('(&str, &str)', {(None, 0): Ref(Cell(l_), ()), (None, 1): Ref(Cell(r_), ())})
                    return Adt(dty or 'Option<(&str, &str)>', {(1, 0): tup}, 1)
            return none

        def parse(ex_, info, a, dty):
            ps = parts_of(ex_, a[0])
            known = ps == [('sym', 'N')]
            if known or ex_.branch(z3.Bool('parses-as-usize(%s)' % key_of(ps))):
                return Adt(dty or 'Result<usize, ParseIntError>', {(0, 0): usize_of(ps)}, 0)
            return Adt(dty or 'Result<usize, ParseIntError>', {(1, 0): Lazy('ParseIntError', 'parse error')}, 1)

        def parse_duration(ex_, info, a, dty):
            ps = parts_of(ex_, a[0])
            known = ps == [('sym', 'D')]
            if known or ex_.branch(z3.Bool('parses-as-duration(%s)' % key_of(ps))):
                return Adt(dty or 'Result<Duration, humantime::DurationError>', {(0, 0): Obj('time', t=dur_of(ps))}, 0)
            return Adt(dty or 'Result<Duration, humantime::DurationError>', {(1, 0): Lazy('DurationError', 'duration error')}, 1)
        for k_ in ('str::strip_prefix', '<impl>::strip_prefix', 'String::strip_prefix'):
            M.table[k_] = strip_prefix
        for k_ in ('str::split_once', '<impl>::split_once'):
            M.table[k_] = split_once
        for k_ in ('str::parse', '<impl>::parse'):
            M.table[k_] = parse
        for k_ in ('humantime::parse_duration', 'parse_duration', 'duration::parse_duration'):
            M.table[k_] = parse_duration

        def run(ex_, text=text):
            tags = Obj('vec', items=(pstr(text),), ty='Vec<String>')
            clo = Ref(Cell(Adt(pt.params[0][1].strip().lstrip('&'), {}, None, None)), ())
            return ex_.materialize(ex_.call_body(pt, [clo, Ref(Cell(tags), ())]))

        def on_end(ex_, rec, sname=sname, n_=n_, d_=d_, M=M):
            kind, res, pc, dec = rec
            paths[sname] = paths.get(sname, 0) + 1
            o.paths += 1
            if kind != 'ok':
                if o.verdict == 'holds':
                    o.verdict = 'inconclusive'
                    o.detail = '%s: %s: %s' % (sname, kind, res)
                return
            claims = []
            rd = M.discr(ex_, res)
            if sname == 'another tag':
                claims.append(rd == bv(0))
            else:
                claims.append(rd == bv(1))
                if ex_.check(rd == bv(1)):
                    tup = ex_.materialize(ex_.field_of(res, 1, 0, '(Option<usize>, Option<Duration>)'))
                    num = ex_.materialize(ex_.field_of(tup, None, 0, 'Option<usize>'))
                    aft = ex_.materialize(ex_.field_of(tup, None, 1, 'Option<std::time::Duration>'))
                    nd, ad = M.discr(ex_, num), M.discr(ex_, aft)
                    claims.append(nd == bv(1 if n_ is not None else 0))
                    claims.append(ad == bv(1 if d_ is not None else 0))
                    if n_ is not None and ex_.check(nd == bv(1)):
                        claims.append(z3.Implies(nd == bv(1), ex_.materialize(ex_.field_of(num, 1, 0, 'usize'), 'usize') == usize_of([('sym', n_)])))
                    if d_ is not None and ex_.check(ad == bv(1)):
                        dv = ex_.materialize(ex_.field_of(aft, 1, 0, 'std::time::Duration'))
                        dvt = dv.t if isinstance(dv, Obj) and dv.kind == 'time' else dv
                        claims.append(z3.Implies(ad == bv(1), dvt == dur_of([('sym', d_)])))
            o.queries += 1
            if ex_.check(z3.Not(z3.And(*claims))):
                bad.append((sname, 'returned %r' % (res,)))
        ex.explore(run, on_end)
    w.verdict = 'witness-ok' if len(paths) == len(shapes) else 'witness-missing'
    w.detail = 'paths per shape: %s' % paths
    if bad and o.verdict != 'inconclusive':
        o.verdict = 'violated'
        o.detail = 'a tag of shape %s does not give its count / delay: %s' % (bad[0][0], bad[0][1][:300])
        o.model = {'shape': bad[0][0]}
        confirm(chk, o, prop)
    return o


def confirm(chk, o, prop):
    """native: the public parse_from_tags on one scenario tag of each documented shape (concrete count and delay texts of
    several lengths), no CLI options: the count and the delay of the tag come back (one retry / no delay where omitted)"""
    import os
    from checks import replay
    cases = [('retry', 1, '-'), ('retry(3)', 3, '-'), ('retry(12)', 12, '-'), ('retry.after(2s)', 1, '2'), ('retry.after(90s)', 1, '90'),
             ('retry(4).after(3s)', 4, '3'), ('retry(10).after(61s)', 10, '61'), ('retried', None, None), ('flaky', None, None)]
    lines = ['mode retry_options'] + ['case rule=0 stag=%s rtag=- ftag=- flaky=none cli=-' % t for t, _, _ in cases]
    d = os.path.join(common.EVID, 'replay')
    os.makedirs(d, exist_ok=True)
    path = os.path.join(d, '%s-retry-tag-text.script' % prop)
    res, out = replay.run_script('\n'.join(lines) + '\n', path, timeout=120)
    chk.replays += 1
    got = [ln.split()[1] for ln in out.splitlines() if ln.startswith('CASE ')]
    if res is None or len(got) != len(cases):
        o.verdict = 'inconclusive'
        o.detail += ' | native replay failed: %s' % out[-300:]
        return
    devs = []
    for (t, n, a), g in zip(cases, got):
        # (`retried` starts with `retry`: by the code AND the statement's forms it is no retry tag of the four shapes; what it
        # means is not demanded - only that a tag without the prefix gives nothing)
        if t == 'retried':
            continue
        want = 'none' if n is None else 'left=%d,after=%s' % (n, a)
        if g != want:
            devs.append('@%s: %s (the tag says %s)' % (t, g, want))
    if devs:
        chk.replay_files.append(path)
        o.replay = path
        o.detail += ' | reproduced natively with the public RetryOptions::parse_from_tags: %s' % '; '.join(devs[:3])
    else:
        o.verdict = 'inconclusive'
        o.detail += ' | not reproduced natively (the four shapes give their count and delay)'
