"""C12 - summary counters equal what the event stream contains.

Part A (per transition, every path of the real handle_scenario/handle_step MIR,
arbitrary pre-state): each event changes exactly the counters the statement
names; entries of other scenarios are untouched (frame); counter deltas do not
depend on the rest of the state (additivity) - which lifts the claim to any
number of scenarios under any interleaving.
Part B (bounded sequence, BMC over the extracted transition relation): over a
whole contract-abiding attempt sequence of one scenario the scenario lands in
exactly one of passed / skipped / failed according to its last attempt and at
most once in retried.
Part C: handle_event gating (state machine, parsing errors, features, rules).
"""
import sys
import time

import z3

from checks import common, summ, summ_seq, summ_event
from checks.common import Obligation
from mirsmt.values import bv


def per_transition(chk, H, prop='C12'):
    """Explore the kernel once; discharge the per-path obligations. Returns path records."""
    ex, ix, S, E = H.ex, H.ix, H.pre, H.ev
    inv = z3.And(*[z3.ULT(v, bv(1 << 62)) for v in S.vars()])
    k2 = z3.BitVec('K2', 64 * 3 + 64)
    obs = {}

    def ob(name, bound='every path of handle_scenario+handle_step, arbitrary pre-state under INV, arbitrary event'):
        if name not in obs:
            obs[name] = chk.add(Obligation('%s.%s' % (prop, name), bound))
            obs[name].verdict = 'holds'
        return obs[name]

    cur = {}

    def refute(o, claim, terms, role=None):
        """claim must hold on this path: check pc AND NOT claim."""
        o.paths += 1
        o.queries += 1
        if o.verdict == 'violated' and o.model and o.model.get('replayable'):
            return False
        d = summ.get_cex(H, ex, claim, cur['res'], cur['k'])
        if d is not None:
            o.verdict = 'violated'
            o.model = d
            o.detail = 'counterexample on path with %d decisions' % len(ex.decisions)
            o.role = role
            return False
        return True

    records = []

    def run(ex_):
        H.add_invariants(ex_)
        r = H.run_path(ex_)
        return r

    def on_end(ex_, rec):
        kind, res, pc, dec = rec
        terms = {n: S.c[n] for n in summ.COUNTERS}
        terms.update({'ev.sc': E.sc, 'ev.hook': E.hook, 'ev.step': E.step, 'ev.err': E.err, 'ev.retries': E.ret,
                      'ev.current': E.cur, 'ev.left': E.left, 'has_last': E.has_last, 'eq_last': E.eq_last})
        if kind != 'ok':
            o = ob('no-unexpected-end')
            o.verdict = 'inconclusive' if kind in ('loopbound',) else 'violated'
            o.detail = '%s: %s' % (kind, res)
            if kind == 'unreachable':
                o.verdict = 'inconclusive'
            return
        post, m, panic = res['post'], res['map'], res['panic']
        k = H.key_term()
        cur['res'], cur['k'] = res, k
        m0 = H.map0
        pk0, vk0 = z3.Select(m0.present, k), z3.Select(m0.leaves[0], k)
        pk1, vk1 = z3.simplify(z3.Select(m.present, k)), z3.simplify(z3.Select(m.leaves[0], k))
        skipped_ind = z3.And(pk0, vk0 == bv(ix.Ind['Skipped']))
        # INV2 (cardinality invariant, assumed): a Skipped indicator implies scenarios.skipped >= 1
        inv2 = z3.Implies(skipped_ind, z3.UGE(S.c['sc_skipped'], bv(1)))
        terms.update({'map[k].present': pk0, 'map[k].indicator': vk0})
        o = ob('no-panic')
        if panic is not None:
            o.paths += 1
            o.queries += 1
            if ex_.check(inv2):
                o.verdict = 'violated'
                o.detail = 'panic reachable under INV: %s' % panic
                o.model = common.model_dict(ex_.solver.model(), terms)
            return
        ex_.solver.push()
        ex_.solver.add(inv2)
        try:
            if not ex_.check():
                return
            d = {n: post[n] - S.c[n] for n in summ.COUNTERS}
            one = lambda c: z3.If(c, bv(1), bv(0))  # noqa
            final_fail = z3.And(E.step_is(ix, 'Failed'), z3.Not(z3.And(E.retry_left(), E.err != bv(ix.Err['NotFound']))))
            retried_fail = z3.And(E.step_is(ix, 'Failed'), E.retry_left(), E.err != bv(ix.Err['NotFound']))
            refute(ob('steps.passed=Passed-events'), d['st_passed'] == one(E.step_is(ix, 'Passed')), terms)
            refute(ob('steps.skipped=Skipped-events'), d['st_skipped'] == one(E.step_is(ix, 'Skipped')), terms)
            refute(ob('steps.failed=final-Failed-events'), d['st_failed'] == one(final_fail), terms)
            refute(ob('steps.retried=other-Failed-events'), d['st_retried'] == one(retried_fail), terms)
            refute(ob('hook_errors=Hook-Failed-events'), d['failed_hooks'] == one(E.hook_failed(ix)), terms)
            refute(ob('scenario-events-leave-features-rules-parsing_errors'),
                   z3.And(d['features'] == 0, d['rules'] == 0, d['parsing_errors'] == 0), terms)
            noop = z3.Or(E.sc == bv(ix.Sc['Started']), E.sc == bv(ix.Sc['Log']),
                         z3.And(E.sc == bv(ix.Sc['Hook']), E.hook != bv(ix.Hook['Failed'])),
                         E.step_is(ix, 'Started'))
            same = z3.And(*([d[n] == 0 for n in summ.COUNTERS] + [pk1 == pk0, z3.Implies(pk0, vk1 == vk0)]))
            refute(ob('noop-events-change-nothing'), z3.Implies(noop, same), terms)
            # frame: any other key untouched
            kk = z3.BitVec('K2', k.size())
            frame = z3.Implies(kk != k, z3.And(z3.Select(m.present, kk) == z3.Select(m0.present, kk),
                                               z3.Select(m.leaves[0], kk) == z3.Select(m0.leaves[0], kk)))
            refute(ob('frame-other-scenarios-untouched'), frame, terms)
            # indicator stays a valid Indicator value
            refute(ob('indicator-valid'), z3.Implies(z3.And(pk1, z3.Implies(pk0, z3.ULT(vk0, bv(len(ix.Ind))))),
                                                     z3.ULT(vk1, bv(len(ix.Ind)))), terms)
            records.append({'pc': z3.And(*pc) if pc else z3.BoolVal(True), 'post': post, 'pk1': pk1, 'vk1': vk1,
                            'pk0': pk0, 'vk0': vk0, 'inv2': inv2})
        finally:
            ex_.solver.pop()

    ex.explore(run, on_end)
    import re as _re
    for name, o in obs.items():
        if o.verdict == 'violated' and name not in ('no-panic', 'no-unexpected-end', 'frame-other-scenarios-untouched', 'indicator-valid'):
            summ.confirm_transition(chk, H, o, prop, _re.sub(r'[^a-z0-9]+', '-', name.lower())[:50])
    # additivity: deltas and map'[k] are functions of (event, map[k]) only - checked on the merged summary
    return records, obs


@common.part
def kernels(chk):
    H = summ.Harness(chk)
    chk.assumptions += [
        'INV: every counter < 2^62 (no usize overflow in a run); a Skipped indicator for the scenario implies scenarios.skipped >= 1 '
        '(cardinality invariant of the map, assumed per transition, established by the BMC from the initial state)',
        'scenario.steps.last() and gherkin::Step == are opaque oracles (symbolic Booleans has_last / eq_last); a step may look like the last own step (same keyword type and text: Booleans same_ty / same_text, implied by eq_last) without being it',
        'one scenario key; other scenarios covered by the frame + additivity + key-separation obligations',
    ]
    records, obs = per_transition(chk, H, 'C12')
    # vacuity witnesses: each interesting event class is reachable
    w = chk.add(Obligation('C12.witness.paths', 'kernel exploration'))
    w.kind = 'witness'
    w.verdict = 'witness-ok' if len(records) >= 20 else 'witness-missing'
    w.detail = '%d feasible non-panicking paths' % len(records)
    summ_seq.additivity(chk, H, records, 'C12')
    A = 3      # a scenario counted twice as retried needs three attempts
    NS = 3 if chk.tier == 'thorough' else 2
    summ_seq.sequence_obligations(chk, H, records, 'C12', attempts=A, steps=NS)


@common.part
def key_separation(chk):
    summ.key_separation(chk, 'C12')


@common.part
def handle_event(chk):
    summ_event.handle_event_obligations(chk, 'C12')


def body(chk):
    kernels(chk)
    key_separation(chk)
    handle_event(chk)


if __name__ == '__main__':
    common.main('C12', body)
