"""Drivers of the one-attempt simulation for C02, C09, C10."""
import re
import time

from checks import common, attempt, events
from checks.common import Obligation

ORACLE_OF = {
    'C02': ['canonical-event-sequence', 'no-panic-escapes-the-attempt', 'reference-applicable'],
    # an escaped panic ends the attempt without its after hook and drops the World: the hook contract is broken there too
    'C09': ['world-threaded-through-hooks-and-steps', 'world-created-at-most-once-and-only-when-needed', 'no-panic-escapes-the-attempt', 'reference-applicable'],
    'C01': ['failed-events-say-retried-iff-the-attempt-is-retried', 'reference-applicable'],
    'C05': ['attempt-reported-failed-and-retried-correctly', 'no-panic-escapes-the-attempt', 'retry-delay-counted-from-the-end-of-the-attempt', 'reference-applicable'],
    'C03': ['attempt-reported-failed-and-retried-correctly', 'reference-applicable'],
    # fail-fast acts on the `failed` flag an attempt reports when it ends
    'C08': ['attempt-reported-failed-and-retried-correctly', 'no-panic-escapes-the-attempt', 'reference-applicable'],
    # "every scenario handed to the runner is attempted": whatever the scenario consists of, an attempt has its Started ..
    # Finished events, runs the steps there are and reports how it ended
    'C04': ['canonical-event-sequence', 'attempt-reported-failed-and-retried-correctly', 'reference-applicable'],
    # a retried @serial scenario stays serial: its next attempt is queued under the type it was dispatched as
    'C07': ['next-attempt-queued-under-the-type-it-was-dispatched-as', 'reference-applicable'],
    'C10': ['no-panic-escapes-the-attempt', 'failed-events-carry-the-payload', 'canonical-event-sequence', 'attempt-reported-failed-and-retried-correctly'],
}


def shapes(tier):
    S = attempt.Shape
    out = [S(fbg=0, rbg=0, steps=2, before=False, after=False), S(fbg=1, rbg=0, steps=1, before=True, after=True),
           S(fbg=0, rbg=1, steps=1, before=False, after=True, retries=(0, 1)), S(fbg=0, rbg=0, steps=0, before=True, after=True)]
    out.append(S(fbg=0, rbg=0, steps=1, before=False, after=True, retries=(0, 1), delay=True))
    # a feature background AND a rule background in front of the scenario's own step: the first step that does not pass
    # (wherever it sits) ends the steps of the attempt
    out.append(S(fbg=1, rbg=1, steps=1, before=False, after=False))
    # nothing of its own: only the rule's background makes the scenario do anything (no hooks, no feature background)
    out.append(S(fbg=0, rbg=1, steps=0, before=False, after=False))
    # dispatched as Serial, with a delayed and with an immediate retry
    out.append(S(fbg=0, rbg=0, steps=1, before=False, after=False, retries=(0, 1), delay=True, ty='Serial'))
    out.append(S(fbg=0, rbg=0, steps=1, before=False, after=False, retries=(0, 1), ty='Serial'))
    if tier == 'thorough':
        out += [S(fbg=1, rbg=1, steps=2, before=True, after=True, retries=(1, 0)), S(fbg=2, rbg=0, steps=2, before=False, after=True),
                S(fbg=0, rbg=0, steps=3, before=True, after=False, retries=(0, 2))]
    return out


@common.part
def run(chk, prop):
    ix = events.CukeIdx(chk.prog)
    names = ORACLE_OF[prop]
    obs = {}
    sh = shapes(chk.tier)
    pends = (0, 1) if chk.tier == 'thorough' else (0,)
    bound = 'the real run_scenario coroutine polled to completion for %d attempt shapes (feature/rule background steps, own steps, hooks present/absent, retries), user futures pending %s polls; per callback: pass / panic while polled / panic when called; World::new additionally Err; Collection::find an oracle per step (none / ambiguous / one)' % (len(sh), pends)

    def ob(name):
        if name not in obs:
            obs[name] = chk.add(Obligation('%s.attempt.%s' % (prop, name), bound))
            obs[name].verdict = 'holds'
        return obs[name]
    n = 0
    t0 = time.time()
    for shape in sh:
        for pend in pends:
            out, ex = attempt.simulate(chk, shape, pend=pend)
            for kind, res in out:
                n += 1
                if kind != 'ok':
                    o = ob('completes')
                    if kind == 'panic':
                        o.verdict = 'violated'
                    elif o.verdict != 'violated':
                        o.verdict = 'inconclusive'
                    o.detail = '%s: %s (shape %s)' % (kind, res, shape)
                    continue
                orc = attempt.oracles(shape, res, ix)
                for nm in names:
                    if nm not in orc:
                        continue
                    o = ob(nm)
                    o.paths += 1
                    if orc[nm] is not None:
                        if o.verdict != 'violated':
                            o.verdict = 'violated'
                            o.detail = '%s (shape %s)' % (orc[nm][:700], shape)
                            o.model = {'shape': repr(shape), 'timeline': [list(map(str, e)) for e in res['timeline']][:60]}
                            o.shape, o.res = shape, res
                            o.cands = []
                        # further violating paths (at most 2 per shape): a deviation may be observable natively only in
                        # some of them (e.g. a wrong `failed` flag shows only where a retry budget exists)
                        if len([c for c in o.cands if c[0] is shape]) < 2 and len(o.cands) < 10:
                            o.cands.append((shape, res, orc[nm]))
    for nm, o in obs.items():
        if o.verdict == 'violated' and hasattr(o, 'shape'):
            base = o.detail
            # shapes with a retry budget first for the retry decision
            cands = sorted(o.cands, key=lambda c: 0 if (c[0].retries is not None and nm.startswith('attempt-reported')) else 1)
            for shape, res, why in cands:
                o.verdict, o.shape, o.res = 'violated', shape, res
                o.detail = '%s (shape %s)' % (why[:700], shape)
                o.model = {'shape': repr(shape), 'timeline': [list(map(str, e)) for e in res['timeline']][:60]}
                confirm(chk, o, prop, nm)
                if o.verdict == 'violated':
                    break
    w = chk.add(Obligation('%s.attempt.witness' % prop, 'exploration'))
    w.kind = 'witness'
    w.verdict = 'witness-ok' if n >= 60 and names[0] in obs else 'witness-missing'
    w.detail = '%d paths over %d shapes in %.0fs' % (n, len(sh), time.time() - t0)
    chk.assumptions.append('one attempt: user code as model futures (pass / Err / panic while polled / panic when called), step::Collection::find replaced by an oracle per step (its correctness: C17), '
                           'panics are the exception UserPanic caught only by CatchUnwind::poll; event payloads compared by identity tags')
    return obs


@common.part
def run_pair(chk, prop):
    """Two attempts polled in turns on one thread (what execute() does with its in-flight set): whatever run_scenario does
    to the process panic hook must leave it as it found it, and a user panic must never meet the default hook."""
    import os
    from checks import replay
    pends = (1, 2) if chk.tier == 'thorough' else (1,)
    S = attempt.Shape
    shapes_ = [S(fbg=0, rbg=0, steps=1, before=False, after=False), S(fbg=0, rbg=0, steps=0, before=True, after=True)] + \
        ([S(fbg=0, rbg=0, steps=1, before=True, after=True)] if chk.tier == 'thorough' else [])
    o = chk.add(Obligation('%s.attempt-pair.panic-hook-left-as-found-under-interleaving' % prop,
                           'two real run_scenario coroutines of %d shape(s) polled in turns, user futures pending %s polls, every outcome (pass / panic when polled / panic when called), '
                           'World::new ok / Err / panic; panic hook automaton (original / default / silenced / taken-and-restored)' % (len(shapes_), pends)))
    o.verdict = 'holds'
    o2 = chk.add(Obligation('%s.attempt-pair.every-step-resolved-as-itself' % prop, o.bound))
    o2.verdict = 'holds'
    o3 = chk.add(Obligation('%s.attempt-pair.no-world-crosses-over-between-attempts' % prop, o.bound))
    o3.verdict = 'holds'
    n = 0
    for shape in shapes_:
        for pend in pends:
            out, ex = attempt.simulate(chk, shape, pend=pend, pair=True)
            for kind, res in out:
                n += 1
                if kind != 'ok':
                    if o.verdict != 'violated':
                        o.verdict = 'violated' if kind == 'panic' else 'inconclusive'
                        o.detail = '%s: %s' % (kind, res)
                    continue
                if res['escaped'] is not None:
                    continue        # judged by no-panic-escapes-the-attempt
                o.paths += 1
                # every step that got a result was looked up in the collection as ITSELF (its own keyword type): a result
                # without a lookup of that very step means a resolution made for another step was reused
                tl_ = res.get('timeline') or []
                asked = set(e_[1] for e_ in tl_ if e_[0] == 'find')
                got_res = [e_[2] for e_ in tl_ if e_[0] == 'ev' and len(e_) >= 4 and e_[1] in ('Step', 'Background') and e_[3] in ('Passed', 'Skipped', 'Failed')]
                reused = sorted(set(n_ for n_ in got_res if n_ not in asked))
                if reused and o2.verdict != 'violated':
                    o2.verdict = 'violated'
                    o2.detail = 'step(s) %s (same text as a step of the other scenario, keyword type of their own) got a result without being looked up in the step collection' % reused
                # no World crosses over: the after hook of a scenario gets the World that scenario's before hook was given
                seen = {}
                for e_ in tl_:
                    if e_[0] == 'call' and e_[1] in ('before', 'after') and len(e_) > 6:
                        seen.setdefault(e_[6], {})[e_[1]] = e_[2]
                for sc_, d_ in seen.items():
                    if 'before' in d_ and 'after' in d_ and d_['after'] != d_['before'] and o3.verdict != 'violated':
                        o3.verdict = 'violated'
                        o3.detail = 'the after hook of %s received World %s, its before hook had been given World %s (two attempts interleaved)' % (sc_, d_['after'], d_['before'])
                        o3.res, o3.shape = res, shape
                bad = None
                if res['hook_end'] != 'outer':
                    bad = 'after both attempts finished the process panic hook is %r, not the one that was in place when they started' % res['hook_end']
                for e in res['log']:
                    if e['kind'] == 'user_panics' and e.get('hook') not in ('outer', 'silenced'):
                        bad = bad or 'user code (%s) panicked while the process panic hook was %r' % (e['what'], e.get('hook'))
                if bad and o.verdict != 'violated':
                    o.verdict = 'violated'
                    o.detail = '%s (two attempts of shape %s interleaved, user futures pending %d poll(s))' % (bad, shape, pend)
    o.paths = n
    if o2.verdict == 'violated':
        confirm_reused_resolution(chk, o2, prop)
    if o3.verdict == 'violated':
        confirm_world_crossover(chk, o3, prop)
    if o.verdict == 'violated' and 'panic hook' in (o.detail or ''):
        # natively: two concurrent scenarios whose steps suspend, then a probe panic after the run must reach the hook
        # that was installed before it, and the run itself must not have called it
        lines = ['mode runner', 'hooks none', 'builder max_concurrent=2', 'feature', '| Feature: f', '|   Scenario: a', '|     Given sa', '|   Scenario: b', '|     Given sb',
                 'step sa yields=3 always_fail', 'step sb yields=5 always_fail', 'runs 1']
        d = os.path.join(common.EVID, 'replay')
        os.makedirs(d, exist_ok=True)
        path = os.path.join(d, '%s-attempt-pair-panic-hook.script' % prop)
        r, out = replay.run_script('\n'.join(lines) + '\n', path, timeout=60)
        chk.replays += 1
        m = re.search(r'LOG HOOK during_run=(\d+) probe_reached=(\d+)', out)
        if m is None:
            o.verdict = 'inconclusive'
            o.detail += ' | native replay failed: %s' % out[-200:]
        elif m.group(1) == '0' and m.group(2) == '1':
            o.verdict = 'inconclusive'
            o.detail += ' | not reproduced natively (two interleaved failing scenarios: the hook was not called during the run and is back afterwards)'
        else:
            chk.replay_files.append(path)
            o.replay = path
            o.detail += ' | reproduced natively through the real runner: two interleaved failing scenarios, the pre-installed hook was called %s time(s) during the run and a probe panic after the run reached it %s time(s) (expected 0 and 1)' % (m.group(1), m.group(2))
    return o


def confirm_world_crossover(chk, o, prop):
    """native: two scenarios in flight whose before hooks panic (after their Worlds were created): each after hook must get
    the World of its own scenario"""
    import os
    from checks import replay
    lines = ['mode runner', 'hooks both', 'builder max_concurrent=2', 'feature', '| Feature: f', '|   Scenario: a', '|     Given sa', '|   Scenario: b', '|     Given sb',
             'hook before a always_fail', 'hook before b always_fail', 'hook after a yields=0', 'hook after b yields=0']
    d = os.path.join(common.EVID, 'replay')
    os.makedirs(d, exist_ok=True)
    path = os.path.join(d, '%s-attempt-pair-world-crossover.script' % prop)
    r, out = replay.run_script('\n'.join(lines) + '\n', path, timeout=60)
    chk.replays += 1
    bw = dict(re.findall(r'LOG enter before_hook \[before:(\w+)\] call=\d+ world=(w\d+)', out))
    aw = dict(re.findall(r'LOG enter after_hook \[after:(\w+)\] call=\d+ world=(w\d+)', out))
    if r is None or not bw:
        o.verdict = 'inconclusive'
        o.detail += ' | native replay failed: %s' % out[-200:]
    elif any(aw.get(k_) != v_ for k_, v_ in bw.items()):
        chk.replay_files.append(path)
        o.replay = path
        o.detail += ' | reproduced natively through the real runner (two scenarios in flight, both before hooks panic): before hooks got %s, after hooks got %s' % (bw, aw)
    else:
        o.verdict = 'inconclusive'
        o.detail += ' | not reproduced natively (each after hook received the World of its own scenario: %s)' % aw


def confirm_reused_resolution(chk, o, prop):
    """A step resolved without asking the collection about it: natively, the same raw keyword + text under two different
    step types (`And dup` after a Given and after a Then), defined for Given steps only - the second one must be Skipped."""
    import os
    from checks import replay
    lines = ['mode runner', 'hooks none', 'builder max_concurrent=1', 'feature', '| Feature: f', '|   Scenario: s', '|     Given first', '|     And dup',
             '|     Then third', '|     And dup', 'given_only dup']
    d = os.path.join(common.EVID, 'replay')
    os.makedirs(d, exist_ok=True)
    path = os.path.join(d, '%s-attempt-step-resolution-per-step.script' % prop)
    r, out = replay.run_script('\n'.join(lines) + '\n', path, timeout=60)
    chk.replays += 1
    evs = [ln[7:].rsplit(' t=', 1)[0] for ln in out.splitlines() if ln.startswith('LOG EV ') and ':step[dup]:' in ln and ':started' not in ln]
    if r is None or len(evs) != 2:
        o.verdict = 'inconclusive'
        o.detail += ' | native replay failed: %s' % out[-200:]
    elif ':passed' in evs[0] and ':skipped' in evs[1]:
        # the other direction, across scenarios: the text is looked up as a Then step first (undefined there: Skipped), then
        # as a Given step in the next scenario (defined: Passed)
        lines2 = ['mode runner', 'hooks none', 'builder max_concurrent=1', 'feature', '| Feature: f', '|   Scenario: s', '|     Then dup',
                  '|   Scenario: s2', '|     Given dup', 'given_only dup']
        path2 = os.path.join(d, '%s-attempt-step-resolution-per-step-2.script' % prop)
        r2, out2 = replay.run_script('\n'.join(lines2) + '\n', path2, timeout=60)
        chk.replays += 1
        evs2 = [ln[7:].rsplit(' t=', 1)[0] for ln in out2.splitlines() if ln.startswith('LOG EV ') and ':step[dup]:' in ln and ':started' not in ln]
        if r2 is not None and len(evs2) == 2 and not (':skipped' in evs2[0] and ':passed' in evs2[1]):
            chk.replay_files.append(path2)
            o.replay = path2
            o.detail += ' | reproduced natively through the real runner: `Then dup` (no Then definition) then, in the next scenario, `Given dup` (defined for Given) gives %s' % evs2
        else:
            o.verdict = 'inconclusive'
            o.detail += ' | not reproduced natively (a text defined for Given only is Passed as a Given step and Skipped as a Then step, in either order)'
    else:
        chk.replay_files.append(path)
        o.replay = path
        o.detail += ' | reproduced natively through the real runner: `And dup` as a Given step then as a Then step (defined for Given only) gives %s' % evs


def confirm_requeue_type(chk, o, prop):
    """native: a @serial scenario and a concurrent one both fail once and are retried (with / without a delay) while a third
    scenario keeps the runner busy; when it ends both retries are ready: the serial one must still run alone"""
    import os
    import re
    from checks import replay
    d = os.path.join(common.EVID, 'replay')
    os.makedirs(d, exist_ok=True)
    devs = []
    for tag, after in (('delayed', '.after(30ms)'), ('immediate', '')):
        lines = ['mode runner', 'hooks none', 'builder max_concurrent=4', 'feature', '| Feature: f', '|   @serial @retry(1)%s' % after, '|   Scenario: x', '|     Given sx',
                 '|   @retry(1)%s' % after, '|   Scenario: y', '|     Given sy', '|   Scenario: long', '|     Given sl',
                 'step sx fail_first=1 yields=6', 'step sy fail_first=1 yields=6', 'step sl busy_ms=300 yields=2']
        path = os.path.join(d, '%s-requeue-type-%s.script' % (prop, tag))
        res, out = replay.run_script('\n'.join(lines) + '\n', path, timeout=60)
        chk.replays += 1
        evs = [ln[7:].rsplit(' t=', 1)[0] for ln in out.splitlines() if ln.startswith('LOG EV ')]
        xs = [i for i, e in enumerate(evs) if ':scenario[x]:started' in e]
        xf = [i for i, e in enumerate(evs) if ':scenario[x]:finished' in e]
        if res is None or len(xs) < 2 or len(xf) < 2:
            continue
        a, b = xs[1], xf[1]
        between = [e for e in evs[a:b] if re.search(r':scenario\[(y|long)\]:', e)]
        running = [n for n in ('y', 'long') if sum(1 for e in evs[:a] if ':scenario[%s]:started' % n in e) > sum(1 for e in evs[:a] if ':scenario[%s]:finished' % n in e)]
        if between or running:
            devs.append((path, '%s retry of the @serial scenario x: %s' % (tag, ('events of other scenarios inside its attempt: %s' % between[:2]) if between else ('%s still running when it starts' % running))))
    if devs:
        chk.replay_files.append(devs[0][0])
        o.replay = devs[0][0]
        o.detail += ' | reproduced natively through the real runner: %s' % devs[0][1]
    else:
        o.verdict = 'inconclusive'
        o.detail += ' | not reproduced natively (the retried @serial scenario runs alone)'


def confirm(chk, o, prop, name):
    """Native replay through the real runner (driver mode `runner`) of the violating shape and outcome choices."""
    import os
    import re
    from checks import replay
    if 'without consulting the step collection' in (o.detail or ''):
        return confirm_reused_resolution(chk, o, prop)
    if name == 'next-attempt-queued-under-the-type-it-was-dispatched-as':
        return confirm_requeue_type(chk, o, prop)
    shape, res = o.shape, o.res
    tl = res['timeline']
    hows = {}
    for e in tl:
        if e[0] == 'call':
            hows.setdefault(e[1], e[5])
    finds = {e[1]: e[2] for e in tl if e[0] == 'find'}
    wn = [e[1] for e in tl if e[0] == 'world_new']
    lines = ['hooks %s' % ('both' if shape.before and shape.after else 'before' if shape.before else 'after' if shape.after else 'none'), 'builder max_concurrent=1']
    lines += ['feature', '| Feature: f']
    if shape.fbg:
        lines += ['|   Background:'] + ['|     Given fb%d' % i for i in range(shape.fbg)]
    ind = '  '
    if shape.rule:
        lines += ['|   Rule: r']
        ind = '    '
        if shape.rbg:
            lines += ['|     Background:'] + ['|       Given rb%d' % i for i in range(shape.rbg)]
    if shape.retries is not None:
        lines += ['| %s@retry(%d)%s' % (ind, shape.retries[0] + shape.retries[1], '.after(300ms)' if getattr(shape, 'delay', False) else '')]
    lines += ['| %sScenario: s' % ind] + ['| %s  Given s%d' % (ind, i) for i in range(shape.steps)]
    if name == 'attempt-reported-failed-and-retried-correctly':
        # the `failed` flag of the finished-notification is what fail-fast acts on: a second scenario queued behind this one
        # (limit 1, fail-fast on) must not start after a final failure
        lines[1] = 'builder max_concurrent=1 fail_fast=1'
        lines += ['| %sScenario: zz' % ind, '| %s  Given zstep' % ind]
    unsupported = []
    # callbacks whose panic payload has to be neither String nor &str for the deviation to show
    custom = set()
    for e in tl:
        if e[0] == 'ev':
            for x in e:
                if isinstance(x, str) and x.startswith('Box<dyn Any> around '):
                    custom.add(x[len('Box<dyn Any> around '):])
    for n_ in shape.step_names():
        f = finds.get(n_)
        if f == 'none':
            lines.append('nomatch %s' % n_)
        elif f == 'ambiguous':
            lines.append('ambiguous %s' % n_)
        h = hows.get(n_)
        if h in ('panic', 'eager_panic'):
            lines.append('step %s always_fail%s%s' % (n_, ' eager' if h == 'eager_panic' else '', ' payload=custom' if n_ in custom else ''))
    slow_after = name == 'retry-delay-counted-from-the-end-of-the-attempt'
    if slow_after:
        lines.append('hook after * busy_ms=600')          # the after hook of every attempt takes longer than the delay
    for hk in ('before', 'after'):
        h = hows.get(hk)
        if slow_after and hk == 'after':
            continue
        if h in ('panic', 'eager_panic'):
            lines.append('hook %s * always_fail%s%s' % (hk, ' eager' if h == 'eager_panic' else '', ' payload=custom' if hk in custom else ''))
    if any(k != 'ok' for k in wn):
        lines.append('world_new %s' % wn[0])
    d = os.path.join(common.EVID, 'replay')
    os.makedirs(d, exist_ok=True)
    path = os.path.join(d, '%s-attempt-%s.script' % (prop, re.sub(r'[^a-z0-9]+', '-', name)))
    r, out = replay.run_script('\n'.join(['mode runner'] + lines) + '\n', path, timeout=60)
    chk.replays += 1
    if r is None and 'panicked' not in out and 'RESULT' not in out:
        o.verdict = 'inconclusive'
        o.detail += ' | native replay failed: %s' % out[-300:]
        return
    evs = [ln[7:].rsplit(' t=', 1)[0] for ln in out.splitlines() if ln.startswith('LOG EV ')]
    escaped = r is None or r.get('escaped') or not r.get('stream_ended', False)
    problems = []
    if name == 'no-panic-escapes-the-attempt' or escaped:
        if escaped:
            problems.append('the panic escaped the real run (no run-Finished / driver aborted): %s' % out.strip().splitlines()[-1][:200])
    sc = [e for e in evs if ':scenario[s]:' in e]
    if not escaped:
        if not sc or not sc[-1].endswith('finished r=%s' % ('-' if shape.retries is None else '')) and 'finished' not in sc[-1]:
            problems.append('no Scenario::Finished as last event of the attempt')
        logs = [ln for ln in out.splitlines() if ln.startswith('LOG ')]
        if 'hook is set, but' in (o.detail or ''):
            # hooks that are set are reached: natively the driver's hooks log when they are entered
            for hk_, has in (('before', shape.before), ('after', shape.after)):
                n_att = len([e for e in sc if re.search(r':started r=', e) and ':step[' not in e and ':bg[' not in e and ':hook:' not in e])
                n_hk = len([ln for ln in logs if 'enter %s_hook' % hk_ in ln])
                if has and n_att and n_hk < n_att:
                    problems.append('a %s hook is set: it was entered %d time(s) in %d attempt(s) of the scenario' % (hk_, n_hk, n_att))
        if name.startswith('world-'):
            aft = [ln for ln in logs if 'enter after_hook' in ln]
            steps_w = set(re.findall(r'enter (?:step|before_hook) \[[^\]]*\] call=\d+ world=(w\d+)', '\n'.join(logs)))
            if aft and steps_w and not any(('world=' + w + ' ') in aft[0] for w in steps_w):
                problems.append('the after hook did not receive the World the steps used (%s): %s' % (sorted(steps_w), aft[0][:160]))
            # the reason handed to the after hook
            from checks import events as _ev
            ix_ = _ev.CukeIdx(chk.prog)
            try:
                refd = attempt.reference(shape, tl, ix_)
            except (KeyError, IndexError):
                refd = {'calls': []}          # the path lacks choices the reference needs (judged above)
            want_reason = [c[3] for c in refd['calls'] if c[0] == 'after']
            got_reason = re.findall(r'LOG after_hook_reason \[s\] (\w+)', out)
            rtag2 = None if shape.retries is None else shape.retries[0]
            if want_reason and got_reason:
                names_ = {attempt.ix_reason(ix_, n): n for n in ('BeforeHookFailed', 'StepPassed', 'StepSkipped', 'StepFailed')}
                k_ = min(rtag2 or 0, len(got_reason) - 1)
                if names_.get(want_reason[0]) != got_reason[k_]:
                    problems.append('the after hook was told %s, the attempt really finished as %s' % (got_reason[k_], names_.get(want_reason[0])))
            created = len(re.findall(r'LOG world_new w\d+', out))
            if created > 1:
                problems.append('%d Worlds created in one attempt' % created)
        if name == 'retry-delay-counted-from-the-end-of-the-attempt':
            ends = [int(x) for x in re.findall(r'LOG exit after_hook \[[^\]]*\] call=1 \w+ t=(\d+)', out)]
            nxt = [int(x) for x in re.findall(r'LOG EV \S*:scenario\[s\]:started r=1/\d+ t=(\d+)', out)]
            if ends and nxt and nxt[0] - ends[0] < 290:
                problems.append('the retried attempt started %d ms after the failed attempt (its after hook) ended, the delay is 300 ms' % (nxt[0] - ends[0]))
        if name == 'failed-events-carry-the-payload':
            lost = [e for e in sc if '+unknown-type' in e]
            if lost:
                problems.append('a panic with a payload that is neither String nor &str: the Failed event\'s Info does not downcast to the payload\'s type: %s' % lost[0])
        if name == 'canonical-event-sequence':
            # the real attempt's events (those of the attempt whose retry counters are the shape's) against the canonical sequence
            from checks import events as _events
            try:
                ref = attempt.reference(shape, tl, _events.CukeIdx(chk.prog))
            except (KeyError, IndexError):
                ref = None
            rtag = ' r=%s' % ('-' if shape.retries is None else '%d/%d' % tuple(shape.retries))

            def native_name(e):
                if e[1] in ('Started', 'Finished'):
                    return e[1].lower()
                if e[1] == 'Hook':
                    return 'hook:%s:%s' % (e[2], e[3].lower())
                k = 'bg' if e[1] == 'Background' else 'step'
                if e[3] == 'Failed':
                    return '%s[%s]:failed:%s' % (k, e[2], {'NotFound': 'notfound', 'AmbiguousMatch': 'ambiguous', 'Panic': 'panic'}[e[5]])
                return '%s[%s]:%s' % (k, e[2], e[3].lower())
            want = [native_name(e) for e in ref['events']] if ref is not None else None
            got = [e.split(':scenario[s]:', 1)[1][:-len(rtag)].replace('+custom', '').replace('+unknown-type', '') for e in sc if e.endswith(rtag)]
            if want is not None and got != want:
                problems.append('the real attempt emits %s, canonical sequence %s' % (got, want))
        if name == 'failed-events-say-retried-iff-the-attempt-is-retried':
            # the last attempt that ran is final: its failure events must not announce a further retry
            att = [re.search(r' r=(\S+)$', e).group(1) for e in sc if re.search(r':started r=', e) and ':step[' not in e and ':bg[' not in e and ':hook:' not in e]
            if att:
                last = att[-1]
                for e in sc:
                    m_ = re.search(r':failed.* r=(\d+)/(\d+)$', e)
                    if m_ and e.endswith('r=' + last) and int(m_.group(2)) > 0 and ':failed:notfound' not in e:
                        problems.append('the last attempt that ran (r=%s) reports a failure with %s retries left: writers count it as retried, the run is not failed: %s' % (last, m_.group(2), e))
                # and the other way round: a failure in an attempt that IS followed by another one must announce it (retries left > 0),
                # else writers count it as a final failure and the run is failed although the scenario may pass its retry
                starts = [i_ for i_, e in enumerate(sc) if re.search(r':started r=', e) and ':step[' not in e and ':bg[' not in e and ':hook:' not in e]
                if len(starts) > 1:
                    for e in sc[:starts[-1]]:
                        m_ = re.search(r':failed.* r=(-|\d+/(\d+))$', e)
                        if m_ and ':failed:notfound' not in e and (m_.group(1) == '-' or int(m_.group(2)) == 0):
                            problems.append('a failure in an attempt that is followed by another one says it is final (r=%s): writers count it as failed: %s' % (m_.group(1), e))
        if name == 'attempt-reported-failed-and-retried-correctly':
            # scripted failures repeat in every attempt: an attempt with a Failed event (step or hook) and budget left
            # must be followed by the next attempt, so a budget of N gives N+1 attempts; without a failure exactly one
            budget = 0 if shape.retries is None else shape.retries[0] + shape.retries[1]
            started = [e for e in sc if re.search(r':started r=', e) and ':step[' not in e and ':bg[' not in e and ':hook:' not in e]
            failed0 = any(':failed' in e for e in sc)
            want = budget + 1 if failed0 else 1
            if len(started) != want:
                problems.append('%d attempt(s) ran; a scenario whose attempts %s and whose budget is %d has %d' % (len(started), 'fail' if failed0 else 'do not fail', budget, want))
            zz = [e for e in evs if ':scenario[zz]:started' in e]
            if failed0 and zz:
                problems.append('the last attempt of `s` has a Failed event, yet with fail-fast on and a limit of 1 the scenario queued behind it was still started (the attempt was not reported as failed)')
            if not failed0 and not zz and len(started) == want:
                problems.append('no attempt of `s` failed, yet with fail-fast on the scenario queued behind it never started (the attempt was reported as failed)')
    if problems:
        chk.replay_files.append(path)
        o.replay = path
        o.detail += ' | reproduced natively through the real runner: %s' % '; '.join(problems)
    else:
        o.verdict = 'inconclusive'
        o.detail += ' | not reproduced natively%s' % (' (%s not scriptable)' % unsupported if unsupported else '')
