"""C08 - fail-fast stops dispatching after the first final failure, yet closes cleanly."""
from checks import common, sched, run_prefix, ingest, sched_worlds, c03


def body(chk):
    run_prefix.obligations(chk, 'C08', which=('fail_fast',))
    ingest.obligations(chk, 'C08')
    sched_worlds.run(chk, 'C08')
    # what execute() acts on: every kind of final failure (step, hook, World) is reported as failed by the attempt
    from checks import attempt_driver
    attempt_driver.run(chk, 'C08')
    # what closes the run after fail-fast cut it short: every bracket still open gets its Finished
    c03.finish_all(chk, 'C08')
    # CLI options installed through Cucumber::with_cli() survive the builder methods called afterwards
    from checks import cucumber_builders
    cucumber_builders.obligations(chk, 'C08')
    from checks import runner_builders
    runner_builders.obligations(chk, 'C08', fields=('fail_fast',))


if __name__ == '__main__':
    common.main('C08', body)
