"""C08 - fail-fast stops dispatching after the first final failure, yet closes cleanly."""
from checks import common, sched, run_prefix, ingest, sched_worlds


def body(chk):
    run_prefix.obligations(chk, 'C08', which=('fail_fast',))
    ingest.obligations(chk, 'C08')
    sched_worlds.run(chk, 'C08')


if __name__ == '__main__':
    common.main('C08', body)
