"""`Cucumber` builder methods keep the CLI options that were installed before them (C06, C08, C15, C18).

`Cucumber::with_cli(opts)` stores the options the run is going to use instead of parsing the command line: the name / tags
filter (C15), `--concurrency` (C06), `--fail-fast` (C08), `--retry*` (C18).  Every builder method called afterwards takes
the `Cucumber` by value and re-assembles it: the obligation is that the `cli` field of what it returns is the value it
received.  Methods that replace a component whose own CLI type is part of the options' type (`with_parser`, `with_runner`,
`with_writer`), the constructor and `with_cli` / `with_default_cli` themselves are exempt - they cannot / are meant not to
carry the old options over.

Each method body is executed on a `Cucumber` with opaque components; callees on the components (`runner.after(f)`,
`writer.repeat_failed()`, ...) are uninterpreted - only the re-assembly is under test here.
"""
import os
import re

from checks import common
from checks.common import Obligation
from mirsmt.values import Cell, Lazy, Adt, Ref, Obj, bv
from mirsmt.interp import Inconclusive

EXEMPT = ('custom', 'new', 'with_parser', 'with_runner', 'with_writer', 'with_cli', 'with_default_cli')
# what the native driver (mode `builders`) knows how to call
NATIVE = ('max_concurrent_scenarios', 'retries', 'fail_fast', 'retry_after', 'retry_filter', 'which_scenario', 'retry_options', 'before', 'after', 'steps',
          'given', 'when', 'then', 'repeat_skipped', 'repeat_failed', 'repeat_if', 'fail_on_skipped', 'fail_on_skipped_with')


class _ComponentCallees:
    """callee keys that belong to the components of a Cucumber (everything crate-local that is not `Cucumber` itself)"""

    def __init__(self, prog):
        self.names = set(st for (st, m) in prog.by_method if st and st != 'Cucumber')
        self.names |= {'WriterExt', 'Writer', 'Runner', 'Parser', 'Ext'}
        self.extra = set()

    def __contains__(self, key):
        return key in self.extra or key.split('::')[0] in self.names

    def __ior__(self, other):
        self.extra |= set(other)
        return self

    def __iter__(self):
        return iter(sorted(self.extra))


def public_fns():
    from mirsmt import frontend
    src = open(os.path.join(frontend.REPO, 'src', 'cucumber.rs')).read()
    return set(re.findall(r'\bpub\s+(?:const\s+)?(?:async\s+)?fn\s+(\w+)', src))


def builder_methods(prog):
    out = []
    pub = public_fns()
    for (st, m), lst in prog.by_method.items():
        if st != 'Cucumber' or m in EXEMPT or m not in pub:
            continue
        for tr, b in lst:
            if tr is not None or not b.params:
                continue
            p0 = b.params[0][1].strip()
            rt = (b.ret_type or '').strip()
            if p0.startswith('cucumber::Cucumber<') and 'cucumber::Cucumber<' in rt and not rt.startswith('{'):
                out.append((m, b))
    return sorted(out, key=lambda x: x[0])


@common.part
def obligations(chk, prop):
    prog = chk.prog
    CF = prog.tables.struct_fields('cucumber::Cucumber')
    if not isinstance(CF, list) or 'cli' not in CF:
        raise Inconclusive('struct cucumber::Cucumber / its field `cli` not found')
    meths = builder_methods(prog)
    o = chk.add(Obligation('%s.cucumber-builders-keep-the-cli-options' % prop,
                           'every path of the %d builder methods of `Cucumber` that take it by value (%s); components opaque, `cli` = Some(arbitrary options) and None'
                           % (len(meths), ', '.join(m for m, _ in meths))))
    o.verdict = 'holds'
    bad = []
    for name, body in meths:
        for present in (1, 0):
            ex, M = chk.new_exec(loop_bound=6)
            M.opaque_bodies = _ComponentCallees(prog)
            M.opaque_fn_hook = lambda ex_, f, args, dty, info: Lazy(dty or '?', 'havoc!fnvalue!%d' % len(ex_.env.setdefault('fnv', [])) if not ex_.env.setdefault('fnv', []).append(1) else '?')
            holder = {}

            def run(ex_, body=body, present=present, holder=holder, M=M):
                opts = Lazy('cli::Opts<..>', 'installed.opts')
                cli = Adt('Option<cli::Opts<..>>', {(1, 0): opts}, present)
                fields = {(None, i): Lazy('?', 'self.%s' % n) for i, n in enumerate(CF)}
                fields[(None, CF.index('cli'))] = cli
                holder['cli'] = cli
                selfv = Adt(body.params[0][1].strip(), fields)
                args = [selfv] + [Lazy(pty, 'arg.%s' % loc) for (loc, pty) in body.params[1:]]
                return ex_.materialize(ex_.call_body(body, args))

            def on_end(ex_, rec, name=name, present=present, holder=holder, M=M):
                kind, res, pc, dec = rec
                o.paths += 1
                if kind != 'ok':
                    if o.verdict == 'holds':
                        o.verdict = 'inconclusive'
                        o.detail = '%s: %s: %s' % (name, kind, res)
                    return
                v = res
                if isinstance(v, Adt) and v.discr is not None:
                    # Result<Cucumber, E>: only the Ok value is a Cucumber
                    if not ex_.check(M.discr(ex_, v) == bv(0)):
                        return
                    ex_.add(M.discr(ex_, v) == bv(0))
                    v = ex_.materialize(ex_.field_of(v, 0, 0, 'cucumber::Cucumber'))
                got = ex_.materialize(ex_.field_of(v, None, CF.index('cli'), 'Option<cli::Opts<..>>'))
                o.queries += 1
                if not common.same_value(ex_, got, holder['cli']):
                    bad.append((name, present, common.explain_diff(ex_, got, holder['cli']) if hasattr(common, 'explain_diff') else ''))
            ex.explore(run, on_end)
    if bad and o.verdict != 'inconclusive':
        o.verdict = 'violated'
        names = sorted(set(b[0] for b in bad))
        o.detail = 'the Cucumber returned by %s does not carry the CLI options it was given (%s)' % (', '.join(names), bad[0][2][:200])
        o.model = {'methods': names}
        confirm(chk, o, prop, names)
    w = chk.add(Obligation('%s.cucumber-builders.witness' % prop, 'exploration'))
    w.kind = 'witness'
    w.verdict = 'witness-ok' if len(meths) >= 10 and o.paths >= 2 * len(meths) else 'witness-missing'
    w.detail = '%d builder methods, %d paths' % (len(meths), o.paths)
    chk.assumptions.append('Cucumber builder methods: callees on the parser / runner / writer components are uninterpreted (only the re-assembly of the Cucumber is decided); '
                           'exempt by design: %s' % ', '.join(EXEMPT))
    return o


def confirm(chk, o, prop, names):
    """native: the real `Cucumber` with `--name wip` installed through with_cli(), then the builder method, then a run with
    the real parser-less pipeline: only the scenario named `wip` may start"""
    from checks import replay
    d = os.path.join(common.EVID, 'replay')
    os.makedirs(d, exist_ok=True)
    todo = [n for n in names if n in NATIVE]
    if not todo:
        o.verdict = 'inconclusive'
        o.detail += ' | no native case for %s' % names
        return
    path = os.path.join(d, '%s-cucumber-builders.script' % prop)
    import subprocess
    with open(path, 'w') as f:
        f.write('\n'.join(['mode builders'] + ['method %s' % n for n in todo]) + '\n')
    try:
        # no command-line arguments: a Cucumber that lost its options parses the process command line instead
        pr = subprocess.run([replay.build('dev')], env=dict(os.environ, CUKE_REPLAY_SCRIPT=path), stdout=subprocess.PIPE, stderr=subprocess.STDOUT, text=True, timeout=120)
        out = pr.stdout
    except subprocess.TimeoutExpired:
        out = 'timeout'
    chk.replays += 1
    got = dict(re.findall(r'CASE (\w+) started=(\S*)', out))
    base = got.get('none')
    if base != 'wip' or any(n not in got for n in todo):
        o.verdict = 'inconclusive'
        o.detail += ' | native replay failed or its baseline is off: %s' % out[-300:]
        return
    dev = [n for n in todo if got[n] != 'wip']
    if dev:
        chk.replay_files.append(path)
        o.replay = path
        o.detail += ' | reproduced natively: with `--name wip` installed through with_cli(), after .%s(..) the run started scenarios [%s] (without the call: [wip])' % (dev[0], got[dev[0]])
    else:
        o.verdict = 'inconclusive'
        o.detail += ' | not reproduced natively (the name filter still applies after %s)' % ', '.join(todo)
