"""C05 - retries: re-run exactly on failure within budget, fresh, sequential, delayed.

Kernels decided on the MIR (all 64-bit values):
  Retries::initial / next_try, RetryOptions::next_try, with_deadline, without_deadline,
  From<RetryOptionsWithDeadline>, RetryOptionsWithDeadline::left_until_retry (clock symbolic),
  Features::insert_scenarios (deadline only for current > 0, retried entries to the queue front),
  Features::get (entries whose delay has not elapsed are withheld, minimum wait reported).
"""
import z3

from checks import common, sched
from checks.common import Obligation
from mirsmt.values import Cell, Lazy, Adt, Ref, bv
from mirsmt.interp import Inconclusive, PathEnd

BV = z3.BitVecSort(64)


@common.part
def simple(chk, name, bound, body, mkargs, claim, models=None):
    """Explore `body` on mkargs(ex); on every path `claim(ex, kind, result)` -> z3 Bool that must hold."""
    o = chk.add(Obligation(name, bound))
    o.verdict = 'holds'
    ex, M = chk.new_exec(loop_bound=6)
    if models:
        models(M)

    def run(ex_):
        return ex_.call_body(body, mkargs(ex_, M))

    def on_end(ex_, rec):
        kind, res, pc, dec = rec
        o.paths += 1
        if kind not in ('ok', 'panic'):
            o.verdict = 'inconclusive'
            o.detail = '%s: %s' % (kind, res)
            return
        c = claim(ex_, M, kind, res)
        o.queries += 1
        if ex_.check(z3.Not(c)):
            if o.verdict != 'violated':
                o.verdict = 'violated'
                m = ex_.solver.model()
                o.model = {str(d): str(m[d]) for d in m.decls() if not str(d).startswith('k!')}
                o.detail = 'counterexample (%s path)' % kind
    ex.explore(run, on_end)
    if o.verdict == 'violated':
        confirm_native(chk, o)
    return o


_native = {}


def confirm_native(chk, o):
    """In-crate differential replay of the retry arithmetic kernels: the real private functions are evaluated on the
    counterexample's values plus a small grid and compared with the specification."""
    import os
    from checks import incrate
    if 'res' not in _native:
        pts = []
        m = o.model or {}

        def g(k, d=0):
            try:
                return int(m.get(k, d))
            except (TypeError, ValueError):
                return d
        cand = [(g('current'), g('left'))] + [(c, l) for c in (0, 1, 7, (1 << 64) - 2) for l in (0, 1, 2, (1 << 64) - 1)]
        code = ['    #[test]', '    fn verif_replay() {', '        use std::time::{Duration, Instant};']
        for (c, l) in cand:
            for after in (None, 50_000_000, 3_000_000_000):
                a = 'None' if after is None else 'Some(Duration::from_nanos(%d))' % after
                code.append('        {{ let ro = RetryOptions {{ retries: Retries {{ current: {c}, left: {l} }}, after: {a} }};'.format(c=c, l=l, a=a))
                code.append('          let n = std::panic::catch_unwind(|| ro.retries.next_try());')
                code.append('          let (nd, nc, nl) = match n { Ok(Some(r)) => (1, r.current, r.left), Ok(None) => (0, 0, 0), Err(_) => (2, 0, 0) };')
                code.append('          let n2 = std::panic::catch_unwind(|| ro.next_try());')
                code.append('          let (md, mc, ml, ma) = match n2 { Ok(Some(r)) => (1, r.retries.current, r.retries.left, r.after.map_or(-1i128, |d| d.as_nanos() as i128)), Ok(None) => (0, 0, 0, -1), Err(_) => (2, 0, 0, -1) };')
                code.append('          let now = Instant::now();')
                code.append('          let wd = ro.with_deadline(now); let wo = ro.without_deadline();')
                code.append('          let wd_ok = wd.retries == ro.retries && wd.after.map(|(d, i)| (d, i == Some(now))) == ro.after.map(|d| (d, true));')
                code.append('          let wo_ok = wo.retries == ro.retries && wo.after.map(|(d, i)| (d, i.is_none())) == ro.after.map(|d| (d, true));')
                code.append('          let back: RetryOptions = wd.into(); let from_ok = back == ro;')
                code.append('          let init = Retries::initial({l}); let init_ok = init.current == 0 && init.left == {l};'.format(l=l))
                code.append('          let lu_fresh = wd.left_until_retry(); let lu_none = wo.left_until_retry();')
                code.append('          let old = RetryOptionsWithDeadline { retries: ro.retries, after: ro.after.map(|d| (d, now.checked_sub(d + Duration::from_millis(5)))) };')
                code.append('          let lu_old = old.left_until_retry();')
                code.append('          println!("RESULT c={c} l={l} after={an} nd={{}} nc={{}} nl={{}} md={{}} mc={{}} ml={{}} ma={{}} wd_ok={{}} wo_ok={{}} from_ok={{}} init_ok={{}} lu_fresh={{}} lu_none={{}} lu_old={{}}", nd, nc, nl, md, mc, ml, ma, wd_ok, wo_ok, from_ok, init_ok, lu_fresh.map_or(-1i128, |d| d.as_nanos() as i128), lu_none.is_some(), lu_old.is_some()); }}'.format(c=c, l=l, an=-1 if after is None else after))
        code.append('    }')
        res, out = incrate.run('src/runner/basic.rs', '\n'.join(code))
        chk.replays += 1
        devs = []
        for r in res:
            c, l, after = r['c'], r['l'], r['after']
            exp_d = 1 if l > 0 else 0
            if l > 0 and c == (1 << 64) - 1:
                exp_d = 2
            bad = []
            if r['nd'] != exp_d or (exp_d == 1 and (r['nc'], r['nl']) != (c + 1, l - 1)):
                bad.append('Retries::next_try')
            if r['md'] != exp_d or (exp_d == 1 and (r['mc'], r['ml'], r['ma']) != (c + 1, l - 1, after)):
                bad.append('RetryOptions::next_try')
            if not r['wd_ok']:
                bad.append('with_deadline')
            if not r['wo_ok']:
                bad.append('without_deadline')
            if not r['from_ok']:
                bad.append('From')
            if not r['init_ok']:
                bad.append('initial')
            if r['lu_none'] or r['lu_old'] or (after == -1) != (r['lu_fresh'] == -1) or (after != -1 and not (0 <= r['lu_fresh'] <= after)):
                bad.append('left_until_retry')
            if bad:
                devs.append((bad, r))
        _native['res'] = (devs, len(res), out)
    devs, n, out = _native['res']
    d = os.path.join(common.EVID, 'replay')
    os.makedirs(d, exist_ok=True)
    path = os.path.join(d, 'C05-retry-arithmetic.txt')
    if n == 0:
        o.verdict = 'inconclusive'
        o.detail += ' | in-crate replay did not run: %s' % out[-400:]
        return
    if devs:
        with open(path, 'w') as f:
            for bad, r in devs[:20]:
                f.write('%s deviates from the specification on %s\n' % (bad, r))
        chk.replay_files.append(path)
        o.replay = path
        o.detail += ' | reproduced natively (in-crate differential replay, %d points): %s deviates, e.g. %s' % (n, sorted({b for bb, _ in devs for b in bb}), devs[0][1])
    else:
        o.verdict = 'inconclusive'
        o.detail += ' | in-crate replay on %d points follows the specification - counterexample not reproduced' % n


def fld(ex, v, idx, ty='usize'):
    return ex.materialize(ex.field_of(ex.materialize(v), None, idx, ty), ty)


@common.part
def round_trip(chk, prog, ro_v, wf, fld, R, RO, cur, left, after_d, dur, now, from_body, prop='C05'):
    """Whatever RetryOptionsWithDeadline stores: (1) converting the options of a queued entry back (what Features::get does
    when it hands the entry out, at any later clock reading) gives the configured budget and the configured DELAY again, so
    that the next retry waits as long as this one; (2) an entry re-queued at `now` with delay d reports `left_until_retry`
    = None only when at least d has passed, Some(x) only with x = d - elapsed; an entry that is not a retry never waits."""
    wd_b = common.find_method(prog, 'RetryOptions', 'with_deadline')
    wo_b = common.find_method(prog, 'RetryOptions', 'without_deadline')
    lu_b = common.find_method(prog, 'RetryOptionsWithDeadline', 'left_until_retry')
    for which in ('with_deadline', 'without_deadline'):
        o = chk.add(Obligation('%s.round-trip[%s]' % (prop, which), 'all budgets, delays present/absent with all 64-bit values < 2^62, all clock readings (symbolic monotone clock)'))
        o.verdict = 'holds'
        ex, M = chk.new_exec(loop_bound=6)

        def run(ex_, which=which, M=M):
            wf(ex_)
            ex_.add(z3.And(z3.ULT(dur, bv(1 << 62)), z3.ULT(now, bv(1 << 62))))
            ex_.env['clock'] = now
            ro = ro_v()
            rd = ex_.call_body(wd_b, [ro, now]) if which == 'with_deadline' else ex_.call_body(wo_b, [ro])
            rdc = Cell(ex_.materialize(rd), name='queued entry options')
            left_r = ex_.materialize(ex_.call_body(lu_b, [Ref(rdc, ())]))
            t_left = ex_.env.get('clock')
            back = ex_.materialize(ex_.call_body(from_body, [rdc.v]))
            return {'left': left_r, 't_left': t_left, 'back': back, 'elapsed': list(ex_.env.get('elapsed', []))}

        def on_end(ex_, rec, which=which, M=M, o=o):
            kind, res, pc, dec = rec
            o.paths += 1
            if kind != 'ok':
                if o.verdict != 'violated':
                    o.verdict = 'inconclusive' if kind in ('loopbound', 'unreachable') else 'violated'
                    o.detail = '%s: %s' % (kind, res)
                return
            back = res['back']
            br = ex_.materialize(ex_.field_of(back, None, RO['retries'], 'event::Retries'))
            claims = [fld(ex_, br, R['current']) == cur, fld(ex_, br, R['left']) == left]
            ba = ex_.materialize(ex_.field_of(back, None, RO['after'], 'Option<Duration>'))
            bd = M.discr(ex_, ba)
            claims.append(bd == after_d)
            if ex_.check(bd == bv(1)):
                claims.append(z3.Implies(bd == bv(1), ex_.materialize(ex_.field_of(ba, 1, 0, 'std::time::Duration'), 'std::time::Duration') == dur))
            # left_until_retry
            lr = res['left']
            ld = M.discr(ex_, lr)
            if which == 'without_deadline':
                claims.append(ld == bv(0))
            else:
                # time passed since `now`: either the clock reading taken by the function, or the value Instant::elapsed gave
                if res['elapsed']:
                    e = res['elapsed'][0][1]
                    claims.append(res['elapsed'][0][0] == now)
                else:
                    e = (res['t_left'] - now) if res['t_left'] is not None else None
                if e is not None:
                    claims.append(z3.Implies(after_d == bv(0), ld == bv(0)))
                    claims.append(z3.Implies(z3.And(after_d == bv(1), ld == bv(0)), z3.UGE(e, dur)))
                    if ex_.check(ld == bv(1)):
                        x = ex_.materialize(ex_.field_of(lr, 1, 0, 'std::time::Duration'), 'std::time::Duration')
                        claims.append(z3.Implies(ld == bv(1), z3.And(after_d == bv(1), z3.ULE(e, dur), x == dur - e)))
            o.queries += 1
            if ex_.check(z3.Not(z3.And(*claims))):
                if o.verdict != 'violated':
                    o.verdict = 'violated'
                    m = ex_.solver.model()
                    o.model = {str(d): str(m[d]) for d in m.decls() if not str(d).startswith('k!')}
                    bad = [str(z3.simplify(c))[:80] for c in claims if ex_.check(z3.Not(c))]
                    o.detail = 'the options of a queued entry (%s) do not come back as configured / report a wrong wait: %s' % (which, bad[:2])
        ex.explore(run, on_end)
        if o.verdict == 'violated':
            confirm_round_trip(chk, o, which)


def confirm_round_trip(chk, o, which):
    """in-crate replay, only through the functions' names (no assumption on what RetryOptionsWithDeadline stores)"""
    import os
    from checks import incrate
    code = ['    #[test]', '    fn verif_replay() {', '        use std::time::{Duration, Instant};']
    for after in (None, 40_000_000):
        a = 'None' if after is None else 'Some(Duration::from_nanos(%d))' % after
        code.append('        {{ let ro = RetryOptions {{ retries: Retries {{ current: 1, left: 2 }}, after: {a} }};'.format(a=a))
        code.append('          let q = ro.%s;' % ('with_deadline(Instant::now())' if which == 'with_deadline' else 'without_deadline()'))
        code.append('          let fresh = q.left_until_retry();')
        code.append('          std::thread::sleep(Duration::from_millis(15));')
        code.append('          let mid = q.left_until_retry();')
        code.append('          let back: RetryOptions = q.into();')
        code.append('          std::thread::sleep(Duration::from_millis(40));')
        code.append('          let late = q.left_until_retry();')
        code.append('          println!("RESULT after={an} back_ok={{}} back_after={{}} fresh={{}} mid={{}} late={{}}", back == ro, back.after.map_or(-1i128, |d| d.as_nanos() as i128), fresh.map_or(-1i128, |d| d.as_nanos() as i128), mid.map_or(-1i128, |d| d.as_nanos() as i128), late.map_or(-1i128, |d| d.as_nanos() as i128)); }}'.format(an=-1 if after is None else after))
    code.append('    }')
    res, out = incrate.run('src/runner/basic.rs', '\n'.join(code))
    chk.replays += 1
    d = os.path.join(common.EVID, 'replay')
    os.makedirs(d, exist_ok=True)
    path = os.path.join(d, 'C05-retry-options-round-trip-%s.txt' % which)
    if not res:
        o.verdict = 'inconclusive'
        o.detail += ' | in-crate replay failed: %s' % out[-300:]
        return
    devs = []
    for r in res:
        after = r['after']
        if not r['back_ok']:
            devs.append('delay %s ns configured, after 15 ms in the queue the options come back with delay %s ns' % (after, r['back_after']))
        if which == 'without_deadline' and (r['fresh'], r['mid'], r['late']) != (-1, -1, -1):
            devs.append('an entry that is not a retry reports a wait: %s' % ((r['fresh'], r['mid'], r['late']),))
        if which == 'with_deadline':
            if after == -1 and (r['fresh'], r['mid'], r['late']) != (-1, -1, -1):
                devs.append('no delay configured, yet a wait is reported: %s' % ((r['fresh'], r['mid'], r['late']),))
            if after != -1 and not (0 <= r['fresh'] <= after and 0 <= r['mid'] <= after - 14_000_000 and r['late'] == -1):
                devs.append('delay %d ns: waits reported at 0 / 15 / 55 ms: %s' % (after, (r['fresh'], r['mid'], r['late'])))
    if devs:
        open(path, 'w').write('\n'.join(devs) + '\n' + out)
        chk.replay_files.append(path)
        o.replay = path
        o.detail += ' | reproduced natively (in-crate replay of the real functions): %s' % devs[0]
    else:
        o.verdict = 'inconclusive'
        o.detail += ' | not reproduced natively (in-crate replay: options come back as configured, waits as specified)'


@common.part
def kernels(chk, prop='C05'):
    """the retry arithmetic kernels (all 64-bit values), under the name of the property that relies on them"""
    prog = chk.prog
    t = prog.tables
    R = {n: t.struct_fields('event::Retries').index(n) for n in ('current', 'left')}
    RO = {n: t.struct_fields('runner::basic::RetryOptions').index(n) for n in ('retries', 'after')}
    RD = {n: t.struct_fields('runner::basic::RetryOptionsWithDeadline').index(n) for n in ('retries', 'after')}
    cur, left = z3.BitVecs('current left', 64)
    after_d = z3.BitVec('after.discr', 64)
    dur = z3.BitVec('after.dur', 64)
    inst_d = z3.BitVec('instant.discr', 64)
    inst = z3.BitVec('instant', 64)
    now = z3.BitVec('now', 64)

    def retries_v():
        return Adt('event::Retries', {(None, R['current']): cur, (None, R['left']): left})

    def ro_v():
        return Adt('runner::basic::RetryOptions', {(None, RO['retries']): retries_v(),
                                                   (None, RO['after']): Adt('Option<std::time::Duration>', {(1, 0): dur}, after_d)})

    def rd_v():
        tup = Adt('(std::time::Duration, Option<std::time::Instant>)', {(None, 0): dur, (None, 1): Adt('Option<std::time::Instant>', {(1, 0): inst}, inst_d)})
        return Adt('runner::basic::RetryOptionsWithDeadline', {(None, RD['retries']): retries_v(),
                                                               (None, RD['after']): Adt('Option<(Duration, Option<Instant>)>', {(1, 0): tup}, after_d)})

    def wf(ex):
        ex.add(z3.And(z3.ULT(after_d, bv(2)), z3.ULT(inst_d, bv(2))))

    def is_retries(ex, M, v, c, l):
        return z3.And(fld(ex, v, R['current']) == c, fld(ex, v, R['left']) == l)

    # 1. Retries::next_try
    b = common.find_method(prog, 'Retries', 'next_try')

    def claim1(ex, M, kind, r):
        if kind == 'panic':
            return z3.And(z3.UGT(left, bv(0)), cur == bv((1 << 64) - 1))     # only `current + 1` may overflow
        d = M.discr(ex, r)
        some_ok = is_retries(ex, M, ex.field_of(ex.materialize(r), 1, 0, 'event::Retries'), cur + 1, left - 1) if ex.check(d == bv(1)) else z3.BoolVal(True)
        return z3.And(d == z3.If(z3.UGT(left, bv(0)), bv(1), bv(0)), z3.Implies(d == bv(1), some_ok))
    simple(chk, prop + '.Retries::next_try', 'all 2^128 (current, left) pairs', b, lambda ex, M: [retries_v()], claim1)

    # 2. Retries::initial
    b = common.find_method(prog, 'Retries', 'initial')
    n = z3.BitVec('n', 64)
    simple(chk, prop + '.Retries::initial', 'all n', b, lambda ex, M: [n],
           lambda ex, M, kind, r: is_retries(ex, M, r, bv(0), n) if kind == 'ok' else z3.BoolVal(False))

    # 3. RetryOptions::next_try
    b = common.find_method(prog, 'RetryOptions', 'next_try')

    def opt_dur_same(ex, M, v, want_d, want_dur):
        v = ex.materialize(v)
        d = M.discr(ex, v)
        pay = ex.materialize(ex.field_of(v, 1, 0, 'std::time::Duration'), 'std::time::Duration') if ex.check(d == bv(1)) else want_dur
        return z3.And(d == want_d, z3.Implies(d == bv(1), pay == want_dur))

    def claim3(ex, M, kind, r):
        if kind == 'panic':
            return z3.And(z3.UGT(left, bv(0)), cur == bv((1 << 64) - 1))
        d = M.discr(ex, r)
        if not ex.check(d == bv(1)):
            return z3.Not(z3.UGT(left, bv(0)))
        ro = ex.materialize(ex.field_of(ex.materialize(r), 1, 0, 'RetryOptions'))
        return z3.And(z3.UGT(left, bv(0)), d == bv(1),
                      is_retries(ex, M, ex.field_of(ro, None, RO['retries'], 'event::Retries'), cur + 1, left - 1),
                      opt_dur_same(ex, M, ex.field_of(ro, None, RO['after'], 'Option<Duration>'), after_d, dur))
    simple(chk, prop + '.RetryOptions::next_try', 'all (current, left), delay present/absent, all delays', b,
           lambda ex, M: (wf(ex), [ro_v()])[1], claim3)

    # 4. with_deadline / without_deadline / From
    def deadline_claim(want_inst):
        def claim(ex, M, kind, r):
            if kind != 'ok':
                return z3.BoolVal(False)
            r = ex.materialize(r)
            c = [is_retries(ex, M, ex.field_of(r, None, RD['retries'], 'event::Retries'), cur, left)]
            a = ex.materialize(ex.field_of(r, None, RD['after'], 'Option<(Duration, Option<Instant>)>'))
            d = M.discr(ex, a)
            c.append(d == after_d)
            if ex.check(d == bv(1)):
                tup = ex.materialize(ex.field_of(a, 1, 0, '(Duration, Option<Instant>)'))
                c.append(ex.materialize(ex.field_of(tup, None, 0, 'std::time::Duration'), 'std::time::Duration') == dur)
                io = ex.materialize(ex.field_of(tup, None, 1, 'Option<std::time::Instant>'))
                di = M.discr(ex, io)
                if want_inst:
                    c.append(di == bv(1))
                    if ex.check(di == bv(1)):
                        c.append(ex.materialize(ex.field_of(io, 1, 0, 'std::time::Instant'), 'std::time::Instant') == now)
                else:
                    c.append(di == bv(0))
            return z3.And(*c)
        return claim
    simple(chk, prop + '.RetryOptions::with_deadline', 'all values', common.find_method(prog, 'RetryOptions', 'with_deadline'),
           lambda ex, M: (wf(ex), [ro_v(), now])[1], deadline_claim(True))
    simple(chk, prop + '.RetryOptions::without_deadline', 'all values', common.find_method(prog, 'RetryOptions', 'without_deadline'),
           lambda ex, M: (wf(ex), [ro_v()])[1], deadline_claim(False))
    fb = [bb for (st, m), lst in prog.by_method.items() if st == 'RetryOptions' and m == 'from' for tr, bb in lst if tr == 'From']
    if len(fb) != 1:
        raise Inconclusive('From<RetryOptionsWithDeadline> for RetryOptions: %d candidates' % len(fb))

    def claim_from(ex, M, kind, r):
        if kind != 'ok':
            return z3.BoolVal(False)
        r = ex.materialize(r)
        return z3.And(is_retries(ex, M, ex.field_of(r, None, RO['retries'], 'event::Retries'), cur, left),
                      opt_dur_same(ex, M, ex.field_of(r, None, RO['after'], 'Option<Duration>'), after_d, dur))
    simple(chk, prop + '.From<RetryOptionsWithDeadline>', 'all values', fb[0], lambda ex, M: (wf(ex), [rd_v()])[1], claim_from)

    # 5. left_until_retry
    b = common.find_method(prog, 'RetryOptionsWithDeadline', 'left_until_retry')

    def claim_left(ex, M, kind, r):
        if kind != 'ok':
            return z3.BoolVal(False)
        el = [e for (_, e) in ex.env.get('elapsed', [])]
        d = M.discr(ex, r)
        no_wait = z3.Or(after_d == bv(0), inst_d == bv(0))
        if not el:
            return z3.And(no_wait, d == bv(0))
        if len(el) != 1:
            return z3.BoolVal(False)
        e = el[0]
        measured_from = ex.env['elapsed'][0][0]
        wait = z3.And(z3.Not(no_wait), z3.ULE(e, dur))   # checked_sub: elapsed == delay yields Some(0) - still "not before the delay"
        c = [d == z3.If(wait, bv(1), bv(0)), measured_from == inst]
        if ex.check(d == bv(1)):
            c.append(z3.Implies(d == bv(1), ex.materialize(ex.field_of(ex.materialize(r), 1, 0, 'std::time::Duration'), 'std::time::Duration') == dur - e))
        return z3.And(*c)
    simple(chk, prop + '.left_until_retry', 'all delays, all clock readings (elapsed symbolic, 64-bit nanoseconds)', b,
           lambda ex, M: (wf(ex), [Ref(Cell(rd_v()), ())])[1], claim_left)
    round_trip(chk, prog, ro_v, wf, fld, R, RO, cur, left, after_d, dur, now, fb[0], prop)
    chk.assumptions += ['Duration / Instant are abstract 64-bit nanosecond values; Instant::elapsed returns an arbitrary value (symbolic clock)',
                        'run_scenario\'s `retries.filter(|_| is_failed).and_then(next_try)` lives in a multi-poll coroutine (see DESIGN: stage M3)']


def body(chk):
    kernels(chk, 'C05')
    sched.insert_scenarios_obligations(chk, 'C05')
    from checks import insert_retry
    insert_retry.obligations(chk, 'C05')
    sched.get_obligations(chk, 'C05', focus='deadline')
    from checks import sched_worlds
    sched_worlds.run(chk, 'C05')
    # "attempted again exactly when the previous attempt failed and the budget is not exhausted": the decision is taken in
    # the real run_scenario coroutine (failed step / hook / World creation, ambiguous match) - one attempt, modelled user code
    from checks import attempt_driver
    attempt_driver.run(chk, 'C05')


if __name__ == '__main__':
    common.main('C05', body)
