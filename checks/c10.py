"""C10 - decided on one scenario attempt of the real run_scenario coroutine (see checks/attempt.py)."""
from checks import common, attempt_driver


def body(chk):
    attempt_driver.run(chk, 'C10')
    attempt_driver.run_pair(chk, 'C10')   # two attempts interleaved on one thread: net effect on the process panic hook
    from checks import sched_worlds
    sched_worlds.run(chk, 'C10')       # panic-hook automaton on the simulated scheduler loop
    # "or an error, in a step": a step function registered through the attributes reports Err by panicking in the wrapper
    # the macro generates - decided on the MIR of that wrapper for a probe crate
    from checks import macro_probe
    macro_probe.obligations(chk, 'C10')


if __name__ == '__main__':
    common.main('C10', body)
