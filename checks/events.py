"""Fully symbolic `parser::Result<Event<event::Cucumber<W>>>` values with named discriminants."""
import z3

from mirsmt.values import Cell, Lazy, Adt, Ref, bv
from mirsmt.interp import Inconclusive
from checks import summ


class CukeIdx(summ.Idx):
    def __init__(self, prog):
        summ.Idx.__init__(self, prog)
        ev, sf = self.ev, self.sf
        self.Top = {n: ev('event::Cucumber<W>', n) for n in ('Started', 'Feature', 'ParsingFinished', 'Finished')}
        self.Fe = {n: ev('event::Feature<W>', n) for n in ('Started', 'Rule', 'Scenario', 'Finished')}
        self.Re = {n: ev('event::Rule<W>', n) for n in ('Started', 'Scenario', 'Finished')}
        self.EventValue = sf('event::Event<T>', 'value')


def source(inner, pid, nm):
    return Adt('event::Source<%s>' % inner, {(None, 0): Ref(Cell(Lazy(inner, nm), name=nm), (), pid=pid)})


class SymCuke:
    """One symbolic item of the event stream."""

    def __init__(self, tag):
        self.tag = tag
        self.res = z3.BitVec('%s.res' % tag, 64)     # 0 = Ok(event), 1 = Err(parser error)
        self.top = z3.BitVec('%s.top' % tag, 64)     # Cucumber variant
        self.fe = z3.BitVec('%s.fe' % tag, 64)       # Feature event variant
        self.re = z3.BitVec('%s.re' % tag, 64)       # Rule event variant
        self.sc = summ.SymEvent(tag)                 # scenario event (shared by both nestings)
        self.pf, self.pr, self.ps, self.pst = [z3.BitVec('%s.p%s' % (tag, x), 64) for x in ('f', 'r', 's', 'st')]

    def vars(self):
        return [self.res, self.top, self.fe, self.re] + self.sc.vars() + [self.pf, self.pr, self.ps, self.pst]

    def well_formed(self, ix):
        return z3.And(z3.ULT(self.res, bv(2)), z3.ULT(self.top, bv(len(ix.Top))), z3.ULT(self.fe, bv(len(ix.Fe))),
                      z3.ULT(self.re, bv(len(ix.Re))), self.sc.well_formed(ix))

    def build_cucumber(self, ix):
        tag = self.tag
        rs = self.build_retryable(ix)
        rulev = Adt('event::Rule<W>', {(ix.Re['Scenario'], 0): source('gherkin::Scenario', self.ps, tag + '.scn'),
                                       (ix.Re['Scenario'], 1): rs}, self.re, tag + '.re')
        fev = Adt('event::Feature<W>', {
            (ix.Fe['Rule'], 0): source('gherkin::Rule', self.pr, tag + '.rule'),
            (ix.Fe['Rule'], 1): rulev,
            (ix.Fe['Scenario'], 0): source('gherkin::Scenario', self.ps, tag + '.scn'),
            (ix.Fe['Scenario'], 1): rs,
        }, self.fe, tag + '.fe')
        return Adt('event::Cucumber<W>', {
            (ix.Top['Feature'], 0): source('gherkin::Feature', self.pf, tag + '.feat'),
            (ix.Top['Feature'], 1): fev,
        }, self.top, tag + '.top')

    def build_retryable(self, ix):
        E = self.sc
        v = E.build(ix)
        # give step events an identifiable step Source
        scv = v.fields[(None, ix.RS['event'])]
        st = source('gherkin::Step', self.pst, self.tag + '.step')
        scv = scv.with_field((ix.Sc['Background'], 0), st).with_field((ix.Sc['Step'], 0), st)
        return v.with_field((None, ix.RS['event']), scv)

    def build(self, ix):
        evv = Adt('event::Event<event::Cucumber<W>>', {(None, ix.EventValue): self.build_cucumber(ix)}, None, self.tag + '.event')
        return Adt('std::result::Result<event::Event<event::Cucumber<W>>, parser::Error>',
                   {(0, 0): evv, (1, 0): Lazy('parser::Error', self.tag + '.perr')}, self.res, None)

    # ---- predicates
    def is_ok(self):
        return self.res == bv(0)

    def is_err(self):
        return self.res == bv(1)

    def top_is(self, ix, n):
        return z3.And(self.is_ok(), self.top == bv(ix.Top[n]))

    def feature_ev(self, ix, n):
        return z3.And(self.top_is(ix, 'Feature'), self.fe == bv(ix.Fe[n]))

    def rule_ev(self, ix, n):
        return z3.And(self.feature_ev(ix, 'Rule'), self.re == bv(ix.Re[n]))

    def scenario_in_rule(self, ix):
        return self.rule_ev(ix, 'Scenario')

    def scenario_top(self, ix):
        return self.feature_ev(ix, 'Scenario')

    def is_scenario(self, ix):
        return z3.Or(self.scenario_in_rule(ix), self.scenario_top(ix))
