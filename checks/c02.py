"""C02 - decided on one scenario attempt of the real run_scenario coroutine (see checks/attempt.py)."""
from checks import common, attempt_driver


def body(chk):
    attempt_driver.run(chk, 'C02')
    attempt_driver.run_pair(chk, 'C02')      # two scenarios whose steps have the same text: each step is resolved as itself
    # the attempt takes "no match / ambiguous / one definition" from step::Collection::find (an oracle above): the real find
    # is decided here as well, because "a step matching several definitions is Failed as ambiguous" depends on it
    from checks import c17
    c17.obligations(chk, 'C02')
    # an attempt that was started is driven to its Finished event whatever the scheduler decides meanwhile (fail-fast
    # tripping while it is in flight): the fail-fast worlds of the simulated execute() loop
    from checks import sched_worlds
    sched_worlds.run(chk, 'C02', selected=lambda n, w: w.fail_fast)


if __name__ == '__main__':
    common.main('C02', body)
