"""`runner::Basic::default()` (C06 default limit 64, C07 default @serial classifier, C08 fail-fast off, C18 defaults)."""
import z3

from checks import common, tagsets
from checks.common import Obligation
from mirsmt.values import Cell, Lazy, Adt, Ref, Obj, bv
from mirsmt.interp import Inconclusive, PathEnd


def default_body(prog):
    c = [b for (st, m), lst in prog.by_method.items() if st == 'Basic' and m == 'default' for tr, b in lst if tr == 'Default' and 'runner' in b.name]
    if len(c) != 1:
        raise Inconclusive('<runner::Basic as Default>::default: %d candidates' % len(c))
    return c[0]


def defaults(chk, prop):
    prog = chk.prog
    body = default_body(prog)
    BF = prog.tables.struct_fields('runner::basic::Basic<W>')
    o = chk.add(Obligation('%s.builder-defaults' % prop, 'the single path of <runner::Basic as Default>::default()'))
    o.verdict = 'holds'
    ex, M = chk.new_exec(loop_bound=4)
    M.opaque_bodies |= {'Collection::new'}

    def run(ex_):
        return ex_.materialize(ex_.call_body(body, []))

    def on_end(ex_, rec):
        kind, res, pc, dec = rec
        o.paths += 1
        if kind != 'ok':
            o.verdict = 'inconclusive'
            o.detail = '%s: %s' % (kind, res)
            return
        def f(n):
            return ex_.materialize(ex_.field_of(res, None, BF.index(n), '?'))
        mc = f('max_concurrent_scenarios')
        ok = z3.And(M.discr(ex_, mc) == bv(1), ex_.materialize(ex_.field_of(mc, 1, 0, 'usize'), 'usize') == bv(64),
                    M.discr(ex_, f('retries')) == bv(0), M.discr(ex_, f('retry_after')) == bv(0), M.discr(ex_, f('retry_filter')) == bv(0),
                    M.discr(ex_, f('before_hook')) == bv(0), M.discr(ex_, f('after_hook')) == bv(0), z3.Not(ex_.materialize(ex_.field_of(res, None, BF.index('fail_fast'), 'bool'), 'bool')))
        o.queries += 1
        if ex_.check(z3.Not(ok)):
            o.verdict = 'violated'
            o.detail = 'defaults differ from: limit Some(64), no retries / delay / filter / hooks, fail_fast off'
            o.model = {'max_concurrent_scenarios': str(z3.simplify(ex_.materialize(ex_.field_of(mc, 1, 0, 'usize'), 'usize'))) if z3.simplify(M.discr(ex_, mc)).as_long() == 1 else 'None'}
    ex.explore(run, on_end)
    return o


def which_scenario(chk, prop):
    """default classifier: Serial <=> "serial" in scenario + rule + feature tags"""
    prog = chk.prog
    body = prog.bodies.get(default_body(prog).name + '::{closure#0}')
    if body is None:
        raise Inconclusive('default which_scenario closure not found')
    vs = prog.tables.enum_variants('runner::basic::ScenarioType')
    serial = [i for i, v in enumerate(vs) if v[0] == 'Serial'][0]

    def to_bool(ex_, res):
        res = ex_.materialize(res)
        return ex_.models.discr(ex_, res) == bv(serial)
    def confirm(chk_, o):
        """native replay through the real runner: the scenario with the counterexample's tags next to two plain ones"""
        import os
        import re
        from checks import replay
        m = o.model
        hit = set(m['tags_equal_to_literal'])

        def tags(lvl, n):
            names = ['serial' if ('%s.tag%d' % (lvl, i)) in hit else 'other%d' % i for i in range(n)]
            return ' '.join('@' + t for t in names)
        L = ['builder max_concurrent=3', 'feature']
        if m['feature_tags']:
            L.append('| ' + tags('feature', m['feature_tags']))
        L.append('| Feature: f0')
        ind = '  '
        if m['rule']:
            if m['rule_tags']:
                L.append('|   ' + tags('rule', m['rule_tags']))
            L.append('|   Rule: r0')
            ind = '    '
        if m['scenario_tags']:
            L.append('| %s%s' % (ind, tags('scenario', m['scenario_tags'])))
        L += ['| %sScenario: x' % ind, '| %s  Given stx' % ind, 'feature', '| Feature: f1', '|   Scenario: p', '|     Given stp', '|   Scenario: q', '|     Given stq',
              'step stx yields=8', 'step stp yields=8', 'step stq yields=8']
        d = os.path.join(common.EVID, 'replay')
        os.makedirs(d, exist_ok=True)
        path = os.path.join(d, '%s-default-which-scenario.script' % prop)
        res, out = replay.run_script('\n'.join(['mode runner'] + L) + '\n', path, timeout=60)
        chk_.replays += 1
        evs = [ln[7:].rsplit(' t=', 1)[0] for ln in out.splitlines() if ln.startswith('LOG EV ')]
        xs = [i for i, e in enumerate(evs) if ':scenario[x]:started' in e]
        xf = [i for i, e in enumerate(evs) if ':scenario[x]:finished' in e]
        if res is None or not xs or not xf:
            o.verdict = 'inconclusive'
            o.detail += ' | native replay failed: %s' % out[-200:]
            return
        others = [e for e in evs[xs[0]:xf[0]] if re.search(r':scenario\[[pq]\]:', e)]
        # p and q running when x starts (started before, not finished)
        running = [n for n in 'pq' if any(':scenario[%s]:started' % n in e for e in evs[:xs[0]]) and not any(':scenario[%s]:finished' % n in e for e in evs[:xs[0]])]
        overlapped = bool(others or running)
        should_be_serial = bool(hit)
        if overlapped == should_be_serial:
            chk_.replay_files.append(path)
            o.replay = path
            o.detail += ' | reproduced natively through the real runner: the scenario %s other scenarios although an inherited tag %s @serial' % (
                'overlaps' if overlapped else 'runs isolated from', 'is' if should_be_serial else 'is not')
        else:
            o.verdict = 'inconclusive'
            o.detail += ' | not reproduced natively (the real runner schedules the scenario as specified)'
    return tagsets.tag_predicate_obligation(chk, body, '%s.default-which_scenario' % prop, 'serial', negate=False,
                                            arg_order=('feature', 'rule', 'scenario'), closure_self=True, to_bool=to_bool, confirm=confirm)
