"""`runner::Basic::default()` (C06 default limit 64, C07 default @serial classifier, C08 fail-fast off, C18 defaults)."""
import z3

from checks import common, tagsets
from checks.common import Obligation
from mirsmt.values import Cell, Lazy, Adt, Ref, Obj, bv
from mirsmt.interp import Inconclusive, PathEnd


def default_body(prog):
    c = [b for (st, m), lst in prog.by_method.items() if st == 'Basic' and m == 'default' for tr, b in lst if tr == 'Default' and 'runner' in b.name]
    if len(c) != 1:
        raise Inconclusive('<runner::Basic as Default>::default: %d candidates' % len(c))
    return c[0]


@common.part
def defaults(chk, prop):
    prog = chk.prog
    body = default_body(prog)
    BF = prog.tables.struct_fields('runner::basic::Basic<W>')
    o = chk.add(Obligation('%s.builder-defaults' % prop, 'the single path of <runner::Basic as Default>::default()'))
    o.verdict = 'holds'
    ex, M = chk.new_exec(loop_bound=4)
    M.opaque_bodies |= {'Collection::new'}

    def run(ex_):
        return ex_.materialize(ex_.call_body(body, []))

    def on_end(ex_, rec):
        kind, res, pc, dec = rec
        o.paths += 1
        if kind != 'ok':
            o.verdict = 'inconclusive'
            o.detail = '%s: %s' % (kind, res)
            return
        def f(n):
            return ex_.materialize(ex_.field_of(res, None, BF.index(n), '?'))
        mc = f('max_concurrent_scenarios')
        ok = z3.And(M.discr(ex_, mc) == bv(1), ex_.materialize(ex_.field_of(mc, 1, 0, 'usize'), 'usize') == bv(64),
                    M.discr(ex_, f('retries')) == bv(0), M.discr(ex_, f('retry_after')) == bv(0), M.discr(ex_, f('retry_filter')) == bv(0),
                    M.discr(ex_, f('before_hook')) == bv(0), M.discr(ex_, f('after_hook')) == bv(0), z3.Not(ex_.materialize(ex_.field_of(res, None, BF.index('fail_fast'), 'bool'), 'bool')))
        o.queries += 1
        if ex_.check(z3.Not(ok)):
            o.verdict = 'violated'
            o.detail = 'defaults differ from: limit Some(64), no retries / delay / filter / hooks, fail_fast off'
            o.model = {'max_concurrent_scenarios': str(z3.simplify(ex_.materialize(ex_.field_of(mc, 1, 0, 'usize'), 'usize'))) if z3.simplify(M.discr(ex_, mc)).as_long() == 1 else 'None'}
    ex.explore(run, on_end)
    return o


@common.part
def which_scenario(chk, prop):
    """default classifier: Serial <=> "serial" in scenario + rule + feature tags"""
    prog = chk.prog
    dbody = default_body(prog)
    BF = prog.tables.struct_fields('runner::basic::Basic<W>')
    if not isinstance(BF, list) or 'which_scenario' not in BF:
        raise Inconclusive('runner::Basic has no field which_scenario')
    body = None

    def invoke(ex_, args):
        # the classifier is the value <Basic as Default>::default() stores in `which_scenario` (a closure, a fn item, ..)
        ex_.models.opaque_bodies |= {'Collection::new'}
        dv = ex_.materialize(ex_.call_body(dbody, []))
        f = ex_.field_of(dv, None, BF.index('which_scenario'), '?')
        return ex_.call_value(f, args)
    vs = prog.tables.enum_variants('runner::basic::ScenarioType')
    serial = [i for i, v in enumerate(vs) if v[0] == 'Serial'][0]

    def to_bool(ex_, res):
        res = ex_.materialize(res)
        return ex_.models.discr(ex_, res) == bv(serial)
    def confirm(chk_, o):
        """native replay through the real runner: the scenario with the counterexample's tags next to two plain ones"""
        import os
        import re
        from checks import replay
        m = o.model
        hit = set(m['tags_equal_to_literal'])

        def tags(lvl, n):
            names = ['serial' if ('%s.tag%d' % (lvl, i)) in hit else 'other%d' % i for i in range(n)]
            return ' '.join('@' + t for t in names)
        L = ['builder max_concurrent=3', 'feature']
        if m['feature_tags']:
            L.append('| ' + tags('feature', m['feature_tags']))
        L.append('| Feature: f0')
        ind = '  '
        if m['rule']:
            if m['rule_tags']:
                L.append('|   ' + tags('rule', m['rule_tags']))
            L.append('|   Rule: r0')
            ind = '    '
        if m['scenario_tags']:
            L.append('| %s%s' % (ind, tags('scenario', m['scenario_tags'])))
        L += ['| %sScenario: x' % ind, '| %s  Given stx' % ind, 'feature', '| Feature: f1', '|   Scenario: p', '|     Given stp', '|   Scenario: q', '|     Given stq',
              'step stx yields=8', 'step stp yields=8', 'step stq yields=8']
        d = os.path.join(common.EVID, 'replay')
        os.makedirs(d, exist_ok=True)
        path = os.path.join(d, '%s-default-which-scenario.script' % prop)
        res, out = replay.run_script('\n'.join(['mode runner'] + L) + '\n', path, timeout=60)
        chk_.replays += 1
        evs = [ln[7:].rsplit(' t=', 1)[0] for ln in out.splitlines() if ln.startswith('LOG EV ')]
        xs = [i for i, e in enumerate(evs) if ':scenario[x]:started' in e]
        xf = [i for i, e in enumerate(evs) if ':scenario[x]:finished' in e]
        if res is None or not xs or not xf:
            o.verdict = 'inconclusive'
            o.detail += ' | native replay failed: %s' % out[-200:]
            return
        others = [e for e in evs[xs[0]:xf[0]] if re.search(r':scenario\[[pq]\]:', e)]
        # p and q running when x starts (started before, not finished)
        running = [n for n in 'pq' if any(':scenario[%s]:started' % n in e for e in evs[:xs[0]]) and not any(':scenario[%s]:finished' % n in e for e in evs[:xs[0]])]
        overlapped = bool(others or running)
        should_be_serial = bool(hit)
        if overlapped == should_be_serial:
            chk_.replay_files.append(path)
            o.replay = path
            o.detail += ' | reproduced natively through the real runner: the scenario %s other scenarios although an inherited tag %s @serial' % (
                'overlaps' if overlapped else 'runs isolated from', 'is' if should_be_serial else 'is not')
        else:
            o.verdict = 'inconclusive'
            o.detail += ' | not reproduced natively (the real runner schedules the scenario as specified)'
    return tagsets.tag_predicate_obligation(chk, body, '%s.default-which_scenario' % prop, 'serial', negate=False,
                                            arg_order=('feature', 'rule', 'scenario'), closure_self=True, to_bool=to_bool, confirm=confirm, invoke=invoke)


@common.part
def setters(chk, prop, which=('max_concurrent_scenarios', 'retries', 'retry_after', 'fail_fast')):
    """The builder's option setters store exactly what they are given (`None` included) and touch nothing else:
    each setter body on a runner with arbitrary current settings and an arbitrary argument."""
    prog = chk.prog
    BF = prog.tables.struct_fields('runner::basic::Basic<W>')
    out = []
    for name in which:
        body = common.find_method(prog, 'Basic', name)
        o = chk.add(Obligation('%s.builder-setter[%s]' % (prop, name), 'every current value of the settings and every argument (presence + 64-bit value)'))
        o.verdict = 'holds'
        ex, M = chk.new_exec(loop_bound=4)
        tys = {'max_concurrent_scenarios': 'usize', 'retries': 'usize', 'retry_after': 'std::time::Duration'}
        cur = {n: (z3.BitVec('cur.%s.d' % n, 64), z3.BitVec('cur.%s' % n, 64)) for n in tys}
        cur_ff = z3.Bool('cur.fail_fast')
        arg_d, arg_v = z3.BitVec('arg.d', 64), z3.BitVec('arg', 64)

        def run(ex_, name=name, body=body):
            ex_.add(z3.ULT(arg_d, bv(2)))
            fields = {(None, i): Lazy('?', 'self.%s' % n) for i, n in enumerate(BF)}
            for n, (d, v) in cur.items():
                ex_.add(z3.ULT(d, bv(2)))
                fields[(None, BF.index(n))] = Adt('Option<%s>' % tys[n], {(1, 0): v}, d)
            fields[(None, BF.index('fail_fast'))] = cur_ff
            selfv = Adt('runner::basic::Basic<W>', fields)
            args = [selfv] if name == 'fail_fast' else [selfv, Adt('Option<%s>' % tys[name], {(1, 0): arg_v}, arg_d)]
            return ex_.materialize(ex_.call_body(body, args))

        def on_end(ex_, rec, name=name):
            kind, res, pc, dec = rec
            o.paths += 1
            if kind != 'ok':
                o.verdict = 'inconclusive'
                o.detail = '%s: %s' % (kind, res)
                return
            claims = []
            for n, (d, v) in cur.items():
                f = ex_.materialize(ex_.field_of(res, None, BF.index(n), 'Option'))
                fd = M.discr(ex_, f)
                wd, wv = (arg_d, arg_v) if n == name else (d, v)
                claims.append(fd == wd)
                if ex_.check(fd == bv(1)):
                    claims.append(z3.Implies(wd == bv(1), ex_.materialize(ex_.field_of(f, 1, 0, tys[n]), tys[n]) == wv))
            ff = ex_.materialize(ex_.field_of(res, None, BF.index('fail_fast'), 'bool'), 'bool')
            claims.append(ff == (z3.BoolVal(True) if name == 'fail_fast' else cur_ff))
            o.queries += 1
            if ex_.check(z3.Not(z3.And(*claims))):
                m = ex_.solver.model()
                o.verdict = 'violated'
                o.model = {'setter': name, 'current': {n: (str(m.eval(d, model_completion=True)), str(m.eval(v, model_completion=True))) for n, (d, v) in cur.items()},
                           'argument': (str(m.eval(arg_d, model_completion=True)), str(m.eval(arg_v, model_completion=True)))}
                o.detail = 'the setter does not store its argument / changes another setting'
        ex.explore(run, on_end)
        if o.verdict == 'violated':
            confirm_setter(chk, o, prop, name)
        out.append(o)
    return out


def confirm_setter(chk, o, prop, name):
    """native replay: the setter applied after another value through the real builder, observed through the real runner"""
    import os
    import re
    from checks import replay
    d = os.path.join(common.EVID, 'replay')
    os.makedirs(d, exist_ok=True)
    path = os.path.join(d, '%s-builder-setter-%s.script' % (prop, name))
    feat3 = ['feature', '| Feature: f'] + sum([['|   Scenario: s%d' % i, '|     Given x%d' % i] for i in range(3)], [])
    if name == 'max_concurrent_scenarios':
        cases = [(['builder max_concurrent=1', 'builder max_concurrent=none'], 3), (['builder max_concurrent=none', 'builder max_concurrent=2'], 2),
                 (['builder max_concurrent=3', 'builder max_concurrent=1'], 1)]
        devs = []
        for lines, want in cases:
            res, out = replay.run_script('\n'.join(['mode runner'] + lines + feat3 + ['step x%d yields=4' % i for i in range(3)]) + '\n', path, timeout=60)
            chk.replays += 1
            if res is not None and res.get('peak_user_code') != want:
                devs.append('%s: peak scenarios in user code %s, specification %d' % (' then '.join(lines), res.get('peak_user_code'), want))
                break
        if devs:
            chk.replay_files.append(path)
            o.replay = path
            o.detail += ' | reproduced natively through the real builder and runner: %s' % devs[0]
        else:
            o.verdict = 'inconclusive'
            o.detail += ' | not reproduced natively (the real builder keeps the last value set)'
        return
    one = ['feature', '| Feature: f', '|   Scenario: s0', '|     Given x0']
    tagged = ['feature', '| Feature: f', '|   @retry', '|   Scenario: s0', '|     Given x0']

    def attempts(lines):
        res, out = replay.run_script('\n'.join(['mode runner', 'hooks none'] + lines) + '\n', path, timeout=60)
        chk.replays += 1
        ts = [int(x) for x in re.findall(r'LOG EV \S*scenario\[s0\]:started \S+ t=(\d+)', out)]
        fs = [int(x) for x in re.findall(r'LOG EV \S*scenario\[s0\]:finished \S+ t=(\d+)', out)]
        started = re.findall(r'LOG EV \S*scenario\[(s\d)\]:started', out)
        return res, ts, fs, started
    devs = []
    if name == 'retries':
        # (script lines, attempts of the always failing s0 the documentation promises)
        cases = [(['builder max_concurrent=1 retries=2'] + one + ['step x0 always_fail'], 3),
                 (['builder max_concurrent=1 retries=2', 'builder retries=1'] + one + ['step x0 always_fail'], 2),
                 # an explicit budget of ZERO is a budget: a bare @retry tag takes its count from it (no count anywhere => 1)
                 (['builder max_concurrent=1 retries=0'] + tagged + ['step x0 always_fail'], 1),
                 (['builder max_concurrent=1'] + tagged + ['step x0 always_fail'], 2)]
        for lines, want in cases:
            res, ts, fs, started = attempts(lines)
            if res is not None and len(ts) != want:
                devs.append('%s: the always failing scenario was attempted %d time(s), the settings say %d' % (' then '.join(l for l in lines if l.startswith('builder')), len(ts), want))
                break
    elif name == 'retry_after':
        cases = [(['builder max_concurrent=1 retries=1 retry_after_ms=300'] + one + ['step x0 always_fail'], 'ge'),
                 (['builder max_concurrent=1 retries=1 retry_after_ms=300', 'builder retry_after_ms=1'] + one + ['step x0 always_fail'], 'lt')]
        for lines, how in cases:
            res, ts, fs, started = attempts(lines)
            if res is not None and len(ts) >= 2 and fs:
                gap = ts[1] - fs[0]
                if (how == 'ge' and gap < 290) or (how == 'lt' and gap > 200):
                    devs.append('%s: the retry started %d ms after the failed attempt' % (' then '.join(l for l in lines if l.startswith('builder')), gap))
                    break
    elif name == 'fail_fast':
        res, ts, fs, started = attempts(['builder max_concurrent=1 fail_fast=1'] + feat3 + ['step x0 always_fail'])
        if res is not None and started != ['s0']:
            devs.append('builder fail_fast: after the final failure of s0 the run started %s' % started)
    else:
        o.verdict = 'inconclusive'
        o.detail += ' | no native replay for this setter'
        return
    if devs:
        chk.replay_files.append(path)
        o.replay = path
        o.detail += ' | reproduced natively through the real builder and runner: %s' % devs[0]
    else:
        o.verdict = 'inconclusive'
        o.detail += ' | not reproduced natively (the real builder and runner follow the settings in every case tried)'
