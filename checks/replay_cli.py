"""Replay a counterexample script against the real crate: python3-vt -m checks.replay_cli <script>"""
import sys
from checks import replay

if __name__ == '__main__':
    res, out = replay.run_script(open(sys.argv[1]).read(), sys.argv[1] + '.tmp')
    print(out)
    replay.cleanup()
