"""Replay a counterexample script against the real crate: python3-vt -m checks.replay_cli <script>"""
import os
import sys
from checks import replay

if __name__ == '__main__':
    tmp = sys.argv[1] + '.tmp'
    try:
        res, out = replay.run_script(open(sys.argv[1]).read(), tmp)
        print(out)
    finally:
        replay.cleanup()
        if os.path.exists(tmp):
            os.remove(tmp)
