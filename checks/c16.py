"""C16 - scenario outlines expand to one correctly substituted scenario per example row.

Kernels: `expand_scenario` with all its closures and `<gherkin::Feature as Ext>::expand_examples` from MIR.
Strings are template strings (mirsmt/models_text.py): literal stretches, placeholders with symbolic names and
substituted values; `Regex::replace_all` of the template regex (pattern read from the static's initialiser in the
MIR) is modelled on that representation.  Whether a placeholder names a column is a solver-decided Boolean per
(placeholder, column) pair, so every matching pattern is explored; Examples positions are symbolic line numbers.
"""
import itertools
import re

import z3

from checks import common
from checks.common import Obligation
from mirsmt.values import Cell, Lazy, Adt, Ref, Obj, UNIT, bv
from mirsmt.interp import Inconclusive, PathEnd


class Shape:
    """an outline: name / steps templates and Examples tables.
    templates: list of parts 'L' (literal) | 'P<k>' (placeholder number k) ; tables: list of (ncols, nrows) | None (no table)"""

    def __init__(self, label, name, steps, tables, nph, untagged=()):
        self.label, self.name, self.steps, self.tables, self.nph = label, name, steps, tables, nph
        self.untagged = tuple(untagged)      # indices of Examples blocks without a tag of their own


def shapes(tier):
    S = Shape
    out = [
        S('two-rows', ['L', 'P0', 'L'], [dict(value=['P0', 'P1'], doc=['L', 'P1'], table=[[['P0'], ['L']]])], [(2, 2)], 2),
        S('two-tables', ['P0'], [dict(value=['L', 'P0', 'L', 'P0'], doc=None, table=None), dict(value=['L'], doc=None, table=None)], [(1, 1), (1, 2)], 1, untagged=(1,)),
        S('header-only-and-no-table', ['L'], [dict(value=['P0'], doc=None, table=None)], [(1, 0), None, (1, 1)], 1),
        S('no-examples', ['L', 'P0'], [dict(value=['P0'], doc=None, table=None)], [], 1),
        # two tables whose headers may list the same names in a different order / only partly
        S('two-tables-two-cols', ['P0', 'L', 'P1'], [dict(value=['P1', 'P0'], doc=None, table=None)], [(2, 1), (2, 1)], 2),
        # each placeholder occurs in ONE kind of place only: the name, a step text, a doc string, a step-table cell
        S('one-place-each', ['L', 'P0'], [dict(value=['L', 'P1'], doc=['P2', 'L'], table=[[['L'], ['P3']]])], [(2, 1)], 4),
    ]
    if tier == 'thorough':
        out += [S('three-ph', ['P0', 'P1', 'P2'], [dict(value=['P2', 'L', 'P0'], doc=['P1'], table=[[['P0', 'P1']], [['P2', 'L']]])], [(2, 1), (2, 2)], 3),
                S('three-rows', ['P0'], [dict(value=['P0', 'L'], doc=None, table=None)], [(1, 3)], 1)]
    return out


class Builder:
    def __init__(self, chk, ex):
        t = chk.prog.tables
        self.F = {n: t.struct_fields('gherkin::' + n) for n in ('Feature', 'Rule', 'Scenario', 'Step', 'Examples', 'Table', 'LineCol', 'Span')}
        for n, fl in self.F.items():
            if not isinstance(fl, list):
                raise Inconclusive('gherkin::%s fields' % n)
        self.ex = ex
        self.n = 0

    def st(self, n, **kw):
        fl = self.F[n]
        return Adt('gherkin::' + n, {(None, fl.index(k)): v for k, v in kw.items()}, None, None)

    def sym(self, nm):
        return Obj('symstr', name=nm)

    def vec(self, items, ty='Vec<?>'):
        return Obj('vec', items=tuple(items), ty=ty)

    def linecol(self, line, col=None):
        return self.st('LineCol', line=line, col=col if col is not None else bv(3))

    def span(self):
        return self.st('Span', start=bv(0), end=bv(0))

    def tmpl(self, parts, tag):
        out = []
        for i, p in enumerate(parts):
            if p == 'L':
                out.append(('lit', '%s.%d' % (tag, i)))
            else:
                out.append(('ph', self.sym('ph%s' % p[1:])))
        return Obj('tstr', parts=tuple(out))

    def table(self, rows, line):
        return self.st('Table', rows=self.vec([self.vec(r, 'Vec<String>') for r in rows], 'Vec<Vec<String>>'), span=self.span(), position=self.linecol(line))

    def opt(self, v, ty):
        return Adt('Option<%s>' % ty, {(1, 0): v}, 1) if v is not None else Adt('Option<%s>' % ty, {}, 0)

    def scenario(self, sh, tag, line):
        steps = []
        for i, s in enumerate(sh.steps):
            tb = None
            if s['table'] is not None:
                tb = self.table([[self.tmpl(c, '%s.s%d.t%d.%d' % (tag, i, r, k)) for k, c in enumerate(row)] for r, row in enumerate(s['table'])], bv(0))
            steps.append(self.st('Step', keyword=self.sym('kw'), ty=Adt('gherkin::StepType', {}, 0), value=self.tmpl(s['value'], '%s.s%d.v' % (tag, i)),
                                 docstring=self.opt(self.tmpl(s['doc'], '%s.s%d.d' % (tag, i)) if s['doc'] is not None else None, 'String'),
                                 table=self.opt(tb, 'Table'), span=self.span(), position=self.linecol(line + bv(1 + i))))
        exs, lines = [], []
        for j, tb in enumerate(sh.tables):
            L = z3.BitVec('%s.ex%d.line' % (tag, j), 64)
            lines.append(L)
            t = None
            if tb is not None:
                nc, nr = tb
                rows = [[self.sym('%s.ex%d.col%d' % (tag, j, c)) for c in range(nc)]]
                rows += [[self.sym('%s.ex%d.r%d.c%d' % (tag, j, r, c)) for c in range(nc)] for r in range(nr)]
                t = self.table(rows, L + bv(1))
            exs.append(self.st('Examples', keyword=self.sym('Examples'), name=self.opt(None, 'String'), description=self.opt(None, 'String'),
                               table=self.opt(t, 'Table'), tags=self.vec([] if j in sh.untagged else [self.sym('%s.ex%d.tag' % (tag, j))], 'Vec<String>'), span=self.span(),
                               position=self.linecol(L, bv(5))))
        sc = self.st('Scenario', keyword=self.sym('Scenario Outline'), name=self.tmpl(sh.name, tag + '.name'), description=self.opt(None, 'String'),
                     steps=self.vec(steps, 'Vec<Step>'), examples=self.vec(exs, 'Vec<Examples>'),
                     tags=self.vec([self.sym(tag + '.tag0'), self.sym(tag + '.tag1')], 'Vec<String>'), span=self.span(), position=self.linecol(line))
        return sc, lines


# ---------------------------------------------------------------- reading values back
def sname(v):
    if isinstance(v, Obj) and v.kind == 'symstr':
        return v.name
    if isinstance(v, Obj) and v.kind == 'str':
        return 'lit:' + v.text
    return repr(v)


def tparts(ex, M, v):
    """template string value -> tuple of ('lit', id) | ('ph', name) | ('val', name)"""
    v = M.str_of(ex, v)
    if isinstance(v, Obj) and v.kind == 'tstr':
        return tuple((p[0], p[1] if p[0] == 'lit' else sname(p[1])) for p in v.parts)
    return (('val', sname(v)),)


def read_scenario(ex, M, B, v):
    F = B.F
    v = ex.materialize(v)

    def f(val, st, name, ty='?'):
        return ex.materialize(ex.field_of(val, None, F[st].index(name), ty))

    def opt(o):
        o = ex.materialize(o)
        return ex.materialize(ex.field_of(o, 1, 0, '?')) if z3.simplify(M.discr(ex, o)).as_long() == 1 else None
    steps = []
    for s in M.seq_of(ex, f(v, 'Scenario', 'steps')):
        s = ex.materialize(s)
        doc = opt(f(s, 'Step', 'docstring'))
        tb = opt(f(s, 'Step', 'table'))
        rows = None
        if tb is not None:
            rows = [[tparts(ex, M, c) for c in M.seq_of(ex, r)] for r in M.seq_of(ex, f(tb, 'Table', 'rows'))]
        steps.append({'value': tparts(ex, M, f(s, 'Step', 'value')), 'doc': tparts(ex, M, doc) if doc is not None else None, 'table': rows})
    pos = f(v, 'Scenario', 'position')
    return {'name': tparts(ex, M, f(v, 'Scenario', 'name')), 'steps': steps,
            'tags': [sname(M.str_of(ex, t)) for t in M.seq_of(ex, f(v, 'Scenario', 'tags'))],
            'line': ex.materialize(ex.field_of(pos, None, F['LineCol'].index('line'), 'usize'), 'usize'),
            'n_examples': len(M.seq_of(ex, f(v, 'Scenario', 'examples')))}


def read_results(ex, M, B, out):
    """Vec<Result<Scenario, ExpandExamplesError>> -> list of ('ok', scenario dict) | ('err', placeholder name)"""
    EF = ex.prog.tables.struct_fields('feature::ExpandExamplesError')
    res = []
    for r in M.seq_of(ex, out):
        r = ex.materialize(r)
        if z3.simplify(M.discr(ex, r)).as_long() == 0:
            res.append(('ok', read_scenario(ex, M, B, ex.field_of(r, 0, 0, 'gherkin::Scenario'))))
        else:
            e = ex.materialize(ex.field_of(r, 1, 0, 'ExpandExamplesError'))
            res.append(('err', sname(M.str_of(ex, ex.field_of(e, None, EF.index('name'), 'String')))))
    return res


# ---------------------------------------------------------------- reference (from the property text)
def decided(ex, a, b):
    """truth of the string equality of two symbolic names on this path: True / False / None (never compared)"""
    for x, y in ((a, b), (b, a)):
        t = z3.Bool('%s==%s' % (x, y))
        yes, no = ex.check(t), ex.check(z3.Not(t))
        if yes != no:
            return yes
    return None


def expected(ex, sh, tag, decide=None):
    """-> list of ('ok', dict) | ('err', set of unknown placeholder names) in table and row order, or None when the outline has no Examples"""
    if not sh.tables:
        return None
    out = []
    if decide is None:
        decide = lambda a, b: decided(ex, a, b)  # noqa

    def subst(parts, ttag, j, r, unknown):
        res = []
        for i, p in enumerate(parts):
            if p == 'L':
                res.append(('lit', '%s.%d' % (ttag, i)))
                continue
            ph = 'ph%s' % p[1:]
            nc = sh.tables[j][0]
            col = None
            for c in range(nc):
                d = decide(ph, '%s.ex%d.col%d' % (tag, j, c))
                if d:
                    col = c
                    break
            if col is None:
                unknown.append(ph)
                res.append(('val', 'lit:""'))
            else:
                res.append(('val', '%s.ex%d.r%d.c%d' % (tag, j, r, col)))
        return tuple(res)
    for j, tb in enumerate(sh.tables):
        if tb is None:
            continue
        nc, nr = tb
        for r in range(nr):
            unknown = []
            name = subst(sh.name, tag + '.name', j, r, unknown)
            steps = []
            for i, s in enumerate(sh.steps):
                steps.append({'value': subst(s['value'], '%s.s%d.v' % (tag, i), j, r, unknown),
                              'doc': subst(s['doc'], '%s.s%d.d' % (tag, i), j, r, unknown) if s['doc'] is not None else None,
                              'table': [[subst(c, '%s.s%d.t%d.%d' % (tag, i, rr, k), j, r, unknown) for k, c in enumerate(row)] for rr, row in enumerate(s['table'])] if s['table'] is not None else None})
            if unknown:
                out.append(('err', set(unknown)))
            else:
                out.append(('ok', {'name': name, 'steps': steps, 'tags': [tag + '.tag0', tag + '.tag1'] + ([] if j in sh.untagged else ['%s.ex%d.tag' % (tag, j)]), 'table': j, 'row': r}))
    return out


def compare(ex, sh, tag, got, exp, in_desc):
    """-> dict obligation -> error text | None"""
    errs = {}
    if exp is None:
        ok = len(got) == 1 and got[0][0] == 'ok' and {k: got[0][1][k] for k in ('name', 'steps', 'tags')} == {k: in_desc[k] for k in ('name', 'steps', 'tags')}
        errs['scenario-without-examples-unchanged'] = None if ok else 'a scenario without Examples came back as %s' % (got,)
        return errs
    if any(x[0] == 'err' for x in exp):
        # some placeholder names no column: the feature becomes the FIRST error of the list (how many Ok / Err entries
        # surround it is not observable), and that error has to name an unknown placeholder
        unknown = set().union(*[x[1] for x in exp if x[0] == 'err'])
        gerrs = [g for g in got if g[0] == 'err']
        if not gerrs:
            errs['unknown-placeholder-is-an-error-naming-it'] = 'unknown placeholder(s) %s were expanded silently: %s' % (sorted(unknown), [g[1]['name'] for g in got][:2])
        elif gerrs[0][1] not in unknown:
            errs['unknown-placeholder-is-an-error-naming-it'] = 'the error names %s, the unknown placeholders are %s' % (gerrs[0][1], sorted(unknown))
        else:
            errs['unknown-placeholder-is-an-error-naming-it'] = None
        return errs
    e = None
    if len(got) != len(exp):
        e = '%d scenarios for %d data rows' % (len(got), len(exp))
    errs['one-scenario-per-row-in-table-and-row-order'] = e
    if e:
        return errs
    e_sub = e_tags = e_err = None
    for g, x in zip(got, exp):
        if x[0] == 'err':
            if g[0] != 'err':
                e_err = e_err or 'unknown placeholder(s) %s were expanded silently: %s' % (sorted(x[1]), g[1]['name'])
            elif g[1] not in x[1]:
                e_err = e_err or 'the error names %s, the unknown placeholders are %s' % (g[1], sorted(x[1]))
            continue
        if g[0] != 'ok':
            e_err = e_err or 'row %d of table %d: error %s although every placeholder names a column' % (x[1]['row'], x[1]['table'], g[1])
            continue
        for k in ('name', 'steps'):
            if g[1][k] != x[1][k]:
                e_sub = e_sub or 'row %d of table %d: %s is %s, expected %s' % (x[1]['row'], x[1]['table'], k, g[1][k], x[1][k])
        if g[1]['tags'] != x[1]['tags']:
            e_tags = e_tags or 'row %d of table %d: tags %s, expected %s' % (x[1]['row'], x[1]['table'], g[1]['tags'], x[1]['tags'])
    errs['placeholders-replaced-by-the-rows-column-values'] = e_sub
    errs['tags-are-outlines-then-tables'] = e_tags
    errs['unknown-placeholder-is-an-error-naming-it'] = e_err
    return errs


def layout(sh, tag, sc_line, lines):
    """what a parsed file guarantees about the line numbers: Examples j starts after the outline's steps, its table
    occupies at least rows+1 lines, the next Examples keyword comes after them"""
    cs = [z3.ULT(sc_line, bv(1 << 32))]
    prev_end = sc_line + bv(len(sh.steps))
    for j, L in enumerate(lines):
        cs.append(z3.UGT(L, prev_end))
        cs.append(z3.ULT(L, bv(1 << 32)))
        tb = sh.tables[j]
        prev_end = L + bv((tb[1] + 1) if tb is not None else 0)
    return cs, prev_end


# ---------------------------------------------------------------- native replay
LIT_TEXTS = ['plain', 'x>$1', 'a b', '100%', 'q$0>', 'end.']
VAL_TEXTS = ['v', '<w>', '$1', 'a<b', '>z<', '7']


def truth_table(ex, sh, tag):
    """decided placeholder/column equalities of this path: {(k, j, c): True|False|None}"""
    t = {}
    for j, tb in enumerate(sh.tables):
        if tb is None:
            continue
        for c in range(tb[0]):
            for k in range(sh.nph):
                t[(k, j, c)] = decided(ex, 'ph%d' % k, '%s.ex%d.col%d' % (tag, j, c))
            # does the value contain something the regex crate's `Captures::expand` would treat as a group reference?
            # (asked only by code that expands replacements instead of inserting them literally)
            for r in range(tb[1]):
                vn = '%s.ex%d.r%d.c%d' % (tag, j, r, c)
                b = z3.Bool('has-$-reference(%s)' % vn)
                yes, no = ex.check(b), ex.check(z3.Not(b))
                t[('$', vn)] = yes if yes != no else None
                b = z3.Bool('is-empty(%s)' % vn)       # asked only by code that looks whether a cell is empty
                yes, no = ex.check(b), ex.check(z3.Not(b))
                t[('empty', vn)] = yes if yes != no else None
    # tags that happen to be the same word (asked only by code that compares tags)
    tags = [tag + '.tag0', tag + '.tag1'] + ['%s.ex%d.tag' % (tag, j) for j in range(len(sh.tables)) if j not in sh.untagged]
    for a, b in itertools.combinations(tags, 2):
        t[('tag', a, b)] = decided(ex, a, b)
    return t


class Realizer:
    """concrete .feature text for outlines whose placeholder/column equalities are given (truth tables per scenario tag)"""

    def __init__(self, scen, truths):
        # scen: list of (tag, shape); truths: {tag: {(k, j, c): bool|None}}
        self.scen, self.truths = scen, truths
        nodes = set()
        for tag, sh in scen:
            nodes |= {'ph%d' % k for k in range(sh.nph)}
            nodes |= {'%s.c%d.%d' % (tag, j, c) for j, tb in enumerate(sh.tables) if tb for c in range(tb[0])}
        parent = {n: n for n in nodes}

        def find(n):
            while parent[n] != n:
                n = parent[n]
            return n
        self.ok = True
        for tag, sh in scen:
            for (k, j, c), v in [kv for kv in truths[tag].items() if kv[0][0] not in ('$', 'tag', 'empty')]:
                if v:
                    parent[find('ph%d' % k)] = find('%s.c%d.%d' % (tag, j, c))
        for tag, sh in scen:
            for (k, j, c), v in [kv for kv in truths[tag].items() if kv[0][0] not in ('$', 'tag', 'empty')]:
                if v is False and find('ph%d' % k) == find('%s.c%d.%d' % (tag, j, c)):
                    self.ok = False
            for j, tb in enumerate(sh.tables):
                if tb and len(set(find('%s.c%d.%d' % (tag, j, c)) for c in range(tb[0]))) != tb[0]:
                    self.ok = False
        cls = {}
        self.name = {n: 'n%d' % cls.setdefault(find(n), len(cls)) for n in sorted(nodes)}
        self.lit, self.val = {}, {}
        # tags decided equal on the path are written as the same word
        tparent = {}

        def tfind(n):
            tparent.setdefault(n, n)
            while tparent[n] != n:
                n = tparent[n]
            return n
        for tag, sh in scen:
            for key, v in truths[tag].items():
                if key[0] == 'tag' and v:
                    ra, rb = sorted((tfind(key[1]), tfind(key[2])))
                    tparent[rb] = ra
        for tag, sh in scen:
            for key, v in truths[tag].items():
                if key[0] == 'tag' and v is False and tfind(key[1]) == tfind(key[2]):
                    self.ok = False
        self.tagname = {n: tfind(n) for n in list(tparent)}

    def lit_text(self, i):
        return self.lit.setdefault(i, '%s%d' % (LIT_TEXTS[len(self.lit) % len(LIT_TEXTS)], len(self.lit)))

    def tmpl_text(self, parts, ttag):
        out = ''
        for i, p in enumerate(parts):
            out += self.lit_text('%s.%d' % (ttag, i)) if p == 'L' else '<%s>' % self.name['ph%s' % p[1:]]
        return out

    def block(self, sh, tag, ind):
        tn = lambda x: self.tagname.get(x, x)  # noqa
        L = ['%s@%s @%s' % (ind, tn(tag + '.tag0'), tn(tag + '.tag1')), '%sScenario Outline: %s' % (ind, self.tmpl_text(sh.name, tag + '.name'))]
        for i, s in enumerate(sh.steps):
            L.append('%s  Given %s' % (ind, self.tmpl_text(s['value'], '%s.s%d.v' % (tag, i))))
            if s['doc'] is not None:
                L += ['%s    """' % ind, '%s    %s' % (ind, self.tmpl_text(s['doc'], '%s.s%d.d' % (tag, i))), '%s    """' % ind]
            if s['table'] is not None:
                for r, row in enumerate(s['table']):
                    L.append('%s    | %s |' % (ind, ' | '.join(self.tmpl_text(c, '%s.s%d.t%d.%d' % (tag, i, r, k)) for k, c in enumerate(row))))
        for j, tb in enumerate(sh.tables):
            L += ([] if j in sh.untagged else ['%s  @%s' % (ind, tn('%s.ex%d.tag' % (tag, j)))]) + ['%s  Examples:' % ind]
            if tb is None:
                continue
            nc, nr = tb
            L.append('%s    | %s |' % (ind, ' | '.join(self.name['%s.c%d.%d' % (tag, j, c)] for c in range(nc))))
            for r in range(nr):
                cells = []
                for c in range(nc):
                    vn = '%s.ex%d.r%d.c%d' % (tag, j, r, c)
                    dollar = self.truths[tag].get(('$', vn))
                    if self.truths[tag].get(('empty', vn)) is True:
                        v = ''                                        # an empty Examples cell
                    elif dollar is True:
                        v = 'US${1}z%d' % len(self.val)               # `${1}` = capture group 1 of the template regex
                    elif dollar is False:
                        v = '%s%d' % ([x for x in VAL_TEXTS if '$' not in x][len(self.val) % 5], len(self.val))
                    else:
                        v = '%s%d' % (VAL_TEXTS[len(self.val) % len(VAL_TEXTS)], len(self.val))
                    self.val[vn] = v
                    cells.append(v)
                L.append('%s    | %s |' % (ind, ' | '.join(cells)))
        return L

    def render(self, parts):
        out = ''
        for p in parts:
            if p[0] == 'lit':
                out += self.lit_text(p[1])
            elif p[0] == 'ph':
                out += '<%s>' % self.name[p[1]]
            elif p[1] == 'lit:""':
                out += ''
            elif p[1].startswith('expand('):
                # what `Captures::expand` makes of the value chosen for a "has a $-reference" value: `${1}` -> group 1
                vn, ph = p[1][len('expand('):-1].split('|')
                out += self.val[vn].replace('${1}', self.name.get(ph, ph))
            else:
                out += self.val[p[1]]
        return out


def realize(sh, tag, truth):
    """-> (feature text, render, names) for a concrete .feature file realising one outline and its equalities, or None when
    the equalities are not realisable by names (the Booleans are independent in the model)."""
    R = Realizer([(tag, sh)], {tag: truth})
    if not R.ok:
        return None
    text = '\n'.join(['Feature: f'] + R.block(sh, tag, '  ')) + '\n'
    names = dict(R.name)
    for k, v in list(names.items()):
        if k.startswith(tag + '.c'):
            names[k[len(tag) + 1:]] = v
    names['__tagname__'] = dict(R.tagname)
    return text, R.render, names


def native_expand(chk, text, tagname):
    """-> ('err', name) | ('ok', [scenario dicts with rendered strings]) from the real expand_examples, or None"""
    import os
    from checks import replay
    d = os.path.join(common.EVID, 'replay')
    os.makedirs(d, exist_ok=True)
    path = os.path.join(d, '%s-outline-%s.script' % (chk.prop, tagname))
    script = 'mode outline\n' + ''.join('| %s\n' % ln if ln else '|\n' for ln in text.split('\n')[:-1])
    r, out = replay.run_script(script, path, timeout=60)
    chk.replays += 1
    if r is None:
        return None, path, out
    unesc = lambda x: x.replace('\\n', '\n').replace('\\\\', '\\')  # noqa
    res, cur = [], None
    for ln in out.splitlines():
        if ln.startswith('ERROR name='):
            return ('err', ln[len('ERROR name='):]), path, out
        if ln.startswith('SCENARIO '):
            m = re.match(r'SCENARIO where=(\w+) name=(.*) line=(\d+) tags=(.*)$', ln)
            cur = {'where': m.group(1), 'name': unesc(m.group(2)), 'line': int(m.group(3)), 'tags': [t for t in m.group(4).split(',') if t], 'steps': []}
            res.append(cur)
        elif ln.startswith('STEP value='):
            cur['steps'].append({'value': unesc(ln[len('STEP value='):]), 'doc': None, 'table': None})
        elif ln.startswith('DOC '):
            cur['steps'][-1]['doc'] = unesc(ln[4:]).strip('\n')     # gherkin keeps the line breaks around the doc string's body
        elif ln.startswith('CELL '):
            m = re.match(r'CELL (\d+) (\d+) (.*)$', ln)
            tb = cur['steps'][-1]['table'] = cur['steps'][-1]['table'] or []
            while len(tb) <= int(m.group(1)):
                tb.append([])
            tb[int(m.group(1))].append(unesc(m.group(3)))
    return ('ok', res), path, out


def native_judge(sh, tag, truth, got, render, name):
    """the same comparison as `compare`, on the concrete strings the real code produced; -> dict obligation -> error | None"""
    class FakeEx:
        pass

    def dec(a, b, truth=truth):
        k = int(a[2:])
        m = re.match(r'.*\.ex(\d+)\.col(\d+)$', b)
        return truth.get((k, int(m.group(1)), int(m.group(2))))
    exp = expected(None, sh, tag, decide=dec)
    errs = {}
    if exp is None:
        errs['scenario-without-examples-unchanged'] = None if got[0] == 'ok' and len(got[1]) == 1 else 'a scenario without Examples came back as %d scenarios' % (len(got[1]) if got[0] == 'ok' else -1)
        return errs
    want = []
    for x in exp:
        if x[0] == 'err':
            want.append(('err', set(name[p] for p in x[1])))
        else:
            d = x[1]
            want.append(('ok', {'name': render(d['name']), 'tags': [name.get('__tagname__', {}).get(t, t) for t in d['tags']],
                                'steps': [{'value': render(s['value']), 'doc': render(s['doc']) if s['doc'] is not None else None,
                                           'table': [[render(c) for c in row] for row in s['table']] if s['table'] is not None else None} for s in d['steps']]}))
    unknown = [w for w in want if w[0] == 'err']
    if unknown:
        names = set().union(*[w[1] for w in unknown])
        if got[0] != 'err':
            errs['unknown-placeholder-is-an-error-naming-it'] = 'placeholders %s name no column but the feature expanded without an error' % sorted(names)
        elif got[1] not in names:
            errs['unknown-placeholder-is-an-error-naming-it'] = 'the error names %s, the unknown placeholders are %s' % (got[1], sorted(names))
        else:
            errs['unknown-placeholder-is-an-error-naming-it'] = None
        return errs
    if got[0] != 'ok':
        errs['unknown-placeholder-is-an-error-naming-it'] = 'error %s although every placeholder names a column' % got[1]
        return errs
    g = got[1]
    errs['one-scenario-per-row-in-table-and-row-order'] = None if len(g) == len(want) else '%d scenarios for %d data rows' % (len(g), len(want))
    if len(g) != len(want):
        return errs
    e_sub = e_tags = None
    for a, w in zip(g, want):
        if a['name'] != w[1]['name'] or a['steps'] != w[1]['steps']:
            e_sub = e_sub or 'expanded %r / %r, expected %r / %r' % (a['name'], a['steps'], w[1]['name'], w[1]['steps'])
        if a['tags'] != w[1]['tags']:
            e_tags = e_tags or 'tags %s, expected %s' % (a['tags'], w[1]['tags'])
    errs['placeholders-replaced-by-the-rows-column-values'] = e_sub
    errs['tags-are-outlines-then-tables'] = e_tags
    lines = [a['line'] for a in g]
    errs['expanded-positions-pairwise-distinct'] = None if len(set(lines)) == len(lines) else 'positions (lines) %s' % lines
    return errs


def confirm(chk, o, name):
    sh, truth = o.shape, o.truth
    rz = realize(sh, 'sc', truth)
    if rz is None:
        o.verdict = 'inconclusive'
        o.detail += ' | the equalities of this path are not realisable by concrete names - not replayed'
        return
    text, render, nm = rz
    got, path, out = native_expand(chk, text, re.sub(r'[^a-z0-9]+', '-', name))
    if got is None:
        o.verdict = 'inconclusive'
        o.detail += ' | native replay failed: %s' % out[-300:]
        return
    errs = native_judge(sh, 'sc', truth, got, render, nm)
    if errs.get(name):
        chk.replay_files.append(path)
        o.replay = path
        o.detail += ' | reproduced natively through the real expand_examples on a generated .feature: %s' % errs[name][:300]
    else:
        o.verdict = 'inconclusive'
        o.detail += ' | not reproduced natively (the real expand_examples output satisfies the checker on the generated .feature)'


def confirm_feature(chk, o, name):
    """native replay of a feature-level counterexample: plain scenarios and outlines at top level and in a rule"""
    top, rule = o.feature
    R = Realizer([x for x in top + rule], o.truths)
    if not R.ok:
        o.verdict = 'inconclusive'
        o.detail += ' | the equalities of this path are not realisable by concrete names - not replayed'
        return
    L = ['Feature: f']
    for tag, sh in top:
        L += R.block(sh, tag, '  ')
    L.append('  Rule: r')
    for tag, sh in rule:
        L += R.block(sh, tag, '    ')
    text = '\n'.join(L).replace('Scenario Outline: ', 'Scenario Outline: ') + '\n'
    got, path, out = native_expand(chk, text, re.sub(r'[^a-z0-9]+', '-', name))
    if got is None:
        o.verdict = 'inconclusive'
        o.detail += ' | native replay failed: %s' % out[-300:]
        return

    def dec_for(tag):
        def dec(a, b, tag=tag):
            m = re.match(r'.*\.ex(\d+)\.col(\d+)$', b)
            return o.truths[tag].get((int(a[2:]), int(m.group(1)), int(m.group(2))))
        return dec
    want = {'top': [], 'rule': []}
    unknown = set()
    for where, lst in (('top', top), ('rule', rule)):
        for tag, sh in lst:
            e = expected(None, sh, tag, decide=dec_for(tag))
            if e is None:
                want[where].append(R.render(tuple(('lit', '%s.name.%d' % (tag, i)) for i, p in enumerate(sh.name))))
                continue
            for x in e:
                if x[0] == 'err':
                    unknown |= set(R.name[p] for p in x[1])
                else:
                    want[where].append(R.render(x[1]['name']))
    err = None
    if unknown:
        if got[0] != 'err':
            err = 'placeholders %s name no column but the real expand_examples returned a feature' % sorted(unknown)
        elif got[1] not in unknown:
            err = 'the error names %s, the unknown placeholders are %s' % (got[1], sorted(unknown))
    elif got[0] == 'err':
        err = 'error %s although every placeholder names a column' % got[1]
    else:
        for where in ('top', 'rule'):
            names = [a['name'] for a in got[1] if a['where'] == where]
            if names != want[where] and err is None:
                err = '%s: scenarios %s, expected %s' % (where, names, want[where])
    if err:
        chk.replay_files.append(path)
        o.replay = path
        o.detail += ' | reproduced natively through the real expand_examples on a generated .feature: %s' % err[:300]
    else:
        o.verdict = 'inconclusive'
        o.detail += ' | not reproduced natively (the real expand_examples handles the generated .feature as specified)'


def feature_level(chk, ob, shs):
    """`<gherkin::Feature as Ext>::expand_examples` on a feature with plain scenarios around an outline at top level and an
    outline + a plain scenario inside a rule: expansions appear in the outline's place, in order; any unknown placeholder
    turns the whole feature into one error naming an unknown placeholder."""
    prog = chk.prog
    ee = [b for (st, m), lst in prog.by_method.items() if m == 'expand_examples' for tr, b in lst]
    if len(ee) != 1:
        raise Inconclusive('expand_examples: %d candidates' % len(ee))
    by = {s.label: s for s in shs}
    plain = Shape('plain', ['L'], [dict(value=['L'], doc=None, table=None)], [], 0)
    rowless = Shape('rowless', ['L', 'P0'], [dict(value=['P0'], doc=None, table=None)], [(1, 0), None], 1)
    total = 0
    # second configuration: no Examples table of the whole feature has a data row - the outlines expand to nothing
    for top, rule in (([('p0', plain), ('t1', by['two-tables']), ('p1', plain)], [('r0', by['two-rows']), ('p2', plain)]),
                      ([('p0', plain), ('t1', rowless)], [('r0', rowless), ('p2', plain)])):
        total += _feature_level(chk, ob, ee, top, rule)
    return total


def _feature_level(chk, ob, ee, top, rule):
    ex, M = chk.new_exec(loop_bound=40, max_paths=4000)
    n = [0]

    def run(ex_):
        B = Builder(chk, ex_)
        built = {}

        def mk(lst):
            out = []
            for tag, sh in lst:
                line = z3.BitVec('%s.line' % tag, 64)
                sc, lines = B.scenario(sh, tag, line)
                for c in layout(sh, tag, line, lines)[0]:
                    ex_.add(c)
                for j, tb in enumerate(sh.tables):
                    if tb is not None:
                        for c1, c2 in itertools.combinations(range(tb[0]), 2):
                            for k in range(sh.nph):
                                ex_.add(z3.Not(z3.And(*[z3.Bool('ph%d==%s.ex%d.col%d' % (k, tag, j, c)) for c in (c1, c2)])))
                built[tag] = read_scenario(ex_, M, B, sc)
                out.append(sc)
            return out
        tops, rules_sc = mk(top), mk(rule)
        rl = B.st('Rule', keyword=B.sym('Rule'), name=B.sym('rule'), description=B.opt(None, 'String'), background=B.opt(None, 'Background'),
                  scenarios=B.vec(rules_sc, 'Vec<Scenario>'), tags=B.vec([], 'Vec<String>'), span=B.span(), position=B.linecol(bv(1)))
        feat = B.st('Feature', keyword=B.sym('Feature'), name=B.sym('f'), description=B.opt(None, 'String'), background=B.opt(None, 'Background'),
                    scenarios=B.vec(tops, 'Vec<Scenario>'), rules=B.vec([rl], 'Vec<Rule>'), tags=B.vec([], 'Vec<String>'), span=B.span(),
                    position=B.linecol(bv(0)), path=Adt('Option<PathBuf>', {}, 0))
        out = ex_.materialize(ex_.call_body(ee[0], [feat]))
        if z3.simplify(M.discr(ex_, out)).as_long() == 1:
            EF = ex_.prog.tables.struct_fields('feature::ExpandExamplesError')
            e = ex_.materialize(ex_.field_of(out, 1, 0, 'ExpandExamplesError'))
            return {'err': sname(M.str_of(ex_, ex_.field_of(e, None, EF.index('name'), 'String'))), 'in': built}
        f = ex_.materialize(ex_.field_of(out, 0, 0, 'gherkin::Feature'))
        fs = [read_scenario(ex_, M, B, x) for x in M.seq_of(ex_, ex_.field_of(f, None, B.F['Feature'].index('scenarios'), 'Vec'))]
        rls = M.seq_of(ex_, ex_.field_of(f, None, B.F['Feature'].index('rules'), 'Vec'))
        rs = [read_scenario(ex_, M, B, x) for r_ in rls for x in M.seq_of(ex_, ex_.field_of(ex_.materialize(r_), None, B.F['Rule'].index('scenarios'), 'Vec'))]
        return {'top': fs, 'rule': rs, 'in': built}

    def on_end(ex_, rec):
        kind, res, pc, dec = rec
        n[0] += 1
        o = ob('completes')
        o.paths += 1
        if kind != 'ok':
            if o.verdict != 'violated':
                o.verdict = 'violated' if kind == 'panic' else 'inconclusive'
                o.detail = '%s: %s (feature level)' % (kind, res)
            return

        def want(lst):
            out = []
            for tag, sh in lst:
                e = expected(ex_, sh, tag)
                if e is None:
                    out.append(('ok', {k: res['in'][tag][k] for k in ('name', 'steps', 'tags')}))
                else:
                    out += e
            return out
        wt, wr = want(top), want(rule)
        truths = {tag: truth_table(ex_, sh, tag) for tag, sh in top + rule}
        unknown = set().union(*([x[1] for x in wt + wr if x[0] == 'err'] or [set()]))

        def flag(o, detail):
            if o.verdict != 'violated' or (not Realizer(top + rule, getattr(o, 'truths', truths)).ok and Realizer(top + rule, truths).ok):
                o.verdict, o.detail = 'violated', detail
                o.truths, o.feature = truths, (top, rule)
        o1 = ob('feature.unknown-placeholder-turns-the-feature-into-one-error')
        o1.paths += 1
        if unknown or 'err' in res:
            if not unknown:
                flag(o1, 'error %s although every placeholder names a column' % res.get('err'))
            elif 'err' not in res:
                flag(o1, 'placeholders %s name no column but the feature expanded' % sorted(unknown))
            elif res['err'] not in unknown:
                flag(o1, 'the error names %s, unknown are %s' % (res['err'], sorted(unknown)))
            return
        o2 = ob('feature.expansions-in-the-outlines-place-top-level-and-in-rules')
        o2.paths += 1
        for got, w, where in ((res['top'], wt, 'top level'), (res['rule'], wr, 'rule')):
            g = [{k: x[k] for k in ('name', 'steps', 'tags')} for x in got]
            ww = [{k: x[1][k] for k in ('name', 'steps', 'tags')} for x in w]
            if g != ww:
                flag(o2, '%s: scenarios %s, expected %s' % (where, [x['name'] for x in g], [x['name'] for x in ww]))
    ex.explore(run, on_end)
    return n[0]


PROP = ['C16']


@common.part
def obligations(chk, prop):
    PROP[0] = prop
    try:
        body(chk)
    finally:
        PROP[0] = 'C16'


def body(chk):
    prog = chk.prog
    es = prog.bodies.get('expand_scenario') or prog.bodies.get('feature::expand_scenario')
    if es is None:
        raise Inconclusive('expand_scenario not found')
    shs = shapes(chk.tier)
    bound = 'expand_scenario on %d outline shapes (<= 3 placeholders, <= 2 steps with doc string / step table, <= 3 Examples tables of <= 2 columns and <= 3 rows, header-only and table-less Examples); placeholder-names-column decided by the solver per pair; Examples line numbers symbolic under the layout of a parsed file' % len(shs)
    obs = {}

    def ob(name):
        if name not in obs:
            obs[name] = chk.add(Obligation('%s.%s%s' % (PROP[0], '' if PROP[0] == 'C16' else 'outline.', name), bound))
            obs[name].verdict = 'holds'
        return obs[name]
    npaths = 0
    samples = []
    for sh in shs:
        ex, M = chk.new_exec(loop_bound=40, max_paths=4000)

        def run(ex_, sh=sh, M=M):
            B = Builder(chk, ex_)
            line = z3.BitVec('sc.line', 64)
            sc, lines = B.scenario(sh, 'sc', line)
            cs, _ = layout(sh, 'sc', line, lines)
            for c in cs:
                ex_.add(c)
            # distinct column names inside one table (a table with two equal headers has no "column `name`")
            for j, tb in enumerate(sh.tables):
                if tb is not None:
                    for c1, c2 in itertools.combinations(range(tb[0]), 2):
                        for k in range(sh.nph):
                            a, b = ['ph%d==sc.ex%d.col%d' % (k, j, c) for c in (c1, c2)]
                            ex_.add(z3.Not(z3.And(z3.Bool(a), z3.Bool(b))))
            in_desc = read_scenario(ex_, M, B, sc)
            out = ex_.call_body(es, [sc, Adt('Option<&PathBuf>', {}, 0)])
            got = read_results(ex_, M, B, out)
            return {'got': got, 'in': in_desc, 'B': B}

        def on_end(ex_, rec, sh=sh):
            nonlocal npaths
            kind, res, pc, dec = rec
            npaths += 1
            o = ob('completes')
            o.paths += 1
            if kind != 'ok':
                if o.verdict != 'violated':
                    o.verdict = 'violated' if kind == 'panic' else 'inconclusive'
                    o.detail = '%s: %s (shape %s)' % (kind, res, sh.label)
                return
            exp = expected(ex_, sh, 'sc')
            truth = truth_table(ex_, sh, 'sc')
            if len(samples) < 40 and exp is not None:
                samples.append((sh, truth, res['got']))
            for name, err in compare(ex_, sh, 'sc', res['got'], exp, res['in']).items():
                o = ob(name)
                o.paths += 1
                if err and o.verdict != 'violated' and (realize(sh, 'sc', truth) is not None or not getattr(o, 'shape', None)):
                    o.verdict, o.detail = 'violated', '%s (shape %s)' % (err, sh.label)
                    o.shape, o.truth = sh, truth
            # positions pairwise distinct: a solver query over the symbolic line numbers
            oks = [g[1] for g in res['got'] if g[0] == 'ok']
            if exp is not None and len(oks) > 1:
                o = ob('expanded-positions-pairwise-distinct')
                o.paths += 1
                o.queries += 1
                clash = z3.Or(*[a['line'] == b['line'] for a, b in itertools.combinations(oks, 2)])
                if ex_.check(clash) and o.verdict != 'violated':
                    m = ex_.solver.model()
                    o.verdict = 'violated'
                    o.shape, o.truth = sh, truth
                    o.detail = 'two expanded scenarios share a position (shape %s): lines %s' % (sh.label, [str(m.eval(a['line'], model_completion=True)) for a in oks])
        ex.explore(run, on_end)
    npaths += feature_level(chk, ob, shs)
    for name, o in list(obs.items()):
        if o.verdict == 'violated' and getattr(o, 'shape', None) is not None:
            confirm(chk, o, name)
        elif o.verdict == 'violated' and getattr(o, 'feature', None) is not None:
            confirm_feature(chk, o, name)
    # translator validation: explored paths realised as .feature files must expand natively to what the symbolic run produced
    agree = chk.add(Obligation('%s.%smodel-agrees-with-native-expand_examples' % (PROP[0], '' if PROP[0] == 'C16' else 'outline.'), 'sampled explored paths'))
    agree.kind = 'witness'
    agree.verdict = 'witness-ok'
    n = 0
    step = max(1, len(samples) // (3 if chk.tier == 'quick' else 12))
    for sh, truth, got_model in samples[::step]:
        rz = realize(sh, 'sc', truth)
        if rz is None:
            continue
        text, render, nm = rz
        got, path, out = native_expand(chk, text, 'agree-%d' % n)
        n += 1
        if got is None:
            agree.verdict, agree.detail = 'witness-missing', 'native replay failed: %s' % out[-200:]
            break
        if got_model and all(g[0] == 'ok' for g in got_model):
            mine = [{'name': render(g[1]['name']), 'steps': [{'value': render(s_['value']), 'doc': render(s_['doc']) if s_['doc'] is not None else None,
                                                             'table': [[render(c) for c in row] for row in s_['table']] if s_['table'] is not None else None} for s_ in g[1]['steps']]} for g in got_model]
            theirs = [{'name': a['name'], 'steps': a['steps']} for a in got[1]] if got[0] == 'ok' else got
            if mine != theirs:
                agree.verdict = 'witness-missing'
                agree.detail = 'symbolic run and the native expand_examples disagree on shape %s: %s vs %s' % (sh.label, mine, theirs)
                break
        elif got_model and got[0] != 'err':
            agree.verdict = 'witness-missing'
            agree.detail = 'symbolic run reports an error, the native expand_examples does not (shape %s)' % sh.label
            break
    if agree.verdict == 'witness-ok':
        agree.detail = '%d paths replayed natively: identical expansion' % n
        if n == 0:
            agree.verdict, agree.detail = 'witness-missing', 'no path could be realised'
    w = chk.add(Obligation('%s.%switness' % (PROP[0], '' if PROP[0] == 'C16' else 'outline.'), 'exploration'))
    w.kind = 'witness'
    w.verdict = 'witness-ok' if npaths >= 10 and len(obs) >= 6 else 'witness-missing'
    w.detail = '%d paths, obligations %s' % (npaths, sorted(obs))


if __name__ == '__main__':
    common.main('C16', body)
