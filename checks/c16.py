"""C16 - scenario outlines expand to one correctly substituted scenario per example row.

Kernels: `expand_scenario` with all its closures and `<gherkin::Feature as Ext>::expand_examples` from MIR.
Strings are template strings (mirsmt/models_text.py): literal stretches, placeholders with symbolic names and
substituted values; `Regex::replace_all` of the template regex (pattern read from the static's initialiser in the
MIR) is modelled on that representation.  Whether a placeholder names a column is a solver-decided Boolean per
(placeholder, column) pair, so every matching pattern is explored; Examples positions are symbolic line numbers.
"""
import itertools
import re

import z3

from checks import common
from checks.common import Obligation
from mirsmt.values import Cell, Lazy, Adt, Ref, Obj, UNIT, bv
from mirsmt.interp import Inconclusive, PathEnd


class Shape:
    """an outline: name / steps templates and Examples tables.
    templates: list of parts 'L' (literal) | 'P<k>' (placeholder number k) ; tables: list of (ncols, nrows) | None (no table)"""

    def __init__(self, label, name, steps, tables, nph):
        self.label, self.name, self.steps, self.tables, self.nph = label, name, steps, tables, nph


def shapes(tier):
    S = Shape
    out = [
        S('two-rows', ['L', 'P0', 'L'], [dict(value=['P0', 'P1'], doc=['L', 'P1'], table=[[['P0'], ['L']]])], [(2, 2)], 2),
        S('two-tables', ['P0'], [dict(value=['L', 'P0', 'L', 'P0'], doc=None, table=None), dict(value=['L'], doc=None, table=None)], [(1, 1), (1, 2)], 1),
        S('header-only-and-no-table', ['L'], [dict(value=['P0'], doc=None, table=None)], [(1, 0), None, (1, 1)], 1),
        S('no-examples', ['L', 'P0'], [dict(value=['P0'], doc=None, table=None)], [], 1),
    ]
    if tier == 'thorough':
        out += [S('three-ph', ['P0', 'P1', 'P2'], [dict(value=['P2', 'L', 'P0'], doc=['P1'], table=[[['P0', 'P1']], [['P2', 'L']]])], [(2, 1), (2, 2)], 3),
                S('three-rows', ['P0'], [dict(value=['P0', 'L'], doc=None, table=None)], [(1, 3)], 1)]
    return out


class Builder:
    def __init__(self, chk, ex):
        t = chk.prog.tables
        self.F = {n: t.struct_fields('gherkin::' + n) for n in ('Feature', 'Rule', 'Scenario', 'Step', 'Examples', 'Table', 'LineCol', 'Span')}
        for n, fl in self.F.items():
            if not isinstance(fl, list):
                raise Inconclusive('gherkin::%s fields' % n)
        self.ex = ex
        self.n = 0

    def st(self, n, **kw):
        fl = self.F[n]
        return Adt('gherkin::' + n, {(None, fl.index(k)): v for k, v in kw.items()}, None, None)

    def sym(self, nm):
        return Obj('symstr', name=nm)

    def vec(self, items, ty='Vec<?>'):
        return Obj('vec', items=tuple(items), ty=ty)

    def linecol(self, line, col=None):
        return self.st('LineCol', line=line, col=col if col is not None else bv(3))

    def span(self):
        return self.st('Span', start=bv(0), end=bv(0))

    def tmpl(self, parts, tag):
        out = []
        for i, p in enumerate(parts):
            if p == 'L':
                out.append(('lit', '%s.%d' % (tag, i)))
            else:
                out.append(('ph', self.sym('ph%s' % p[1:])))
        return Obj('tstr', parts=tuple(out))

    def table(self, rows, line):
        return self.st('Table', rows=self.vec([self.vec(r, 'Vec<String>') for r in rows], 'Vec<Vec<String>>'), span=self.span(), position=self.linecol(line))

    def opt(self, v, ty):
        return Adt('Option<%s>' % ty, {(1, 0): v}, 1) if v is not None else Adt('Option<%s>' % ty, {}, 0)

    def scenario(self, sh, tag, line):
        steps = []
        for i, s in enumerate(sh.steps):
            tb = None
            if s['table'] is not None:
                tb = self.table([[self.tmpl(c, '%s.s%d.t%d.%d' % (tag, i, r, k)) for k, c in enumerate(row)] for r, row in enumerate(s['table'])], bv(0))
            steps.append(self.st('Step', keyword=self.sym('kw'), ty=Adt('gherkin::StepType', {}, 0), value=self.tmpl(s['value'], '%s.s%d.v' % (tag, i)),
                                 docstring=self.opt(self.tmpl(s['doc'], '%s.s%d.d' % (tag, i)) if s['doc'] is not None else None, 'String'),
                                 table=self.opt(tb, 'Table'), span=self.span(), position=self.linecol(line + bv(1 + i))))
        exs, lines = [], []
        for j, tb in enumerate(sh.tables):
            L = z3.BitVec('%s.ex%d.line' % (tag, j), 64)
            lines.append(L)
            t = None
            if tb is not None:
                nc, nr = tb
                rows = [[self.sym('%s.ex%d.col%d' % (tag, j, c)) for c in range(nc)]]
                rows += [[self.sym('%s.ex%d.r%d.c%d' % (tag, j, r, c)) for c in range(nc)] for r in range(nr)]
                t = self.table(rows, L + bv(1))
            exs.append(self.st('Examples', keyword=self.sym('Examples'), name=self.opt(None, 'String'), description=self.opt(None, 'String'),
                               table=self.opt(t, 'Table'), tags=self.vec([self.sym('%s.ex%d.tag' % (tag, j))], 'Vec<String>'), span=self.span(),
                               position=self.linecol(L, bv(5))))
        sc = self.st('Scenario', keyword=self.sym('Scenario Outline'), name=self.tmpl(sh.name, tag + '.name'), description=self.opt(None, 'String'),
                     steps=self.vec(steps, 'Vec<Step>'), examples=self.vec(exs, 'Vec<Examples>'),
                     tags=self.vec([self.sym(tag + '.tag0'), self.sym(tag + '.tag1')], 'Vec<String>'), span=self.span(), position=self.linecol(line))
        return sc, lines


# ---------------------------------------------------------------- reading values back
def sname(v):
    if isinstance(v, Obj) and v.kind == 'symstr':
        return v.name
    if isinstance(v, Obj) and v.kind == 'str':
        return 'lit:' + v.text
    return repr(v)


def tparts(ex, M, v):
    """template string value -> tuple of ('lit', id) | ('ph', name) | ('val', name)"""
    v = M.str_of(ex, v)
    if isinstance(v, Obj) and v.kind == 'tstr':
        return tuple((p[0], p[1] if p[0] == 'lit' else sname(p[1])) for p in v.parts)
    return (('val', sname(v)),)


def read_scenario(ex, M, B, v):
    F = B.F
    v = ex.materialize(v)

    def f(val, st, name, ty='?'):
        return ex.materialize(ex.field_of(val, None, F[st].index(name), ty))

    def opt(o):
        o = ex.materialize(o)
        return ex.materialize(ex.field_of(o, 1, 0, '?')) if z3.simplify(M.discr(ex, o)).as_long() == 1 else None
    steps = []
    for s in M.seq_of(ex, f(v, 'Scenario', 'steps')):
        s = ex.materialize(s)
        doc = opt(f(s, 'Step', 'docstring'))
        tb = opt(f(s, 'Step', 'table'))
        rows = None
        if tb is not None:
            rows = [[tparts(ex, M, c) for c in M.seq_of(ex, r)] for r in M.seq_of(ex, f(tb, 'Table', 'rows'))]
        steps.append({'value': tparts(ex, M, f(s, 'Step', 'value')), 'doc': tparts(ex, M, doc) if doc is not None else None, 'table': rows})
    pos = f(v, 'Scenario', 'position')
    return {'name': tparts(ex, M, f(v, 'Scenario', 'name')), 'steps': steps,
            'tags': [sname(M.str_of(ex, t)) for t in M.seq_of(ex, f(v, 'Scenario', 'tags'))],
            'line': ex.materialize(ex.field_of(pos, None, F['LineCol'].index('line'), 'usize'), 'usize'),
            'n_examples': len(M.seq_of(ex, f(v, 'Scenario', 'examples')))}


def read_results(ex, M, B, out):
    """Vec<Result<Scenario, ExpandExamplesError>> -> list of ('ok', scenario dict) | ('err', placeholder name)"""
    EF = ex.prog.tables.struct_fields('feature::ExpandExamplesError')
    res = []
    for r in M.seq_of(ex, out):
        r = ex.materialize(r)
        if z3.simplify(M.discr(ex, r)).as_long() == 0:
            res.append(('ok', read_scenario(ex, M, B, ex.field_of(r, 0, 0, 'gherkin::Scenario'))))
        else:
            e = ex.materialize(ex.field_of(r, 1, 0, 'ExpandExamplesError'))
            res.append(('err', sname(M.str_of(ex, ex.field_of(e, None, EF.index('name'), 'String')))))
    return res


# ---------------------------------------------------------------- reference (from the property text)
def decided(ex, a, b):
    """truth of the string equality of two symbolic names on this path: True / False / None (never compared)"""
    for x, y in ((a, b), (b, a)):
        t = z3.Bool('%s==%s' % (x, y))
        yes, no = ex.check(t), ex.check(z3.Not(t))
        if yes != no:
            return yes
    return None


def expected(ex, sh, tag):
    """-> list of ('ok', dict) | ('err', set of unknown placeholder names) in table and row order, or None when the outline has no Examples"""
    if not sh.tables:
        return None
    out = []

    def subst(parts, ttag, j, r, unknown):
        res = []
        for i, p in enumerate(parts):
            if p == 'L':
                res.append(('lit', '%s.%d' % (ttag, i)))
                continue
            ph = 'ph%s' % p[1:]
            nc = sh.tables[j][0]
            col = None
            for c in range(nc):
                d = decided(ex, ph, '%s.ex%d.col%d' % (tag, j, c))
                if d:
                    col = c
                    break
            if col is None:
                unknown.append(ph)
                res.append(('val', 'lit:""'))
            else:
                res.append(('val', '%s.ex%d.r%d.c%d' % (tag, j, r, col)))
        return tuple(res)
    for j, tb in enumerate(sh.tables):
        if tb is None:
            continue
        nc, nr = tb
        for r in range(nr):
            unknown = []
            name = subst(sh.name, tag + '.name', j, r, unknown)
            steps = []
            for i, s in enumerate(sh.steps):
                steps.append({'value': subst(s['value'], '%s.s%d.v' % (tag, i), j, r, unknown),
                              'doc': subst(s['doc'], '%s.s%d.d' % (tag, i), j, r, unknown) if s['doc'] is not None else None,
                              'table': [[subst(c, '%s.s%d.t%d.%d' % (tag, i, rr, k), j, r, unknown) for k, c in enumerate(row)] for rr, row in enumerate(s['table'])] if s['table'] is not None else None})
            if unknown:
                out.append(('err', set(unknown)))
            else:
                out.append(('ok', {'name': name, 'steps': steps, 'tags': [tag + '.tag0', tag + '.tag1', '%s.ex%d.tag' % (tag, j)], 'table': j, 'row': r}))
    return out


def compare(ex, sh, tag, got, exp, in_desc):
    """-> dict obligation -> error text | None"""
    errs = {}
    if exp is None:
        ok = len(got) == 1 and got[0][0] == 'ok' and {k: got[0][1][k] for k in ('name', 'steps', 'tags')} == {k: in_desc[k] for k in ('name', 'steps', 'tags')}
        errs['scenario-without-examples-unchanged'] = None if ok else 'a scenario without Examples came back as %s' % (got,)
        return errs
    e = None
    if len(got) != len(exp):
        e = '%d scenarios for %d data rows' % (len(got), len(exp))
    errs['one-scenario-per-row-in-table-and-row-order'] = e
    if e:
        return errs
    e_sub = e_tags = e_err = None
    for g, x in zip(got, exp):
        if x[0] == 'err':
            if g[0] != 'err':
                e_err = e_err or 'unknown placeholder(s) %s were expanded silently: %s' % (sorted(x[1]), g[1]['name'])
            elif g[1] not in x[1]:
                e_err = e_err or 'the error names %s, the unknown placeholders are %s' % (g[1], sorted(x[1]))
            continue
        if g[0] != 'ok':
            e_err = e_err or 'row %d of table %d: error %s although every placeholder names a column' % (x[1]['row'], x[1]['table'], g[1])
            continue
        for k in ('name', 'steps'):
            if g[1][k] != x[1][k]:
                e_sub = e_sub or 'row %d of table %d: %s is %s, expected %s' % (x[1]['row'], x[1]['table'], k, g[1][k], x[1][k])
        if g[1]['tags'] != x[1]['tags']:
            e_tags = e_tags or 'row %d of table %d: tags %s, expected %s' % (x[1]['row'], x[1]['table'], g[1]['tags'], x[1]['tags'])
    errs['placeholders-replaced-by-the-rows-column-values'] = e_sub
    errs['tags-are-outlines-then-tables'] = e_tags
    errs['unknown-placeholder-is-an-error-naming-it'] = e_err
    return errs


def layout(sh, tag, sc_line, lines):
    """what a parsed file guarantees about the line numbers: Examples j starts after the outline's steps, its table
    occupies at least rows+1 lines, the next Examples keyword comes after them"""
    cs = [z3.ULT(sc_line, bv(1 << 32))]
    prev_end = sc_line + bv(len(sh.steps))
    for j, L in enumerate(lines):
        cs.append(z3.UGT(L, prev_end))
        cs.append(z3.ULT(L, bv(1 << 32)))
        tb = sh.tables[j]
        prev_end = L + bv((tb[1] + 1) if tb is not None else 0)
    return cs, prev_end


def body(chk):
    prog = chk.prog
    es = prog.bodies.get('expand_scenario') or prog.bodies.get('feature::expand_scenario')
    if es is None:
        raise Inconclusive('expand_scenario not found')
    shs = shapes(chk.tier)
    bound = 'expand_scenario on %d outline shapes (<= 3 placeholders, <= 2 steps with doc string / step table, <= 3 Examples tables of <= 2 columns and <= 3 rows, header-only and table-less Examples); placeholder-names-column decided by the solver per pair; Examples line numbers symbolic under the layout of a parsed file' % len(shs)
    obs = {}

    def ob(name):
        if name not in obs:
            obs[name] = chk.add(Obligation('C16.%s' % name, bound))
            obs[name].verdict = 'holds'
        return obs[name]
    npaths = 0
    for sh in shs:
        ex, M = chk.new_exec(loop_bound=40, max_paths=4000)

        def run(ex_, sh=sh, M=M):
            B = Builder(chk, ex_)
            line = z3.BitVec('sc.line', 64)
            sc, lines = B.scenario(sh, 'sc', line)
            cs, _ = layout(sh, 'sc', line, lines)
            for c in cs:
                ex_.add(c)
            # distinct column names inside one table (a table with two equal headers has no "column `name`")
            for j, tb in enumerate(sh.tables):
                if tb is not None:
                    for c1, c2 in itertools.combinations(range(tb[0]), 2):
                        for k in range(sh.nph):
                            a, b = ['ph%d==sc.ex%d.col%d' % (k, j, c) for c in (c1, c2)]
                            ex_.add(z3.Not(z3.And(z3.Bool(a), z3.Bool(b))))
            in_desc = read_scenario(ex_, M, B, sc)
            out = ex_.call_body(es, [sc, Adt('Option<&PathBuf>', {}, 0)])
            got = read_results(ex_, M, B, out)
            return {'got': got, 'in': in_desc, 'B': B}

        def on_end(ex_, rec, sh=sh):
            nonlocal npaths
            kind, res, pc, dec = rec
            npaths += 1
            o = ob('completes')
            o.paths += 1
            if kind != 'ok':
                if o.verdict != 'violated':
                    o.verdict = 'violated' if kind == 'panic' else 'inconclusive'
                    o.detail = '%s: %s (shape %s)' % (kind, res, sh.label)
                return
            exp = expected(ex_, sh, 'sc')
            for name, err in compare(ex_, sh, 'sc', res['got'], exp, res['in']).items():
                o = ob(name)
                o.paths += 1
                if err and o.verdict != 'violated':
                    o.verdict, o.detail = 'violated', '%s (shape %s)' % (err, sh.label)
            # positions pairwise distinct: a solver query over the symbolic line numbers
            oks = [g[1] for g in res['got'] if g[0] == 'ok']
            if exp is not None and len(oks) > 1:
                o = ob('expanded-positions-pairwise-distinct')
                o.paths += 1
                o.queries += 1
                clash = z3.Or(*[a['line'] == b['line'] for a, b in itertools.combinations(oks, 2)])
                if ex_.check(clash) and o.verdict != 'violated':
                    m = ex_.solver.model()
                    o.verdict = 'violated'
                    o.detail = 'two expanded scenarios share a position (shape %s): lines %s' % (sh.label, [str(m.eval(a['line'], model_completion=True)) for a in oks])
        ex.explore(run, on_end)
    w = chk.add(Obligation('C16.witness', 'exploration'))
    w.kind = 'witness'
    w.verdict = 'witness-ok' if npaths >= 10 and len(obs) >= 6 else 'witness-missing'
    w.detail = '%d paths, obligations %s' % (npaths, sorted(obs))


if __name__ == '__main__':
    common.main('C16', body)
