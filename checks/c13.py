"""C13 - writer combinators are transparent: fail_on_skipped, repeat, tee, or."""
from checks import common, fail_on_skipped, getters, repeat, tee_or


def body(chk):
    fail_on_skipped.obligations(chk, 'C13')
    repeat.filters(chk, 'C13')
    repeat.delivery(chk, 'C13')
    tee_or.obligations(chk, 'C13')
    getters.obligations(chk, 'C13', which=('tee', 'or', 'forward'))


if __name__ == '__main__':
    common.main('C13', body)
