"""FailOnSkipped mapping obligations (C13, C01) - filled in below."""


def obligations(chk, prop, only_core=False):
    return []
