"""FailOnSkipped::handle_event decided on its MIR (C13; the fail_on_skipped clause of C01).

The whole async handle_event is polled: `event.map(|outer| outer.map(|ev| match ev {..}))`, the map_failed*
closures, Scenario::with_retries, Cucumber::scenario - all real bodies.  The predicate `should_fail` is an
opaque function value: a symbolic Boolean whose arguments are recorded and checked.  The inner writer is a
recorder.  Oracle: the inner writer receives exactly one item; it is the SAME item unless the input is a
Skipped (background or regular) step of a scenario (inside or outside a rule), in which case only the step
event is replaced by Failed(None, None, None, NotFound) iff the predicate holds, with feature / rule /
scenario / step / retries unchanged.
"""
import z3

from checks import common, events
from checks.common import Obligation
from mirsmt.values import Cell, Lazy, Adt, Ref, UNIT, bv
from mirsmt.interp import Inconclusive, PathEnd


def _entry(chk, st, meth='handle_event', trait='Writer'):
    c = [b for (s, m), lst in chk.prog.by_method.items() if s == st and m == meth for tr, b in lst if tr == trait]
    if len(c) != 1:
        raise Inconclusive('%s::%s: %d candidates' % (st, meth, len(c)))
    return c[0]


def poll_to_completion(ex, M, co, max_polls):
    cocell = Cell(co, name='coroutine')
    pin = Adt('Pin<&mut coroutine>', {(None, 0): Ref(cocell, ())})
    cx = Ref(Cell(Lazy('Context', 'cx')), ())
    polls = 0
    while True:
        polls += 1
        if polls > max_polls:
            raise PathEnd('loopbound', 'not Ready after %d polls' % polls)
        body = ex.prog.poll_body(co.ty, ex.coro_origin.get(co.ty))
        if body is None:
            raise Inconclusive('no poll body for %s' % co.ty)
        r = ex.call_body(body, [pin, cx])
        if ex.branch(M.discr(ex, r) == bv(0)):
            return polls, r


@common.part
def obligations(chk, prop, only_core=False):
    ix = events.CukeIdx(chk.prog)
    entry = _entry(chk, 'FailOnSkipped')
    fos_fields = chk.prog.tables.struct_fields('fail_on_skipped::FailOnSkipped<W, F>')
    if not isinstance(fos_fields, list) or 'writer' not in fos_fields or 'should_fail' not in fos_fields:
        raise Inconclusive('FailOnSkipped fields: %r' % (fos_fields,))
    pendings = (0, 1) if chk.tier == 'thorough' else (0,)
    obs = {}
    bound = 'every path of FailOnSkipped::handle_event polled to completion, arbitrary stream item, arbitrary predicate value'

    def ob(name):
        if name not in obs:
            obs[name] = chk.add(Obligation('%s.fail_on_skipped.%s' % (prop, name), bound))
            obs[name].verdict = 'holds'
        return obs[name]
    npaths = [0]
    for k in pendings:
        ex, M = chk.new_exec(loop_bound=6)
        E = events.SymCuke('E')
        should = z3.Bool('should_fail')

        def hook(ex_, f, args, dty, info):
            M.log(ex_, 'predicate', args=args)
            return should
        M.opaque_fn_hook = hook

        def run(ex_, k=k, E=E, M=M):
            ex_.env['inner_pending'] = k
            ex_.add(E.well_formed(ix))
            # the class of the item is fixed per path whether or not the code looks at it (a rewrite that does not tell
            # background steps from own steps still has to be judged on both)
            S_ = E.sc
            if ex_.branch(z3.And(E.is_scenario(ix), S_.is_step_ev(ix), S_.step == bv(ix.Step['Skipped']))):
                ex_.branch(E.scenario_in_rule(ix))
                ex_.branch(S_.sc == bv(ix.Sc['Background']))
                ex_.branch(S_.ret == bv(1))
            sv = Adt('fail_on_skipped::FailOnSkipped<Wr, F>', {(None, fos_fields.index('writer')): Lazy('Wr', 'inner'),
                                                              (None, fos_fields.index('should_fail')): Lazy('F', 'pred')}, None, None)
            cell = Cell(sv, name='self')
            evv = E.build(ix)
            cli = Ref(Cell(Lazy('Cli', 'cli'), name='cli'), ())
            co = ex_.call_body(entry, [Ref(cell, ()), evv, cli])
            polls, _ = poll_to_completion(ex_, M, co, 2 * k + 3)
            return {'log': list(ex_.env.get('log', [])), 'input': evv}

        def on_end(ex_, rec, E=E, M=M, should=should):
            kind, res, pc, dec = rec
            npaths[0] += 1
            if kind != 'ok':
                o = ob('completes')
                o.verdict = 'inconclusive' if kind in ('loopbound', 'unreachable') else 'violated'
                o.detail = '%s: %s' % (kind, res)
                return
            log = res['log']
            calls = [e for e in log if e['kind'] == 'inner_handle_event_done']
            o = ob('inner-writer-gets-exactly-one-item')
            o.paths += 1
            if len(calls) != 1:
                o.verdict = 'violated'
                o.detail = '%d items delivered' % len(calls)
                return
            out = ex_.materialize(calls[0]['event'])
            inp = res['input']
            terms = {'res': E.res, 'top': E.top, 'fe': E.fe, 're': E.re, 'sc': E.sc.sc, 'step': E.sc.step,
                     'ret': E.sc.ret, 'should_fail': should}

            def refute(o, claim):
                o.paths += 1
                o.queries += 1
                if ex_.check(z3.Not(claim)):
                    if o.verdict != 'violated':
                        o.verdict = 'violated'
                        o.model = common.model_dict(ex_.solver.model(), terms)
                        o.detail = 'counterexample stream item'
            S = E.sc
            skipped_in = z3.And(E.is_scenario(ix), S.is_step_ev(ix), S.step == bv(ix.Step['Skipped']))
            # decide on this path whether the input is a skipped step (path conditions fix the discriminants)
            is_sk = ex_.check(skipped_in)
            not_sk = ex_.check(z3.Not(skipped_in))
            if is_sk and not_sk:
                ob('path-decides-event-class').verdict = 'inconclusive'
                return
            od = M.discr(ex_, out)
            if not is_sk:
                # untouched: same Ok/Err, and the very same payload object
                o2 = ob('other-events-untouched')
                refute(o2, od == E.res)
                o2.paths += 1
                if ex_.check(E.is_err()):
                    same = ex_.field_of(out, 1, 0, 'parser::Error') is inp.fields[(1, 0)]
                else:
                    oe = ex_.materialize(ex_.field_of(out, 0, 0, 'event::Event<C>'))
                    same = ex_.field_of(oe, None, ix.EventValue, 'event::Cucumber<W>') is \
                        inp.fields[(0, 0)].fields[(None, ix.EventValue)]
                if not same:
                    o2.verdict = 'violated'
                    o2.detail = 'a non-skipped item was rebuilt / changed'
                    o2.model = common.model_dict(ex_.solver.model(), terms) if ex_.check() else None
                preds = [e for e in log if e['kind'] == 'predicate']
                return
            # skipped step: structure preserved, only the step event mapped
            oe = ex_.materialize(ex_.field_of(out, 0, 0, 'event::Event<C>'))
            cu = ex_.materialize(ex_.field_of(oe, None, ix.EventValue, 'event::Cucumber<W>'))
            o3 = ob('skipped-step-mapped-in-place')
            claims = [od == bv(0), M.discr(ex_, cu) == bv(ix.Top['Feature'])]
            if ex_.check(z3.Not(z3.And(*claims))):
                refute(o3, z3.And(*claims))
                return
            f = ex_.field_of(cu, ix.Top['Feature'], 0, 'event::Source<gherkin::Feature>')
            fe = ex_.materialize(ex_.field_of(cu, ix.Top['Feature'], 1, 'event::Feature<W>'))
            claims = [M.pid(ex_, f) == E.pf, M.discr(ex_, fe) == E.fe]
            in_rule = not ex_.check(z3.Not(E.scenario_in_rule(ix)))
            if ex_.check(z3.Not(z3.And(*claims))):
                refute(o3, z3.And(*claims))
                return
            if in_rule:
                r = ex_.field_of(fe, ix.Fe['Rule'], 0, 'event::Source<gherkin::Rule>')
                re_ = ex_.materialize(ex_.field_of(fe, ix.Fe['Rule'], 1, 'event::Rule<W>'))
                claims = [M.pid(ex_, r) == E.pr, M.discr(ex_, re_) == bv(ix.Re['Scenario'])]
                if ex_.check(z3.Not(z3.And(*claims))):
                    refute(o3, z3.And(*claims))
                    return
                scs = ex_.field_of(re_, ix.Re['Scenario'], 0, 'event::Source<gherkin::Scenario>')
                rs = ex_.materialize(ex_.field_of(re_, ix.Re['Scenario'], 1, 'event::RetryableScenario<W>'))
            else:
                scs = ex_.field_of(fe, ix.Fe['Scenario'], 0, 'event::Source<gherkin::Scenario>')
                rs = ex_.materialize(ex_.field_of(fe, ix.Fe['Scenario'], 1, 'event::RetryableScenario<W>'))
            sev = ex_.materialize(ex_.field_of(rs, None, ix.RS['event'], 'event::Scenario<W>'))
            ret = ex_.materialize(ex_.field_of(rs, None, ix.RS['retries'], 'Option<event::Retries>'))
            claims = [M.pid(ex_, scs) == E.ps, M.discr(ex_, sev) == S.sc, M.discr(ex_, ret) == S.ret]
            if ex_.check(z3.Not(z3.And(*claims))):
                refute(o3, z3.And(*claims))
                return
            if ex_.check(S.ret == bv(1)):
                rv = ex_.materialize(ex_.field_of(ret, 1, 0, 'event::Retries'))
                refute(o3, z3.Implies(S.ret == bv(1), z3.And(
                    ex_.materialize(ex_.field_of(rv, None, ix.Ret['current'], 'usize'), 'usize') == S.cur,
                    ex_.materialize(ex_.field_of(rv, None, ix.Ret['left'], 'usize'), 'usize') == S.left)))
            var = ix.Sc['Background'] if not ex_.check(S.sc != bv(ix.Sc['Background'])) else ix.Sc['Step']
            stp = ex_.field_of(sev, var, 0, 'event::Source<gherkin::Step>')
            sv = ex_.materialize(ex_.field_of(sev, var, 1, 'event::Step<W>'))
            sd = M.discr(ex_, sv)
            refute(o3, M.pid(ex_, stp) == E.pst)
            refute(ob('skipped-becomes-failed-iff-predicate'), sd == z3.If(should, bv(ix.Step['Failed']), bv(ix.Step['Skipped'])))
            if not ex_.check(sd != bv(ix.Step['Failed'])):
                o4 = ob('failed-event-is-not-found-without-captures-location-world')
                fl = [ex_.field_of(sv, ix.Step['Failed'], i, 'Option<?>') for i in range(3)]
                err = ex_.field_of(sv, ix.Step['Failed'], 3, 'event::StepError')
                refute(o4, z3.And(*([M.discr(ex_, x) == bv(0) for x in fl] + [M.discr(ex_, err) == bv(ix.Err['NotFound'])])))
            # predicate evaluated on the event's own feature / rule / scenario
            preds = [e for e in log if e['kind'] == 'predicate']
            o5 = ob('predicate-evaluated-once-on-own-feature-rule-scenario')
            o5.paths += 1
            if len(preds) != 1:
                o5.verdict = 'violated'
                o5.detail = 'predicate evaluated %d times' % len(preds)
                return
            a = preds[0]['args']

            def cellname(v):
                v = ex_.materialize(v)
                while isinstance(v, Adt) and (None, 0) in v.fields:
                    v = ex_.materialize(v.fields[(None, 0)])
                return v.cell.name if isinstance(v, Ref) else None
            okf = cellname(a[0]) == 'E.feat'
            oks = cellname(a[2]) == 'E.scn'
            rd = z3.simplify(M.discr(ex_, a[1]))
            okr = z3.is_bv_value(rd) and ((rd.as_long() == 1) == in_rule) and \
                (not in_rule or cellname(ex_.field_of(ex_.materialize(a[1]), 1, 0, '&gherkin::Rule')) == 'E.rule')
            if not (okf and oks and okr):
                o5.verdict = 'violated'
                o5.detail = 'predicate arguments: feature ok=%s rule ok=%s scenario ok=%s' % (okf, okr, oks)

        ex.explore(run, on_end)
    viol = [o_ for n_, o_ in obs.items() if o_.verdict == 'violated' and n_ in (
        'skipped-becomes-failed-iff-predicate', 'skipped-step-mapped-in-place', 'predicate-evaluated-once-on-own-feature-rule-scenario',
        'failed-event-is-not-found-without-captures-location-world', 'other-events-untouched', 'inner-writer-gets-exactly-one-item')]
    if viol:
        confirm_mapping(chk, viol, prop)
    w = chk.add(Obligation('%s.fail_on_skipped.witness' % prop, 'exploration'))
    w.kind = 'witness'
    need = {'skipped-becomes-failed-iff-predicate', 'other-events-untouched', 'failed-event-is-not-found-without-captures-location-world'}
    w.verdict = 'witness-ok' if need <= set(obs) and npaths[0] >= 12 else 'witness-missing'
    w.detail = '%d paths; obligations exercised: %s' % (npaths[0], sorted(obs))
    if not only_core:
        default_predicate(chk, prop)
    return list(obs.values())


def default_predicate(chk, prop):
    """`!sc.tags.iter().chain(rule.iter().flat_map(|r| &r.tags)).chain(&feat.tags).any(|t| t == "allow.skipped")`
    decided for tag lists of length <= 2 per level, each tag's equality to "allow.skipped" a symbolic Boolean."""
    from checks import tagsets
    frm = common.find_method(chk.prog, 'FailOnSkipped', 'from', 'From')
    body = chk.prog.bodies.get(frm.name + '::{closure#0}')
    if body is None:
        raise Inconclusive('the default predicate closure of <FailOnSkipped as From>::from not found')
    tagsets.tag_predicate_obligation(chk, body, '%s.fail_on_skipped.default-predicate' % prop, 'allow.skipped',
                                     negate=True, arg_order=('feature', 'rule', 'scenario'), closure_self=True,
                                     confirm=lambda c, o: confirm_default_predicate(c, o, prop))


def confirm_default_predicate(chk, o, prop):
    """Native replay through the real `FailOnSkipped::new`: a Skipped step of a scenario with the model's tags."""
    import os
    from checks import replay, tagsets
    d = os.path.join(common.EVID, 'replay')
    os.makedirs(d, exist_ok=True)
    path = os.path.join(d, '%s-fail-on-skipped-default-predicate.script' % prop)
    lines = ['mode events', 'wrapper fail_on_skipped', 'bg 0', 'own 1'] + tagsets.script_tags(o.model, 'allow.skipped') + \
        ['ev step 0 started r=-', 'ev step 0 skipped r=-', 'ev finished r=-']
    res, out = replay.run_script('\n'.join(lines) + '\n', path)
    chk.replays += 1
    chk.replay_files.append(path)
    o.replay = path
    allowed = bool(o.model['tags_equal_to_literal'])
    got_failed = any(l.startswith('LOG ') and ':failed:notfound' in l for l in out.splitlines())
    got_skipped = any(l.startswith('LOG ') and ':skipped' in l for l in out.splitlines())
    if res is None or got_failed == got_skipped:
        o.verdict = 'inconclusive'
        o.detail += ' | native replay failed: %s' % out[-300:]
    elif got_failed == allowed:
        o.detail += ' | reproduced natively: the real FailOnSkipped %s a Skipped step although an inherited tag %s @allow.skipped (%s)' % (
            'fails' if got_failed else 'keeps', 'is' if allowed else 'is not', path)
    else:
        o.verdict = 'inconclusive'
        o.detail += ' | native replay DISAGREES with the encoder (real output follows the specification)'


def confirm_mapping(chk, viol, prop):
    """native: skipped background / own steps, inside and outside a rule, with and without retries, through the real
    `fail_on_skipped()` wrapper (default predicate, no @allow.skipped): each comes out as a Failed(NotFound) event of the SAME
    kind, place and retries; with @allow.skipped it stays Skipped; every other event passes through unchanged"""
    import os
    from checks import replay
    d = os.path.join(common.EVID, 'replay')
    os.makedirs(d, exist_ok=True)
    devs = []
    k = 0
    for rule in (0, 1):
        for allow in (False, True):
            for r in ('r=-', 'r=0/1'):
                lines = ['mode events', 'wrapper fail_on_skipped', 'bg 1', 'own 1', 'rule %d' % rule] + (['stags allow.skipped'] if allow else [])
                lines += ['ev started ' + r, 'ev bg 0 started ' + r, 'ev bg 0 skipped ' + r, 'ev step 0 started ' + r, 'ev step 0 skipped ' + r, 'ev step 0 passed ' + r, 'ev finished ' + r]
                path = os.path.join(d, '%s-fail-on-skipped-%d.script' % (prop, k))
                k += 1
                res, out = replay.run_script('\n'.join(lines) + '\n', path)
                chk.replays += 1
                got = [ln[4:].split(':scenario[s]:', 1)[-1] for ln in out.splitlines() if ln.startswith('LOG ')]
                sk = 'skipped' if allow else 'failed:notfound'
                want = ['started ' + r, 'bg[bg 0]:started ' + r, 'bg[bg 0]:%s %s' % (sk, r), 'step[own 0]:started ' + r, 'step[own 0]:%s %s' % (sk, r), 'step[own 0]:passed ' + r, 'finished ' + r]
                if res is not None and got != want:
                    devs.append((path, 'scenario %s, %s, retries %s: the inner writer received %s, expected %s' % ('in a rule' if rule else 'at top level', '@allow.skipped' if allow else 'not tagged', r[2:], got, want)))
    for o in viol:
        if devs:
            if devs[0][0] not in chk.replay_files:
                chk.replay_files.append(devs[0][0])
            o.replay = devs[0][0]
            o.detail += ' | reproduced natively through the real fail_on_skipped() wrapper: %s' % devs[0][1]
        else:
            o.verdict = 'inconclusive'
            o.detail += ' | not reproduced natively (16 event sequences through the real wrapper come out as specified)'
