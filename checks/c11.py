"""C11 - Normalize reorders any contract-abiding stream losslessly into sequential order.

Kernels: the real `<Normalize as Writer>::handle_event` coroutine with every Queue method and the four Emitter::emit
coroutines (CucumberQueue, FeatureQueue, RulesQueue, ScenariosQueue), `FinishedState::take_to_emit`, Event::split /
wrap / insert.  `LinkedHashMap` is an insertion-ordered association map (re-insert of a present key moves it to the
back, as linked-hash-map 0.5.6 does); keys are compared structurally with pointer identity for Sources.
The input is a *symbolic linearisation* of an event poset: at every position the next event is chosen among the
enabled ones by a solver-decided choice, so every interleaving consistent with happened-before is explored; the retry
counter of the retried scenario is a symbolic value k (attempts k and k+1).  The inner writer records.
"""
import itertools

import z3

from checks import common, events
from checks.common import Obligation
from checks.fail_on_skipped import poll_to_completion, _entry
from mirsmt.values import Cell, Lazy, Adt, Ref, Obj, UNIT, bv
from mirsmt.interp import Inconclusive, PathEnd


class Ev:
    """one event of the poset"""

    def __init__(self, name, kind, feature=None, rule=None, scenario=None, attempt=None, what=None, deps=()):
        self.name, self.kind, self.feature, self.rule, self.scenario, self.attempt, self.what, self.deps = name, kind, feature, rule, scenario, attempt, what, tuple(deps)

    def __repr__(self):
        return self.name


def poset(tier, variant):
    """events with happened-before edges. F0: scenario `a` retried once (attempts k, k+1); F1: scenario `b` (in rule r for variant 'rule')."""
    E = []

    def add(*a, **k):
        e = Ev(*a, **k)
        E.append(e)
        return e
    if variant == 'mixed':
        # one feature with a top-level scenario AND a rule; attempts have an event between Started and Finished
        f0s = add('F0.Started', 'feature_started', feature=0)
        prev = f0s
        for w in ('Started', 'Step', 'Finished'):
            prev = add('a.%s' % w, 'scenario', feature=0, scenario='a', attempt=None, what=w, deps=[prev])
        a_last = prev
        rs = add('F0.r.Started', 'rule_started', feature=0, rule=0, deps=[f0s])
        prev = rs
        for w in ('Started', 'Step', 'Finished'):
            prev = add('b.%s' % w, 'scenario', feature=0, rule=0, scenario='b', attempt=None, what=w, deps=[prev])
        rf = add('F0.r.Finished', 'rule_finished', feature=0, rule=0, deps=[prev])
        add('F0.Finished', 'feature_finished', feature=0, deps=[a_last, rf])
        return E
    if variant == 'rule-two-scenarios':
        # one feature, one rule, two scenarios of the rule in flight at once (steps between Started and Finished)
        f0s = add('F0.Started', 'feature_started', feature=0)
        rs = add('F0.r.Started', 'rule_started', feature=0, rule=0, deps=[f0s])
        lasts = []
        for sn in ('a', 'b'):
            prev = rs
            for w in ('Started', 'Step', 'Finished'):
                prev = add('%s.%s' % (sn, w), 'scenario', feature=0, rule=0, scenario=sn, attempt=None, what=w, deps=[prev])
            lasts.append(prev)
        rf = add('F0.r.Finished', 'rule_finished', feature=0, rule=0, deps=lasts)
        add('F0.Finished', 'feature_finished', feature=0, deps=[rf])
        return E
    if variant == 'three-features':
        # A is at the head while B and C are announced; which of them gets content first, and when A ends, is free
        a_s = add('F0.Started', 'feature_started', feature=0)
        add('F0.Finished', 'feature_finished', feature=0, deps=[a_s])
        for fi, sn in ((1, 'b'), (2, 'c')):
            fs = add('F%d.Started' % fi, 'feature_started', feature=fi, deps=[a_s])
            s1 = add('%s.Started' % sn, 'scenario', feature=fi, scenario=sn, attempt=None, what='Started', deps=[fs])
            s2 = add('%s.Finished' % sn, 'scenario', feature=fi, scenario=sn, attempt=None, what='Finished', deps=[s1])
            add('F%d.Finished' % fi, 'feature_finished', feature=fi, deps=[s2])
        return E
    if variant == 'immediate':
        # small poset plus the two free items that must be forwarded at once wherever they arrive
        f0s = add('F0.Started', 'feature_started', feature=0)
        a_s = add('a.Started', 'scenario', feature=0, scenario='a', attempt=None, what='Started', deps=[f0s])
        a_f = add('a.Finished', 'scenario', feature=0, scenario='a', attempt=None, what='Finished', deps=[a_s])
        add('F0.Finished', 'feature_finished', feature=0, deps=[a_f])
        f1s = add('F1.Started', 'feature_started', feature=1)
        add('F1.Finished', 'feature_finished', feature=1, deps=[f1s])
        add('ParsingFinished', 'parsing_finished')
        add('ParserError', 'parse_error')
        return E
    f0s = add('F0.Started', 'feature_started', feature=0)
    a0s = add('a#0.Started', 'scenario', feature=0, scenario='a', attempt=0, what='Started', deps=[f0s])
    a0f = add('a#0.Finished', 'scenario', feature=0, scenario='a', attempt=0, what='Finished', deps=[a0s])
    a1s = add('a#1.Started', 'scenario', feature=0, scenario='a', attempt=1, what='Started', deps=[a0f])
    a1f = add('a#1.Finished', 'scenario', feature=0, scenario='a', attempt=1, what='Finished', deps=[a1s])
    last0 = [a1f]
    if variant == 'two-scenarios':
        cs = add('c.Started', 'scenario', feature=0, scenario='c', attempt=None, what='Started', deps=[f0s])
        cf = add('c.Finished', 'scenario', feature=0, scenario='c', attempt=None, what='Finished', deps=[cs])
        last0.append(cf)
    add('F0.Finished', 'feature_finished', feature=0, deps=last0)
    f1s = add('F1.Started', 'feature_started', feature=1)
    if variant == 'rule':
        rs = add('F1.r.Started', 'rule_started', feature=1, rule=0, deps=[f1s])
        bs = add('b.Started', 'scenario', feature=1, rule=0, scenario='b', attempt=None, what='Started', deps=[rs])
        bf = add('b.Finished', 'scenario', feature=1, rule=0, scenario='b', attempt=None, what='Finished', deps=[bs])
        rf = add('F1.r.Finished', 'rule_finished', feature=1, rule=0, deps=[bf])
        add('F1.Finished', 'feature_finished', feature=1, deps=[rf])
    else:
        bs = add('b.Started', 'scenario', feature=1, scenario='b', attempt=None, what='Started', deps=[f1s])
        bf = add('b.Finished', 'scenario', feature=1, scenario='b', attempt=None, what='Finished', deps=[bs])
        add('F1.Finished', 'feature_finished', feature=1, deps=[bf])
    return E


PREFIX_DEPTH = 4


def body(chk):
    obligations(chk, 'C11')


@common.part
def obligations(chk, prop, variants=None):
    """Exploration is partitioned by the first PREFIX_DEPTH linearisation choices and run in parallel workers (fork);
    each worker explores every path below its prefix; the parent merges verdicts and statistics."""
    import multiprocessing as mp
    pfx = '' if prop == 'C11' else 'normalize.'
    if variants is None:
        variants = ['basic', 'rule', 'immediate', 'mixed', 'three-features', 'rule-two-scenarios'] + (['two-scenarios'] if chk.tier == 'thorough' else [])
    bound = ('every linearisation (chosen symbolically) of the event posets %s: 2 features, one scenario retried once '
             '(attempt counter symbolic k < 2^32: attempts k and k+1), a second scenario top-level / inside a rule%s; '
             'run-Started first, run-Finished last; inner writer futures ready at once'
             % (variants, ', a third scenario concurrent with the retried one' if chk.tier == 'thorough' else ''))
    tasks = [(v, p) for v in variants for p in itertools.product([True, False], repeat=PREFIX_DEPTH)]
    global _CHK
    _CHK = chk
    ctx = mp.get_context('fork')
    with ctx.Pool(min(16, len(tasks))) as pool:
        results = pool.map(_worker, tasks, chunksize=1)
    obs = {}

    def ob(name):
        if name not in obs:
            obs[name] = chk.add(Obligation('%s.%s%s' % (prop, pfx, name), bound))
            obs[name].verdict = 'holds'
        return obs[name]
    npaths = 0

    class _E:
        pass
    for r in results:
        e = _E()
        e.stats = r['stats']
        chk.execs.append(e)
        npaths += r['npaths']
        for name, d in r['obs'].items():
            o = ob(name)
            o.paths += d['paths']
            if d.get('cands'):
                o.cands = (getattr(o, 'cands', None) or []) + list(d['cands'])
            if d['verdict'] == 'violated' and o.verdict != 'violated':
                o.verdict, o.detail, o.model, o.res = 'violated', d['detail'], d['model'], d['res']
            elif d['verdict'] == 'inconclusive' and o.verdict == 'holds':
                o.verdict, o.detail = 'inconclusive', d['detail']
    def interleaved(res):
        # linearisations in which a feature starts while another one is open come first
        open_, worst = set(), 0
        for e in res['in_desc']:
            if e[0] == 'feature':
                (open_.add if e[2] == 'Started' else open_.discard)(e[1])
                worst = max(worst, len(open_))
        return -worst
    for name, o in obs.items():
        if o.verdict == 'violated' and getattr(o, 'res', None):
            cands = sorted(getattr(o, 'cands', None) or [(o.res, o.detail)], key=lambda c: interleaved(c[0]))[:5]
            base = o.detail
            for res_, why_ in cands:
                o.verdict, o.res, o.detail = 'violated', res_, why_
                confirm(chk, o, name)
                if o.verdict == 'violated':
                    break
    for name, o in obs.items():
        if o.verdict == 'violated' and not getattr(o, 'res', None):
            # a path that ended in a panic has no complete linearisation to replay: it is reported only through the other
            # obligations (a native panic counts as their reproduction)
            confirmed = [x for x in obs.values() if x.verdict == 'violated' and getattr(x, 'replay', None)]
            o.verdict = 'inconclusive'
            o.detail += ' | no linearisation to replay natively%s' % (' (see %s)' % confirmed[0].name if confirmed else '')
    # translator validation: explored linearisations replayed natively must give the same output and the same
    # per-item delivery counts as the symbolic execution
    samples = [x for r in results for x in r.get('samples', [])]
    step = max(1, len(samples) // (4 if chk.tier == 'quick' else 24))
    agree = chk.add(Obligation('%s.%smodel-agrees-with-native-normalize' % (prop, pfx), 'sampled explored linearisations'))
    agree.kind = 'witness'
    agree.verdict = 'witness-ok'
    n = 0
    for res in samples[::step]:
        got = native(chk, res, 'agree-%d' % n)
        n += 1
        if got is None:
            agree.verdict, agree.detail = 'witness-missing', 'native replay failed'
            break
        outs, afters = got
        if [tuple(map(str, x)) for x in outs] != [tuple(map(str, x)) for x in res['output']] or afters != res['after']:
            agree.verdict = 'witness-missing'
            agree.detail = 'symbolic execution and the native Normalize disagree on %s: %s / %s vs %s / %s' % (res['input'], res['output'], res['after'], outs, afters)
            break
    if agree.verdict == 'witness-ok':
        agree.detail = '%d linearisations: identical output and delivery counts' % n
    w = chk.add(Obligation('%s.%switness' % (prop, pfx), 'exploration'))
    w.kind = 'witness'
    w.verdict = 'witness-ok' if npaths >= (100 if len(variants) > 1 else 50) and 'lossless-permutation-preserving-per-attempt-order' in obs else 'witness-missing'
    w.detail = '%d linearisations in %d partitions' % (npaths, len(tasks))
    chk.assumptions += ['inner writer futures complete at once; Metadata is opaque; posets with 2 features and <= 3 scenarios (larger posets outside the claim)',
                        'LinkedHashMap modelled as an insertion-ordered association map (re-insert moves to the back)']


_CHK = None


def _worker(task):
    variant, prefix = task
    chk = _CHK
    chk.execs = []
    try:
        return _explore(chk, variant, list(prefix))
    except Inconclusive as e:
        return {'stats': chk.execs[0].stats if chk.execs else None, 'npaths': 0,
                'obs': {'completes': {'paths': 0, 'verdict': 'inconclusive', 'detail': 'inconclusive: %s' % e, 'model': None, 'res': None}}}


def _explore(chk, variant, prefix):
    prog = chk.prog
    ix = events.CukeIdx(prog)
    entry = _entry(chk, 'Normalize')
    new = [b for (st, m), lst in prog.by_method.items() if st == 'Normalize' and m == 'new' for tr, b in lst]
    if len(new) != 1:
        raise Inconclusive('Normalize::new: %d' % len(new))
    obs = {}

    def ob(name):
        return obs.setdefault(name, {'paths': 0, 'verdict': 'holds', 'detail': '', 'model': None, 'res': None})
    npaths = [0]
    P = poset(chk.tier, variant)
    ex, M = chk.new_exec(loop_bound=40, max_paths=20000)
    M.opaque_bodies |= {'ScenarioId::new'}
    k = z3.BitVec('k', 64)
    src = {}

    def source(kind, key, inner):
        if (kind, key) not in src:
            pid = bv(0x100 * (1 + ['f', 'r', 's'].index(kind)) + len([1 for kk in src if kk[0] == kind]))
            src[(kind, key)] = (pid, '%s%s' % (kind, key))
        pid, nm = src[(kind, key)]
        return events.source(inner, pid, nm)

    def mk_event(e):
        """-> the stream item (Result<Event<Cucumber>>) for poset event e"""
        def scen_ev():
            if e.attempt is None:
                ret = Adt('Option<event::Retries>', {}, 0)
            else:
                ret = Adt('Option<event::Retries>', {(1, 0): Adt('event::Retries', {(None, ix.Ret['current']): k + bv(e.attempt),
                                                                                 (None, ix.Ret['left']): bv(1 - e.attempt)})}, 1)
            if e.what == 'Step':
                sv = Adt('event::Scenario<W>', {(ix.Sc['Step'], 0): events.source('gherkin::Step', bv(0x900), 'step'),
                                                (ix.Sc['Step'], 1): Adt('event::Step<W>', {}, ix.Step['Started'])}, ix.Sc['Step'])
            else:
                sv = Adt('event::Scenario<W>', {}, ix.Sc[e.what])
            return Adt('event::RetryableScenario<W>', {(None, ix.RS['event']): sv, (None, ix.RS['retries']): ret})
        f = source('f', e.feature, 'gherkin::Feature') if e.feature is not None else None
        if e.kind == 'parse_error':
            return Adt('Result<Event<Cucumber<W>>, parser::Error>', {(1, 0): Lazy('parser::Error', 'perr')}, 1), None
        if e.kind == 'parsing_finished':
            cu = Adt('event::Cucumber<W>', {}, ix.Top['ParsingFinished'])
        elif e.kind == 'run_started':
            cu = Adt('event::Cucumber<W>', {}, ix.Top['Started'])
        elif e.kind == 'run_finished':
            cu = Adt('event::Cucumber<W>', {}, ix.Top['Finished'])
        else:
            if e.kind == 'feature_started':
                fe = Adt('event::Feature<W>', {}, ix.Fe['Started'])
            elif e.kind == 'feature_finished':
                fe = Adt('event::Feature<W>', {}, ix.Fe['Finished'])
            elif e.kind in ('rule_started', 'rule_finished'):
                rv = Adt('event::Rule<W>', {}, ix.Re['Started' if e.kind == 'rule_started' else 'Finished'])
                fe = Adt('event::Feature<W>', {(ix.Fe['Rule'], 0): source('r', (e.feature, e.rule), 'gherkin::Rule'), (ix.Fe['Rule'], 1): rv}, ix.Fe['Rule'])
            else:
                s = source('s', e.scenario, 'gherkin::Scenario')
                if e.rule is not None:
                    rv = Adt('event::Rule<W>', {(ix.Re['Scenario'], 0): s, (ix.Re['Scenario'], 1): scen_ev()}, ix.Re['Scenario'])
                    fe = Adt('event::Feature<W>', {(ix.Fe['Rule'], 0): source('r', (e.feature, e.rule), 'gherkin::Rule'), (ix.Fe['Rule'], 1): rv}, ix.Fe['Rule'])
                else:
                    fe = Adt('event::Feature<W>', {(ix.Fe['Scenario'], 0): s, (ix.Fe['Scenario'], 1): scen_ev()}, ix.Fe['Scenario'])
            cu = Adt('event::Cucumber<W>', {(ix.Top['Feature'], 0): f, (ix.Top['Feature'], 1): fe}, ix.Top['Feature'])
        evv = Adt('event::Event<event::Cucumber<W>>', {(None, ix.EventValue): cu}, None, None)
        return Adt('Result<Event<Cucumber<W>>, parser::Error>', {(0, 0): evv}, 0), cu

    def run(ex_):
        src.clear()
        ex_.add(z3.ULT(k, bv(1 << 32)))
        nz = ex_.call_body(new[0], [Lazy('Wr', 'inner')])
        cell = Cell(nz, name='self')
        cli = Ref(Cell(Lazy('Cli', 'cli'), name='cli'), ())
        done = set()
        todo = list(P)
        seq = []
        while todo:
            enabled = [e for e in todo if all(d in done for d in e.deps)]
            pick = enabled[-1]
            for e in enabled[:-1]:
                if ex_.branch(ex_.fresh('choose', z3.BoolSort())):
                    pick = e
                    break
            todo.remove(pick)
            done.add(pick)
            seq.append(pick)
        seq = [Ev('run.Started', 'run_started')] + seq + [Ev('run.Finished', 'run_finished')]
        after = []
        for e in seq:
            item, cu = mk_event(e)
            co = ex_.call_body(entry, [Ref(cell, ()), item, cli])
            poll_to_completion(ex_, M, co, 4)
            after.append(len([1 for x in ex_.env.get('log', []) if x['kind'] == 'inner_handle_event_done']))
        out = [describe(ex_, M, ix, x['event'], src) for x in ex_.env.get('log', []) if x['kind'] == 'inner_handle_event_done']
        return {'input': [e.name for e in seq], 'in_desc': [describe_in(e) for e in seq], 'output': out, 'after': after}

    def on_end(ex_, rec):
        kind, res, pc, dec = rec
        npaths[0] += 1
        if kind != 'ok':
            o = ob('completes')
            if o['verdict'] != 'violated':
                o['verdict'] = 'violated' if kind == 'panic' else 'inconclusive'
                o['detail'] = '%s: %s (poset %s)' % (kind, res, variant)
            return
        ob('completes')['paths'] += 1
        for name, err in judge(res).items():
            o = ob(name)
            o['paths'] += 1
            if err and o['verdict'] != 'violated':
                o['verdict'] = 'violated'
                o['detail'] = '%s (poset %s)' % (err, variant)
                o['model'] = {'poset': variant, 'input': res['input'], 'output': [str(x) for x in res['output']]}
                o['res'] = res
            if err and len(o.setdefault('cands', [])) < 6:
                o['cands'].append((res, '%s (poset %s)' % (err, variant)))
    samples = []
    orig_on_end = on_end

    def on_end2(ex_, rec):
        if rec[0] == 'ok' and len(samples) < 1:
            samples.append(rec[1])
        orig_on_end(ex_, rec)
    ex.explore(run, on_end2, start=[prefix])
    return {'stats': ex.stats, 'npaths': npaths[0], 'obs': obs, 'samples': samples}


def describe_in(e):
    if e.kind in ('run_started', 'run_finished'):
        return ('run', 'Started' if e.kind == 'run_started' else 'Finished')
    if e.kind == 'parsing_finished':
        return ('run', 'ParsingFinished')
    if e.kind == 'parse_error':
        return ('error',)
    if e.kind.startswith('feature_'):
        return ('feature', 'f%s' % e.feature, e.kind.split('_')[1].capitalize())
    if e.kind.startswith('rule_'):
        return ('rule', 'f%s' % e.feature, 'r(%s, %s)' % (e.feature, e.rule), e.kind.split('_')[1].capitalize())
    return ('scenario', 'f%s' % e.feature, None if e.rule is None else 'r(%s, %s)' % (e.feature, e.rule), 's%s' % e.scenario, e.attempt, e.what)


def describe(ex, M, ix, v, src):
    """inner-writer item -> tuple comparable with describe_in()"""
    names = {str(pid): nm for (pid, nm) in src.values()}
    v = ex.materialize(v)
    if z3.simplify(M.discr(ex, v)).as_long() != 0:
        return ('error',)
    evv = ex.materialize(ex.field_of(v, 0, 0, 'event::Event<C>'))
    cu = ex.materialize(ex.field_of(evv, None, ix.EventValue, 'event::Cucumber<W>'))
    d = z3.simplify(M.discr(ex, cu)).as_long()
    inv = {vv: kk for kk, vv in ix.Top.items()}
    if inv[d] in ('Started', 'Finished', 'ParsingFinished'):
        return ('run', inv[d])
    if inv[d] != 'Feature':
        return ('other', inv[d])
    nm = lambda p: names.get(str(z3.simplify(M.pid(ex, p))), '?')  # noqa
    f = nm(ex.field_of(cu, ix.Top['Feature'], 0, 'Source'))
    fe = ex.materialize(ex.field_of(cu, ix.Top['Feature'], 1, 'event::Feature<W>'))
    fd = {vv: kk for kk, vv in ix.Fe.items()}[z3.simplify(M.discr(ex, fe)).as_long()]
    if fd in ('Started', 'Finished'):
        return ('feature', f, fd)

    def scen(s, rs, rule):
        rs = ex.materialize(rs)
        sev = ex.materialize(ex.field_of(rs, None, ix.RS['event'], 'event::Scenario<W>'))
        what = {vv: kk for kk, vv in ix.Sc.items()}[z3.simplify(M.discr(ex, sev)).as_long()]
        ret = ex.materialize(ex.field_of(rs, None, ix.RS['retries'], 'Option<Retries>'))
        att = None
        if z3.simplify(M.discr(ex, ret)).as_long() == 1:
            rv = ex.materialize(ex.field_of(ret, 1, 0, 'event::Retries'))
            left = z3.simplify(ex.materialize(ex.field_of(rv, None, ix.Ret['left'], 'usize'), 'usize')).as_long()
            att = 1 - left
        return ('scenario', f, rule, nm(s), att, what)
    if fd == 'Scenario':
        return scen(ex.field_of(fe, ix.Fe['Scenario'], 0, 'Source'), ex.field_of(fe, ix.Fe['Scenario'], 1, 'RS'), None)
    r = nm(ex.field_of(fe, ix.Fe['Rule'], 0, 'Source'))
    re_ = ex.materialize(ex.field_of(fe, ix.Fe['Rule'], 1, 'event::Rule<W>'))
    rd = {vv: kk for kk, vv in ix.Re.items()}[z3.simplify(M.discr(ex, re_)).as_long()]
    if rd in ('Started', 'Finished'):
        return ('rule', f, r, rd)
    return scen(ex.field_of(re_, ix.Re['Scenario'], 0, 'Source'), ex.field_of(re_, ix.Re['Scenario'], 1, 'RS'), r)


def judge(res):
    """independent checker of the C11 statement on one (input, output) pair"""
    inp, out, after = res['in_desc'], res['output'], res['after']
    errs = {}
    # 1. lossless: same multiset
    key = lambda e: tuple(str(x) for x in e)  # noqa
    if sorted(map(key, inp)) != sorted(map(key, out)):
        missing = [e for e in inp if key(e) not in [key(x) for x in out]]
        extra = [e for e in out if key(e) not in [key(x) for x in inp]]
        errs['lossless-permutation-preserving-per-attempt-order'] = 'forwarded %d of %d events; missing %s, unexpected %s' % (len(out), len(inp), missing[:4], extra[:4])
        return errs
    # per-attempt relative order preserved
    def att_key(e):
        return (e[1], e[2], e[3], e[4]) if e[0] == 'scenario' else None
    bad = None
    for a in set(att_key(e) for e in inp if e[0] == 'scenario'):
        if [e for e in inp if att_key(e) == a] != [e for e in out if att_key(e) == a]:
            bad = a
    errs['lossless-permutation-preserving-per-attempt-order'] = ('order inside attempt %s changed' % (bad,)) if bad else None
    # 2. sequential shape of the output: run-Started first, run-Finished last, features contiguous, rules contiguous inside, attempts contiguous, brackets nest
    err = None
    if out[0] != ('run', 'Started') or out[-1] != ('run', 'Finished'):
        err = 'run brackets are not first / last'
    cur_f = cur_r = cur_a = None
    seen_f, seen_r, seen_a = set(), set(), set()
    for e in out[1:-1]:
        if e == ('run', 'ParsingFinished') or e == ('error',):
            continue
        if e[0] == 'feature':
            if e[2] == 'Started':
                if cur_f is not None or e[1] in seen_f:
                    err = err or 'feature %s starts inside another / twice' % e[1]
                cur_f = e[1]
                seen_f.add(e[1])
            else:
                if cur_f != e[1] or cur_r is not None or cur_a is not None:
                    err = err or 'feature %s finished out of place' % e[1]
                cur_f = None
        elif e[0] == 'rule':
            if e[3] == 'Started':
                if cur_f != e[1] or cur_r is not None or cur_a is not None or e[2] in seen_r:
                    err = err or 'rule %s started out of place' % e[2]
                cur_r = e[2]
                seen_r.add(e[2])
            else:
                if cur_r != e[2] or cur_a is not None:
                    err = err or 'rule %s finished out of place' % e[2]
                cur_r = None
        elif e[0] == 'scenario':
            a = att_key(e)
            if e[1] != cur_f or e[2] != cur_r:
                err = err or 'event of %s outside its feature / rule bracket' % (a,)
            if cur_a is None:
                if a in seen_a:
                    err = err or 'attempt %s is not contiguous' % (a,)
                cur_a = a
                seen_a.add(a)
            elif cur_a != a:
                err = err or 'attempts %s and %s interleave' % (cur_a, a)
            if e[5] == 'Finished':
                cur_a = None
    errs['output-is-sequential-and-properly-nested'] = err
    # 3. immediacy: run-Started at once; events of the head-of-line entities are forwarded in the same call
    err = None
    if after[0] != 1:
        err = 'run-Started was not forwarded at once'
    # head-of-line: after feeding prefix i, everything the sequentialisation can already emit must have been emitted:
    # compute the expected number with a reference normaliser
    # The reference outputs features in the order of their Started events; the property does not fix that order, so the
    # comparison is made only while the implementation's output so far is in the reference's order (else the shape checks
    # above judge it): then it must have forwarded exactly what the reference has.
    ref_out, exp = _reference(inp)
    key_ = lambda e: tuple(str(x) for x in e)  # noqa
    ref_keys = [key_(e) for e in ref_out]
    if not err:
        for i in range(len(exp)):
            so_far = [key_(e) for e in out[:after[i]]]
            if so_far != ref_keys[:len(so_far)]:
                break                      # a different (possibly legal) order: not comparable any more
            if after[i] != exp[i]:
                err = 'after item %d (%s) the inner writer had %d events, a head-of-line forwarder has %d' % (i, inp[i], after[i], exp[i])
                break
    errs['head-of-line-events-are-forwarded-at-once'] = err
    # 4. sequential input passes through unchanged, event by event
    if inp == seq_order(inp):
        errs['sequential-input-is-identity'] = None if (out == inp and after == list(range(1, len(inp) + 1))) else 'a sequential stream was changed or delayed'
    return errs


def seq_order(inp):
    """is the input already sequential? returns the canonical sequential order of the same events (by first appearance)"""
    return reference_output(inp)


def reference_output(inp):
    out, _ = _reference(inp)
    return out


def reference_counts(inp):
    _, counts = _reference(inp)
    return counts


def _reference(inp):
    """Reference normaliser (written from the property statement, not from the code): FIFO of features by Started order,
    inside a feature FIFO of rules / attempts by first event, inside a rule FIFO of attempts; emits whatever is
    available of the current head; returns (output, count after each input item)."""
    out, counts = [], []
    feats = []          # list of dict(name, started_emitted, items=[...], finished)
    run_finished = [False]

    def feat(n):
        for f in feats:
            if f['name'] == n:
                return f
        return None

    def drain():
        while feats:
            f = feats[0]
            if not f['emitted_start']:
                out.append(('feature', f['name'], 'Started'))
                f['emitted_start'] = True
            while f['items']:
                it = f['items'][0]
                if it['kind'] == 'rule':
                    if not it['emitted_start']:
                        out.append(('rule', f['name'], it['name'], 'Started'))
                        it['emitted_start'] = True
                    while it['atts']:
                        a = it['atts'][0]
                        while a['evs']:
                            out.append(a['evs'].pop(0))
                        if a['finished']:
                            it['atts'].pop(0)
                        else:
                            break
                    if it['finished'] and not it['atts']:
                        out.append(('rule', f['name'], it['name'], 'Finished'))
                        f['items'].pop(0)
                    else:
                        break
                else:
                    while it['evs']:
                        out.append(it['evs'].pop(0))
                    if it['finished']:
                        f['items'].pop(0)
                    else:
                        break
            if f['finished'] and not f['items']:
                out.append(('feature', f['name'], 'Finished'))
                feats.pop(0)
            else:
                break
        if run_finished[0] and not feats:
            out.append(('run', 'Finished'))
            run_finished[0] = False
    for e in inp:
        if e == ('run', 'Started') or e == ('run', 'ParsingFinished') or e == ('error',):
            out.append(e)
        elif e[0] == 'run':
            run_finished[0] = True
        elif e[0] == 'feature' and e[2] == 'Started':
            feats.append({'name': e[1], 'emitted_start': False, 'items': [], 'finished': False})
        elif e[0] == 'feature':
            feat(e[1])['finished'] = True
        elif e[0] == 'rule' and e[3] == 'Started':
            feat(e[1])['items'].append({'kind': 'rule', 'name': e[2], 'emitted_start': False, 'atts': [], 'finished': False})
        elif e[0] == 'rule':
            [it for it in feat(e[1])['items'] if it['kind'] == 'rule' and it['name'] == e[2]][0]['finished'] = True
        else:
            f = feat(e[1])
            key = (e[3], e[4])
            if e[2] is None:
                cand = [it for it in f['items'] if it['kind'] == 'att' and it['key'] == key]
                if not cand:
                    cand = [{'kind': 'att', 'key': key, 'evs': [], 'finished': False}]
                    f['items'].append(cand[0])
                a = cand[0]
            else:
                r = [it for it in f['items'] if it['kind'] == 'rule' and it['name'] == e[2]][0]
                cand = [x for x in r['atts'] if x['key'] == key]
                if not cand:
                    cand = [{'key': key, 'evs': [], 'finished': False}]
                    r['atts'].append(cand[0])
                a = cand[0]
            a['evs'].append(e)
            if e[5] == 'Finished':
                a['finished'] = True
        drain()
        counts.append(len(out))
    return out, counts


def native(chk, res, tag, same_content=False):
    """-> (outputs, afters) of the real Normalize on the linearisation, or None"""
    import os
    import re
    from checks import replay
    lines = ['mode stream', 'wrapper normalize'] + (['same_content'] if same_content else [])
    for e in res['in_desc']:
        if e == ('error',):
            lines.append('item parse_error')
        elif e == ('run', 'ParsingFinished'):
            lines.append('item parsing_finished')
        elif e[0] == 'run':
            lines.append('item run_%s' % e[1].lower())
        elif e[0] == 'feature':
            lines.append('item feature_%s %s' % (e[2].lower(), e[1]))
        elif e[0] == 'rule':
            lines.append('item rule_%s %s r' % (e[3].lower(), e[1]))
        else:
            r = '-' if e[4] is None else '%d/%d' % (e[4], 1 - e[4])
            lines.append('item scenario %s %s %s %s r=%s' % (e[1], '-' if e[2] is None else 'r', e[3], e[5].lower(), r))
    d = os.path.join(common.EVID, 'replay')
    os.makedirs(d, exist_ok=True)
    path = os.path.join(d, '%s-normalize-%s%s.script' % (chk.prop, re.sub(r'[^a-z0-9]+', '-', tag), '-same-content' if same_content else ''))
    r, out = replay.run_script('\n'.join(lines) + '\n', path, timeout=60)
    chk.replays += 1
    if r is None:
        chk.last_native = out[-300:]
        return None
    afters = [int(x) for x in re.findall(r'^AFTER \d+ (\d+)$', out, re.M)]
    outs = []
    for ln in out.splitlines():
        if ln.startswith('LOG '):
            outs.append(parse_native(ln[4:]))
    chk.last_native = path
    chk.last_panics = re.findall(r'^PANIC (\d+)$', out, re.M)
    return outs, afters


def confirm(chk, o, name):
    """Native replay: the violating linearisation through the real `Normalize::new(recorder)` (driver mode `stream`)."""
    res = o.res
    # second try: the same linearisation with features (rules, scenarios) that are DISTINCT allocations of EQUAL gherkin values
    # (the same file given twice) - the map keys of Normalize are identities, not contents
    for same in (False, True):
        got = native(chk, res, name, same_content=same)
        if got is None:
            continue
        outs, afters = got
        path = chk.last_native
        errs = judge({'in_desc': res['in_desc'], 'output': outs, 'after': afters})
        why = errs.get(name)
        if getattr(chk, 'last_panics', None):
            why = 'the real Normalize panicked while handling item %s%s' % (chk.last_panics[0], '; ' + why if why else '')
        if why:
            chk.replay_files.append(path)
            o.replay = path
            o.detail += ' | reproduced natively through the real Normalize%s: %s' % (' (features of equal content)' if same else '', why)
            return
    o.verdict = 'inconclusive'
    o.detail += ' | not reproduced natively (the real Normalize output satisfies the checker on this linearisation, also with features of equal content)'


def parse_native(s):
    import re
    if s == 'started':
        return ('run', 'Started')
    if s == 'finished':
        return ('run', 'Finished')
    if s.startswith('parsing_finished'):
        return ('run', 'ParsingFinished')
    if s == 'err':
        return ('error',)
    m = re.match(r'feature\[(.*?)\]:(.*)$', s)
    f, rest = m.group(1), m.group(2)
    if rest in ('started', 'finished'):
        return ('feature', f, rest.capitalize())
    rule = None
    m2 = re.match(r'rule\[(.*?)\]:(.*)$', rest)
    if m2:
        rule = 'r(%s, 0)' % f[1:]
        rest = m2.group(2)
        if rest in ('started', 'finished'):
            return ('rule', f, rule, rest.capitalize())
    m3 = re.match(r'scenario\[(.*?)\]:(.*) r=(\S+)$', rest)
    sc, what, r = m3.group(1), m3.group(2), m3.group(3)
    if what.startswith('step['):
        what = 'step'
    att = None if r == '-' else int(r.split('/')[0])
    return ('scenario', f, rule, sc, att, what.capitalize())


if __name__ == '__main__':
    common.main('C11', body)
