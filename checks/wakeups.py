"""The wake-up contract of the crate's hand-written futures (C04: "the run always terminates ... while it waits for the
parser or a retry delay").

`Future::poll` may return `Pending` only after it has arranged for the waker of THIS poll to be woken.  The executor
model of the scheduler checks (sched_worlds) polls a pending task again when one of its leaf futures becomes ready -
which is sound only if every future of the crate that sits between the task and the leaf keeps that contract.  So: every
`impl Future` written by hand in /repo (found in the MIR by its signature, not by name) is polled up to K times from the
state its own constructor returns (found by return type), inner futures being opaque (each poll of one is Ready or Pending
- a solver-visible choice; Pending means the inner future has registered the waker it was given), atomics read by
`load` hold an arbitrary value (another thread may have stored), `thread::spawn` does not run its closure.  On every
path and for every poll that returns Pending: the waker of that poll was used in that poll - handed to an inner future
that returned Pending, woken, or cloned (to be kept by whoever will wake it).
"""
import re

import z3

from checks import common
from checks.common import Obligation
from mirsmt.values import Cell, Lazy, Adt, Ref, Obj, UNIT, bv
from mirsmt.interp import Inconclusive, PathEnd

K = 3


def hand_written_polls(prog):
    out = []
    for n, b in prog.bodies.items():
        if not n.endswith('>::poll') or len(b.params) != 2:
            continue
        p0, p1 = b.params[0][1].strip(), b.params[1][1].strip()
        if p0.startswith('Pin<&mut ') and 'Context<' in p1 and (b.ret_type or '').strip().startswith('Poll<'):
            out.append(b)
    return sorted(out, key=lambda b: b.name)


def constructors(prog, selfty):
    """crate functions that return the future type and take no such value themselves (its `new` / free constructor fn)"""
    base = re.sub(r'<.*', '', selfty)
    out = []
    for n, b in prog.bodies.items():
        rt = re.sub(r'<.*', '', (b.ret_type or '').strip())
        if rt != base or n.endswith(('>::clone', '>::default')) or '{closure' in n or 'promoted' in n:
            continue
        if any(base in t for _, t in b.params):
            continue
        if n.split('::')[-1] == base.split('::')[-1]:
            continue        # the tuple-struct constructor function: not a way the crate makes one
        out.append(b)
    return out


@common.part
def wake_up_contract(chk, prop):
    prog = chk.prog
    polls = hand_written_polls(prog)
    o = chk.add(Obligation('%s.wake-up.pending-only-after-the-current-waker-is-registered' % prop,
                           'every hand-written Future::poll of the crate (%s), polled up to %d times from its constructor\'s state; inner futures opaque (Ready / Pending per poll), atomics arbitrary'
                           % (', '.join(re.sub(r'Pin<&mut (.*)>$', r'\1', b.params[0][1].strip()) for b in polls) or 'none', K)))
    o.verdict = 'holds'
    w = chk.add(Obligation('%s.wake-up.witness' % prop, 'exploration'))
    w.kind = 'witness'
    pend = [0]
    bad = []
    for pb in polls:
        selfty = re.sub(r'^Pin<&mut (.*)>$', r'\1', pb.params[0][1].strip())
        ctors = constructors(prog, selfty)
        ex, M = chk.new_exec(loop_bound=6)
        by_self = {re.sub(r'<.*', '', re.sub(r'^Pin<&mut (.*)>$', r'\1', b.params[0][1].strip())): b for b in polls}

        def is_cx(ex_, v):
            v = ex_.materialize(v)
            for _ in range(3):
                if isinstance(v, Ref) and v.cell is ex_.env.get('cx_cell'):
                    return True
                if isinstance(v, Ref):
                    v = ex_.materialize(ex_.read_path(v.cell, v.path))
            return False

        def inner_poll(ex_, info, a, dty, M=M, by_self=by_self):
            st = re.sub(r"[&\s]|'\w+|\bmut\b", '', info.get('self_ty') or '')
            st = re.sub(r'^Pin<(.*)>$', r'\1', st)
            body = by_self.get(re.sub(r'<.*', '', st))
            if body is not None:
                # one of the crate's own futures inside another: its real poll
                s = ex_.materialize(a[0])
                if isinstance(s, Adt) and s.ty.startswith('Pin<'):
                    return ex_.call_body(body, [s, a[1]])
                if isinstance(s, Ref):
                    inner = ex_.materialize(ex_.read_path(s.cell, s.path))
                    if isinstance(inner, Adt) and inner.ty.startswith('Pin<'):
                        return ex_.call_body(body, [inner, a[1]])
                    return ex_.call_body(body, [Adt('Pin<&mut %s>' % st, {(None, 0): s}), a[1]])
                raise Inconclusive('poll of %s through %r' % (st, s))
            k_ = ex_.env['inner_polls'] = ex_.env.get('inner_polls', 0) + 1
            ready = ex_.branch(z3.Bool('inner future ready at its poll #%d' % k_))
            if not ready:
                if is_cx(ex_, a[1]):
                    ex_.env['registered'] = True
                return Adt(dty or 'Poll<?>', {}, 1, None)
            return Adt(dty or 'Poll<?>', {(0, 0): Lazy('?', 'inner output %d' % k_)}, 0, None)
        for k_ in ('Future::poll', 'TryFuture::try_poll', 'FutureExt::poll_unpin'):
            M.table[k_] = inner_poll

        def waker_of(ex_, info, a, dty):
            if not is_cx(ex_, a[0]):
                raise Inconclusive('Context::waker on another context')
            return Ref(ex_.env.setdefault('waker_cell', Cell(Obj('waker', of='cx'), name='waker')), ())
        M.table['Context::waker'] = waker_of

        def use_waker(ex_, info, a, dty):
            ex_.env['registered'] = True
            return UNIT
        M.table['Waker::wake_by_ref'] = use_waker
        M.table['Waker::wake'] = use_waker
        prev_clone = M.table.get('Clone::clone')

        def clone(ex_, info, a, dty, prev_clone=prev_clone):
            v = ex_.materialize(a[0])
            if isinstance(v, Ref):
                inner = ex_.read_path(v.cell, v.path)
                if isinstance(inner, Obj) and inner.kind == 'waker':
                    ex_.env['registered'] = True
                    return inner
            if prev_clone is None:
                raise Inconclusive('Clone::clone')
            return prev_clone(ex_, info, a, dty)
        M.table['Clone::clone'] = clone
        # another thread may store: a load gives an arbitrary value; spawn does not run the closure here
        M.table['AtomicBool::load'] = lambda ex_, info, a, dty: z3.Bool('atomic load #%d' % len(ex_.decisions))
        M.table['thread::spawn'] = lambda ex_, info, a, dty: Lazy(dty or 'JoinHandle<()>', 'join handle')
        M.table['spawn'] = M.table['thread::spawn']

        def run(ex_, pb=pb, ctors=ctors, selfty=selfty, M=M):
            if len(ctors) == 1:
                args = [Lazy(t, 'ctor arg %d' % i) for i, (_, t) in enumerate(ctors[0].params)]
                state = ex_.call_body(ctors[0], args)
                origin = 'from %s' % ctors[0].name.split('>::')[-1]
            else:
                state = Lazy(selfty, 'future')
                origin = 'arbitrary state'
            cell = Cell(state, name='future')
            cxc = Cell(Lazy('Context', 'cx'), name='cx')
            ex_.env['cx_cell'] = cxc
            verdicts = []
            for i in range(K):
                ex_.env['registered'] = False
                r = ex_.call_body(pb, [Adt('Pin<&mut %s>' % selfty, {(None, 0): Ref(cell, ())}), Ref(cxc, ())])
                if ex_.branch(M.discr(ex_, r) == bv(0)):
                    verdicts.append('ready')
                    break
                verdicts.append('pending+registered' if ex_.env['registered'] else 'pending+NOT-registered')
            return {'verdicts': verdicts, 'origin': origin}

        def on_end(ex_, rec, pb=pb, selfty=selfty, ctors=ctors):
            kind, res, pc, dec = rec
            o.paths += 1
            if kind == 'panic':
                return          # polled after completion and the like: the caller's breach, not a lost wake-up
            if kind != 'ok':
                if o.verdict == 'holds':
                    o.verdict = 'inconclusive'
                    o.detail = '%s: %s: %s' % (selfty, kind, res)
                return
            pend[0] += sum(1 for v in res['verdicts'] if v.startswith('pending'))
            if 'pending+NOT-registered' in res['verdicts']:
                if len(ctors) != 1:
                    if o.verdict == 'holds':
                        o.verdict = 'inconclusive'
                        o.detail = '%s: Pending without a registered waker from an arbitrary state (no single constructor found: %d)' % (selfty, len(ctors))
                    return
                bad.append((selfty, '%s, polls: %s' % (res['origin'], ' -> '.join(res['verdicts']))))
        ex.explore(run, on_end)
    w.verdict = 'witness-ok' if polls and pend[0] >= len(polls) else 'witness-missing'
    w.detail = '%d hand-written poll functions, %d Pending results examined' % (len(polls), pend[0])
    if bad and o.verdict != 'inconclusive':
        o.verdict = 'violated'
        o.detail = '; '.join('%s: %s' % b_ for b_ in bad[:3])
        o.model = {'futures': sorted(set(b_[0] for b_ in bad))}
        confirm(chk, o, prop)
    return o


def confirm(chk, o, prop):
    """native: the real runner with a retry delay, consumed by a poller that hands out a NEW waker at every poll and waits
    for the latest one only (what `Future::poll` allows): the stream must still come to its end"""
    import os
    from checks import replay
    d = os.path.join(common.EVID, 'replay')
    os.makedirs(d, exist_ok=True)
    path = os.path.join(d, '%s-wake-up-contract.script' % prop)
    r, out = replay.run_script('mode wakers\n', path, timeout=120)
    chk.replays += 1
    if r is None or 'lost' not in r:
        o.verdict = 'inconclusive'
        o.detail += ' | native replay failed to run: %s' % out[-300:]
        return
    if r['lost'] > 0:
        chk.replay_files.append(path)
        o.replay = path
        o.detail += ' | reproduced natively: the real runner (one scenario retried after a delay) under a consumer that polls with a fresh waker every time, once more after each Pending, and waits for the latest waker only: %s' % (
            ' '.join(l for l in out.splitlines() if l.startswith('WAKERS'))[:300])
    else:
        o.verdict = 'inconclusive'
        o.detail += ' | not reproduced natively (the run ends under a consumer that changes its waker at every poll)'
