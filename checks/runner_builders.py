"""`runner::Basic` builder methods keep the options that were set before them (C06, C08, C18).

`Basic::max_concurrent_scenarios / retries / retry_after / fail_fast` store an option (decided by
builder_defaults.setters).  Every OTHER builder method takes the runner by value and hands back a runner - some of them
of another type (`which_scenario`, `before`, `after` re-assemble the struct field by field): the obligation is that the
option fields of what comes back are the ones that went in, whatever their values.  Methods are found in the MIR by
their signature (public, `Basic<..>` by value in, `Basic<..>` out), not by a list of names.
"""
import os
import re

import z3

from checks import common
from checks.common import Obligation
from mirsmt.values import Cell, Lazy, Adt, Ref, Obj, bv
from mirsmt.interp import Inconclusive

OPTS = {'max_concurrent_scenarios': 'usize', 'retries': 'usize', 'retry_after': 'std::time::Duration'}


def public_fns():
    from mirsmt import frontend
    src = open(os.path.join(frontend.REPO, 'src', 'runner', 'basic.rs')).read()
    return set(re.findall(r'\bpub\s+(?:const\s+)?(?:async\s+)?fn\s+(\w+)', src))


def builder_methods(prog):
    out = []
    pub = public_fns()
    for (st, m), lst in prog.by_method.items():
        if st != 'Basic' or m not in pub:
            continue
        for tr, b in lst:
            if tr is not None or not b.params or 'runner' not in b.name:
                continue
            p0 = re.sub(r'^runner::basic::', '', b.params[0][1].strip())
            rt = re.sub(r'^runner::basic::', '', (b.ret_type or '').strip())
            if p0.startswith('Basic<') and rt.startswith('Basic<'):
                out.append((m, b))
    return sorted(out, key=lambda x: x[0])


@common.part
def obligations(chk, prop, fields=('max_concurrent_scenarios', 'retries', 'retry_after', 'fail_fast')):
    prog = chk.prog
    BF = prog.tables.struct_fields('runner::basic::Basic<W>')
    if not isinstance(BF, list) or any(f not in BF for f in fields):
        raise Inconclusive('runner::Basic: option fields %s not all found' % (fields,))
    meths = [(m, b) for m, b in builder_methods(prog)]
    o = chk.add(Obligation('%s.runner-builders-keep-the-options-set-before' % prop,
                           'every path of the %d public builder methods of runner::Basic that take it by value (%s); current options arbitrary (presence + 64-bit value), arguments opaque; fields %s'
                           % (len(meths), ', '.join(m for m, _ in meths), ', '.join(fields))))
    o.verdict = 'holds'
    bad = []
    cur = {n: (z3.BitVec('cur.%s.d' % n, 64), z3.BitVec('cur.%s' % n, 64)) for n in OPTS}
    cur_ff = z3.Bool('cur.fail_fast')
    for name, body in meths:
        ex, M = chk.new_exec(loop_bound=6)
        M.opaque_bodies |= {'Collection::given', 'Collection::when', 'Collection::then', 'Collection::new'}
        M.opaque_fn_hook = lambda ex_, f, args, dty, info: Lazy(dty or '?', 'havoc!fnvalue')

        def take(ex_, info, a, dty):
            # mem::take on a component (the step collection): the old value out, some default left behind
            cell, path = ex_.deref(a[0])
            old = ex_.read_path(cell, path)
            ex_.write_path(cell, path, Lazy(dty or '?', 'left-by-mem::take'))
            return old
        M.table['mem::take'] = take

        def run(ex_, body=body):
            flds = {(None, i): Lazy('?', 'self.%s' % n) for i, n in enumerate(BF)}
            for n, (d, v) in cur.items():
                ex_.add(z3.ULT(d, bv(2)))
                flds[(None, BF.index(n))] = Adt('Option<%s>' % OPTS[n], {(1, 0): v}, d)
            flds[(None, BF.index('fail_fast'))] = cur_ff
            selfv = Adt(body.params[0][1].strip(), flds)
            args = [selfv] + [Lazy(pty, 'arg.%s' % loc) for (loc, pty) in body.params[1:]]
            return ex_.materialize(ex_.call_body(body, args))

        def on_end(ex_, rec, name=name, M=M):
            kind, res, pc, dec = rec
            o.paths += 1
            if kind != 'ok':
                if o.verdict == 'holds':
                    o.verdict = 'inconclusive'
                    o.detail = '%s: %s: %s' % (name, kind, res)
                return
            for n in fields:
                if n == name:
                    continue            # the setter of this very option: decided by builder_defaults.setters
                o.queries += 1
                if n == 'fail_fast':
                    ff = ex_.materialize(ex_.field_of(res, None, BF.index(n), 'bool'), 'bool')
                    claim = ff == cur_ff
                else:
                    d, v = cur[n]
                    f = ex_.materialize(ex_.field_of(res, None, BF.index(n), 'Option'))
                    fd = M.discr(ex_, f)
                    claim = fd == d
                    if ex_.check(fd == bv(1)):
                        claim = z3.And(claim, z3.Implies(d == bv(1), ex_.materialize(ex_.field_of(f, 1, 0, OPTS[n]), OPTS[n]) == v))
                if ex_.check(z3.Not(claim)):
                    m_ = ex_.solver.model()
                    bad.append((name, n, {k: (str(m_.eval(d_, model_completion=True)), str(m_.eval(v_, model_completion=True))) for k, (d_, v_) in cur.items()}))
        ex.explore(run, on_end)
    if bad and o.verdict != 'inconclusive':
        o.verdict = 'violated'
        o.detail = '; '.join('the runner returned by %s() does not carry the %s it was given' % (b[0], b[1]) for b in bad[:3])
        o.model = {'methods': sorted(set(b[0] for b in bad)), 'fields': sorted(set(b[1] for b in bad)), 'current': bad[0][2]}
        confirm(chk, o, prop)
    w = chk.add(Obligation('%s.runner-builders.witness' % prop, 'exploration'))
    w.kind = 'witness'
    w.verdict = 'witness-ok' if len(meths) >= 8 and o.paths >= len(meths) else 'witness-missing'
    w.detail = '%d builder methods, %d paths' % (len(meths), o.paths)
    return o


def confirm(chk, o, prop):
    """native: the option set through the real builder, THEN the other builder method, observed through the real runner"""
    from checks import replay
    d = os.path.join(common.EVID, 'replay')
    os.makedirs(d, exist_ok=True)
    path = os.path.join(d, '%s-runner-builders.script' % prop)
    feat3 = ['feature', '| Feature: f'] + sum([['|   Scenario: s%d' % i, '|     Given x%d' % i] for i in range(3)], [])
    one = ['feature', '| Feature: f', '|   Scenario: s0', '|     Given x0']
    after = {'which_scenario': (['builder which=exclusive'], []), 'before': ([], ['hooks before']), 'after': ([], ['hooks after']),
             'retry_options': None, 'steps': ([], []), 'given': ([], []), 'when': ([], []), 'then': ([], [])}
    devs = []
    for meth in o.model['methods']:
        how = after.get(meth)
        if how is None:
            continue
        blines, extra = how
        for fld in o.model['fields']:
            if fld == 'max_concurrent_scenarios':
                lines = ['builder max_concurrent=2'] + blines + extra + feat3 + ['step x%d yields=4' % i for i in range(3)]
                res, out = replay.run_script('\n'.join(['mode runner'] + lines) + '\n', path, timeout=60)
                chk.replays += 1
                if res is not None and res.get('peak_user_code') != 2:
                    devs.append('max_concurrent_scenarios(2) then %s(): %s scenarios in user code at once' % (meth, res.get('peak_user_code')))
            elif fld == 'retries':
                lines = ['builder max_concurrent=1 retries=2'] + blines + extra + one + ['step x0 always_fail']
                res, out = replay.run_script('\n'.join(['mode runner'] + lines) + '\n', path, timeout=60)
                chk.replays += 1
                n = len(re.findall(r'LOG EV \S*scenario\[s0\]:started ', out))
                if res is not None and n != 3:
                    devs.append('retries(2) then %s(): the always failing scenario was attempted %d time(s)' % (meth, n))
            elif fld == 'fail_fast':
                lines = ['builder max_concurrent=1 fail_fast=1'] + blines + extra + feat3 + ['step x0 always_fail']
                res, out = replay.run_script('\n'.join(['mode runner'] + lines) + '\n', path, timeout=60)
                chk.replays += 1
                started = re.findall(r'LOG EV \S*scenario\[(s\d)\]:started', out)
                if res is not None and started != ['s0']:
                    devs.append('fail_fast() then %s(): after the final failure of s0 the run started %s' % (meth, started))
            if devs:
                break
        if devs:
            break
    if devs:
        chk.replay_files.append(path)
        o.replay = path
        o.detail += ' | reproduced natively through the real builder and runner: %s' % devs[0]
    else:
        o.verdict = 'inconclusive'
        o.detail += ' | not reproduced natively (the real builder keeps the options across the later builder calls the driver can make)'
