"""World menus for the scheduler simulation and the per-property drivers (C04, C06, C07, C08, C03-framing, C05-sequencing)."""
import itertools
import time

from checks import common, execsim
from checks.common import Obligation
from checks.execsim import Scen, World
from mirsmt.interp import Inconclusive

ORACLE_OF = {
    'C04': ['terminates', 'every-scenario-runs', 'nothing-else-runs', 'every-started-attempt-finishes'],
    'C06': ['in-flight<=limit', 'free-slots-refilled-after-each-completion'],
    'C07': ['serial-dispatched-alone-in-its-batch', 'serial-isolation'],
    'C08': ['fail-fast-stops-dispatching', 'fail-fast-without-failure-runs-everything', 'every-started-attempt-finishes', 'brackets'],
    'C03': ['brackets'],
    'C05': ['retry-sequencing', 'retry-not-before-delay', 'others-run-during-retry-delay', 'in-flight-attempts-progress-during-retry-delay'],
    'C10': ['panic-hook-restored', 'panic-hook-silenced-while-running', 'every-started-attempt-finishes'],
    # an attempt that was started is driven to its end (so its after hook runs and its World is handed over) whatever else
    # happens in the run - in particular when another scenario trips fail-fast while it is in flight
    'C09': ['every-started-attempt-finishes'],
    'C02': ['every-started-attempt-finishes'],
}


def worlds(tier, focus):
    """Small worlds: completion orders come from the per-attempt poll counts, outcomes are symbolic per attempt."""
    W = []
    durs3 = [(0, 0, 0), (2, 0, 1), (0, 2, 0), (1, 1, 0)] if tier != 'thorough' else list(itertools.product((0, 1, 2), repeat=3))
    for d in durs3:
        for limit in ((1, 2, None) if tier != 'thorough' else (1, 2, 3, None)):
            # three concurrent scenarios in two features, one in a rule; second may be retried once
            W.append(('3conc d=%s limit=%s' % (d, limit),
                      World([Scen('a', 'C', 0, None, durs=(d[0],)), Scen('b', 'C', 0, 0, budget=1, durs=(d[1], 0)), Scen('c', 'C', 1, None, durs=(d[2],))], limit)))
    for d in durs3[:3] if tier != 'thorough' else durs3:
        for limit in (2, None):
            # serial + concurrent in the same batch
            W.append(('serial+2conc d=%s limit=%s' % (d, limit),
                      World([Scen('s', 'S', 0, None, budget=1, durs=(d[0], 0)), Scen('a', 'C', 0, None, durs=(d[1],)), Scen('b', 'C', 1, 0, durs=(d[2],))], limit)))
    # a step-less (draft) scenario next to ordinary ones, at top level and inside a rule: counted like any other
    for limit in (1, 2):
        W.append(('step-less-scenario limit=%s' % limit,
                  World([Scen('a', 'C', 0, None, durs=(0,), nsteps=0, fails=(False,)), Scen('b', 'C', 0, None, durs=(1,)),
                         Scen('c', 'C', 0, 0, durs=(0,), nsteps=0, fails=(False,)), Scen('e', 'C', 0, 0, durs=(0,))], limit)))
    # one rule holding a serial AND a concurrent scenario: the rule is still ONE bracket
    for limit in (2, None):
        W.append(('rule-with-serial-and-concurrent limit=%s' % limit,
                  World([Scen('s', 'S', 0, 0, durs=(0,)), Scen('a', 'C', 0, 0, durs=(1,)), Scen('b', 'C', 0, None, durs=(0,))], limit)))
    # the retried attempt of a serial scenario takes a while too: it must still run alone
    for limit in (2, None):
        W.append(('serial-retry-takes-time limit=%s' % limit,
                  World([Scen('s', 'S', 0, None, budget=1, durs=(0, 2), fails=(True, False)), Scen('a', 'C', 0, None, durs=(2,), fails=(False,)),
                         Scen('b', 'C', 1, 0, durs=(1,), fails=(False,))], limit)))
    for d in ([(1, 1, 1), (2, 1, 0)] if tier != 'thorough' else durs3):
        for limit in (1, 2):
            # a serial scenario first, then more concurrent ones than the limit
            W.append(('serial+3conc d=%s limit=%s' % (d, limit),
                      World([Scen('s', 'S', 0, None, durs=(0,), fails=(False,)), Scen('a', 'C', 0, None, durs=(d[0],), fails=(False,)),
                             Scen('b', 'C', 1, 0, durs=(d[1],), fails=(False,)), Scen('c', 'C', 1, 0, durs=(d[2],), fails=(False,))], limit)))
    for d in durs3[:3] if tier != 'thorough' else durs3:
        for limit in (1, 2):
            for ff in (True,):
                W.append(('failfast d=%s limit=%s' % (d, limit),
                          World([Scen('a', 'C', 0, 0, budget=1, durs=(d[0], 0)), Scen('b', 'C', 0, None, durs=(d[1],)), Scen('c', 'C', 1, 1, durs=(d[2],)),
                                 Scen('e', 'C', 1, None, durs=(0,))], limit, fail_fast=True)))
    if focus == 'C06':
        # completion order differs from start order: a long attempt at the head, short ones behind it, more queued
        for limit, dl in (((2, 4), (3, 5)) if tier != 'thorough' else ((2, 4), (2, 7), (3, 5), (3, 8))):
            W.append(('long-head limit=%d long=%d' % (limit, dl),
                      World([Scen('z', 'C', 0, None, durs=(dl,), fails=(False,))] + [Scen('x%d' % i, 'C', 0, None, durs=(0,), fails=(False,)) for i in range(limit - 1)]
                            + [Scen('y', 'C', 1, None, durs=(0,), fails=(False,)), Scen('w', 'C', 1, None, durs=(1,), fails=(False,))], limit)))
    if focus == 'C06':
        # several attempts complete in the SAME pass of the loop (equal durations), more queued than slots: every slot is
        # given back exactly once
        for limit, n_ in (((2, 6),) if tier != 'thorough' else ((2, 6), (3, 8))):
            W.append(('equal-durations limit=%d n=%d' % (limit, n_),
                      World([Scen('q%d' % i, 'C', 0, None, durs=(1,), fails=(False,)) for i in range(n_)], limit)))
    if focus == 'C06':
        # a delayed retry becomes due while every slot is taken by long attempts: it waits for a slot like anything else
        for dl in ((8,) if tier != 'thorough' else (6, 8, 12)):
            W.append(('delayed-retry+long-bystanders limit=2 long=%d' % dl,
                      World([Scen('r', 'C', 0, None, budget=1, delay=True, durs=(0, 0), fails=(True, False)), Scen('a', 'C', 0, None, durs=(dl,), fails=(False,)),
                             Scen('b', 'C', 0, None, durs=(dl,), fails=(False,))], 2)))
    if focus == 'C06':
        # the slot accounting must balance for EVERY kind of attempt: retried serial attempts (one or two of them) come
        # first, then more concurrent scenarios than the limit are ready at once and overlap
        for limit, nser in (((1, 1), (2, 1), (2, 2)) if tier != 'thorough' else ((1, 1), (2, 1), (2, 2), (3, 2))):
            W.append(('retried-serials-then-overlapping-concurrent limit=%d serials=%d' % (limit, nser),
                      World([Scen('s%d' % i, 'S', 0, None, budget=1, durs=(0, 0), fails=(True, False)) for i in range(nser)]
                            + [Scen('a%d' % i, 'C', i % 2, None, durs=(1 + (i % 2),), fails=(False,)) for i in range(limit + nser + 1)], limit)))
        # the same for a retried CONCURRENT scenario (re-queued at the front) with overlapping bystanders
        for limit in ((2,) if tier != 'thorough' else (2, 3)):
            W.append(('retried-concurrent-then-overlapping-concurrent limit=%d' % limit,
                      World([Scen('r', 'C', 0, None, budget=1, durs=(0, 1), fails=(True, False))]
                            + [Scen('a%d' % i, 'C', i % 2, None, durs=(2,), fails=(False,)) for i in range(limit + 2)], limit)))
    if focus in ('C04', 'C07', 'C03', 'C05'):
        # lazily delivered features (parser stream Pending `late` polls before an item)
        for late in ((1, 2) if tier != 'thorough' else (1, 2, 3, 5)):
            W.append(('lazy-idle late=%d' % late, World([Scen('a', 'C', 0, None, durs=(0,), fails=(False,))], 2, parser=[(late, 0)])))
            W.append(('lazy-two late=%d' % late, World([Scen('a', 'C', 0, None, durs=(2,), fails=(False,)), Scen('b', 'C', 1, 0, durs=(0,))], 2, parser=[(0, 0), (late, 1)])))
        # the parser reports its end late: after the last feature's scenarios have all finished
        for late in ((3, 6) if tier != 'thorough' else (1, 3, 6, 10)):
            W.append(('lazy-late-end late=%d' % late, World([Scen('a', 'C', 0, None, durs=(0,), fails=(False,))], 2, parser=[(0, 0), (late, 'end')])))
        # a feature that consists of a rule whose scenarios were all filtered out arrives after everything else has run
        for late in ((0, 3) if tier != 'thorough' else (0, 1, 3, 6)):
            W.append(('late-empty-rule-feature late=%d' % late,
                      World([Scen('a', 'C', 0, None, durs=(0,), fails=(False,))], 2, parser=[(0, 0), (late, 1)], empty_rule_features=(1,))))
            W.append(('only-empty-rule-feature late=%d' % late, World([], 2, parser=[(late, 1)], empty_rule_features=(1,))))
        for da, db in (((6, 3), (5, 1)) if tier != 'thorough' else ((6, 3), (5, 1), (8, 2), (4, 4))):
            W.append(('late-serial a=%d b=%d' % (da, db),
                      World([Scen('a', 'C', 0, None, durs=(da,), fails=(False,)), Scen('b', 'C', 0, None, durs=(db,), fails=(False,)),
                             Scen('s', 'S', 1, None, durs=(1,), fails=(False,))], 3, parser=[(0, 0), (2, 1)])))
    if focus in ('C03', 'C08', 'C04'):
        # fail-fast trips while the lazy parser has not finished: the run must still end with run-Finished last
        for late in ((2, 4) if tier != 'thorough' else (1, 2, 4, 6)):
            W.append(('failfast-lazy late=%d' % late,
                      World([Scen('a', 'C', 0, None, durs=(0,), fails=(True,)), Scen('b', 'C', 1, None, durs=(0,), fails=(False,))], 2, fail_fast=True,
                            parser=[(0, 0), (late, 1)])))
    if focus in ('C07', 'C05'):
        for da, db in (((2, 7),) if tier != 'thorough' else ((2, 7), (1, 9), (3, 5))):
            W.append(('delayed-serial-retry a=%d b=%d' % (da, db),
                      World([Scen('s', 'S', 0, None, budget=1, delay=True, durs=(0, 0), fails=(True, False)), Scen('a', 'C', 0, None, durs=(da,), fails=(False,)),
                             Scen('b', 'C', 0, None, durs=(db,), fails=(False,))], 2)))
        # two serial scenarios, the first one retried after a delay while the second (long) one runs: the retry must wait
        for db in ((4,) if tier != 'thorough' else (2, 4, 7)):
            W.append(('two-serials-one-delayed-retry b=%d' % db,
                      World([Scen('s', 'S', 0, None, budget=1, delay=True, durs=(0, 0), fails=(True, False)), Scen('t', 'S', 0, None, durs=(db,), fails=(False,))], 2)))
    if focus == 'C05':
        for da in ((1, 4) if tier != 'thorough' else (0, 1, 4, 7)):
            W.append(('delayed-retry+bystander a=%d' % da,
                      World([Scen('r', 'C', 0, None, budget=1, delay=True, durs=(0, 0), fails=(True, False)), Scen('a', 'C', 0, None, durs=(da,), fails=(False,))], 2)))
        for da in ((1, 2) if tier != 'thorough' else (1, 2, 3)):
            W.append(('long-delay+in-flight-bystander a=%d' % da,
                      World([Scen('r', 'C', 0, None, budget=1, delay=True, durs=(0, 0), fails=(True, False)), Scen('a', 'C', 0, None, durs=(da,), fails=(False,))], 2,
                            sleep_polls=da + 3)))
    if focus == 'C10':
        # two runs one after the other in the same process: process-wide state (statics, the panic hook) is carried over
        W.append(('two-runs-in-one-process', World([Scen('a', 'C', 0, None, durs=(0,), fails=(True,)), Scen('b', 'C', 0, None, durs=(1,), fails=(False,))], 2, runs=2)))
    # fail-fast without a concurrency limit: something must still be queued after the failure (a serial scenario, a late feature)
    for d in ([(0, 1), (1, 0)] if tier != 'thorough' else [(0, 1), (1, 0), (2, 2), (0, 0)]):
        W.append(('failfast-unlimited+serial d=%s' % (d,),
                  World([Scen('a', 'C', 0, None, durs=(d[0],), fails=(True,)), Scen('b', 'C', 0, None, durs=(d[1],), fails=(False,)),
                         Scen('s', 'S', 1, None, durs=(0,), fails=(False,)), Scen('t', 'S', 1, None, durs=(0,), fails=(False,))], None, fail_fast=True)))
    # fail-fast cuts the run short while TWO rules of the same feature are open (the serial scenario of the second rule
    # runs first, then the first rule's first scenario fails)
    for d in ([(0, 0), (0, 2)] if tier != 'thorough' else [(0, 0), (0, 2), (2, 0), (1, 1)]):
        for limit in (1, 2):
            W.append(('failfast-two-open-rules d=%s limit=%d' % (d, limit),
                      World([Scen('a', 'C', 0, 0, durs=(d[0],), fails=(True,)), Scen('c', 'C', 0, 0, durs=(0,), fails=(False,)), Scen('g', 'C', 0, 0, durs=(0,), fails=(False,)),
                             Scen('s', 'S', 0, 1, durs=(d[1],), fails=(False,)), Scen('e', 'C', 0, 1, durs=(0,), fails=(False,))], limit, fail_fast=True)))
    W.append(('failfast-unlimited+late-feature',
              World([Scen('a', 'C', 0, None, durs=(0,), fails=(True,)), Scen('b', 'C', 1, None, durs=(0,), fails=(False,))], None, fail_fast=True, parser=[(0, 0), (3, 1)])))
    for d in ([(0, 0, 0), (1, 0, 0)] if tier != 'thorough' else durs3):
        for limit in (2, 3):
            W.append(('failfast-plain d=%s limit=%s' % (d, limit),
                      World([Scen('a', 'C', 0, None, durs=(d[0],)), Scen('b', 'C', 0, None, durs=(d[1],)), Scen('c', 'C', 0, None, durs=(d[2],)),
                             Scen('e', 'C', 0, None, durs=(0,)), Scen('g', 'C', 1, None, durs=(0,))], limit, fail_fast=True)))
    return W


@common.part
def run(chk, prop, selected=None):
    names = ORACLE_OF[prop]
    obs = {}
    ws = worlds(chk.tier, prop)
    if selected is not None:
        ws = [(n, w) for n, w in ws if selected(n, w)]
    bound = 'the real execute() loop polled to completion (<= 40 polls) over %d worlds: 3-4 scenarios (C06 menu: up to 8; serial / concurrent, rules, retry budget <= 1), limits 1, 2, unlimited, per-attempt durations 0..2 polls, every outcome assignment (symbolic)' % len(ws)

    def ob(name):
        if name not in obs:
            obs[name] = chk.add(Obligation('%s.execute.%s' % (prop, name), bound))
            obs[name].verdict = 'holds'
        return obs[name]
    npaths = 0
    t0 = time.time()
    for wname, w in ws:
        out, ex = execsim.simulate(chk, w)
        for kind, res, pc in out:
            npaths += 1
            if kind != 'ok':
                o = ob('completes')
                if kind == 'panic':
                    o.verdict = 'violated'
                    o.model = {'world': wname}
                    if not getattr(o, 'worlds', None):
                        o.worlds = []
                    if len(o.worlds) < 4 and wname not in [x[0] for x in o.worlds]:
                        # a panic on the path: replayed natively with every outcome left to the script's defaults
                        o.worlds.append((wname, w, {'events': [], 'done': False, 'spin': None, 'polls': 0, 'hook': 'original'}))
                elif o.verdict != 'violated':
                    o.verdict = 'inconclusive'
                o.detail = '%s: %s (world %s)' % (kind, res, wname)
                continue
            orc = execsim.oracles(w, res)
            for n in names:
                if n not in orc:
                    continue
                oname = n
                if n == 'serial-isolation' and wname.startswith(('late-serial', 'delayed-serial-retry')):
                    # the serial scenario becomes ready while concurrent ones are in flight: class of the recorded finding
                    oname = 'serial-isolation[serial-becomes-ready-while-others-in-flight]'
                o = ob(oname)
                if oname != n:
                    o.role = 'serial-dispatched-while-concurrent-in-flight'
                o.paths += 1
                if orc[n] is not None:
                    if o.verdict != 'violated':
                        o.verdict = 'violated'
                        o.detail = '%s (world %s)' % (orc[n], wname)
                        o.model = {'world': wname, 'timeline': [list(map(str, e)) for e in res['events'] if e[0] in ('start', 'finish', 'dispatch', 'get', 'bracket', 'run')][:60]}
                        o.worlds = []
                    if len(o.worlds) < 8 and wname not in [x[0] for x in o.worlds]:
                        o.worlds.append((wname, w, res))
    for n, o in obs.items():
        if o.verdict == 'violated' and getattr(o, 'worlds', None):
            for cand in sorted(o.worlds, key=lambda x: ('retry' in repr([s.budget for s in x[1].scens if s.budget]), len(x[1].scens))):
                o.world = cand
                o.verdict = 'violated'
                if execsim.confirm_native(chk, o, prop, n.split('[')[0]):
                    break
    chk.extra['execute_sim'] = {'worlds': len(ws), 'paths': npaths, 'wall_s': round(time.time() - t0, 1)}
    w_ = chk.add(Obligation('%s.execute.witness' % prop, 'exploration'))
    w_.kind = 'witness'
    w_.verdict = 'witness-ok' if npaths >= len(ws) and all(n in obs for n in names[:1]) else 'witness-missing'
    w_.detail = '%d paths over %d worlds' % (npaths, len(ws))
    chk.assumptions.append('execute(): Executor::run_scenario replaced by a future that logs Started, is Pending for a harness-chosen number of polls, fails or passes '
                           '(symbolic per attempt) and runs the tail of run_scenario through the real callees (RetryOptions::next_try, Features::insert_retried_scenario, '
                           'Executor::scenario_finished); FuturesUnordered polls its members FIFO; the futures Mutex is free whenever locked; the parser has finished before execute starts')
    return obs
