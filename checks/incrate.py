"""In-crate native replay for private kernels.

A scratch copy of /repo's current tree (outside /repo and /verif) gets a generated `#[cfg(test)] mod verif_replay`
appended to the file that owns the private items; `cargo test --lib verif_replay` runs it against the real code.
/repo itself is never touched.  The test prints `RESULT k=v ...` lines which the caller compares with the
SPECIFICATION evaluated on the solver model's inputs: a counterexample is confirmed iff the real code deviates
from the specification on it.
"""
import fcntl
import os
import subprocess
import time

from mirsmt import frontend

CACHE = frontend.CACHE


def run(file_rel, module_code, timeout=900):
    """Append `module_code` (the body of `mod verif_replay`) to `file_rel` in a scratch copy and run it.
    -> (list of dicts from RESULT lines, raw output)"""
    os.makedirs(CACHE, exist_ok=True)
    lock = open(os.path.join(CACHE, 'incrate.lock'), 'w')
    fcntl.flock(lock, fcntl.LOCK_EX)
    try:
        src = os.path.join(CACHE, 'incrate-src')
        tgt = os.path.join(CACHE, 'incrate-target')
        os.makedirs(src, exist_ok=True)
        subprocess.run(['rsync', '-a', '--delete', '--exclude', 'target', '--exclude', '.git', '--exclude', 'book',
                        frontend.REPO.rstrip('/') + '/', src + '/'], check=True)
        p = os.path.join(src, file_rel)
        with open(p, 'a') as f:
            f.write('\n#[cfg(test)]\n#[allow(warnings, clippy::all, clippy::pedantic, clippy::restriction)]\nmod verif_replay {\n    use super::*;\n')
            f.write(module_code)
            f.write('\n}\n')
        env = dict(os.environ)
        env['CARGO_NET_OFFLINE'] = 'true'
        env['RUSTFLAGS'] = '--cap-lints allow'
        cmd = ['cargo', 'test', '--offline', '--lib', '--target-dir', tgt, 'verif_replay', '--', '--nocapture', '--test-threads', '1']
        try:
            r = subprocess.run(cmd, cwd=src, env=env, stdout=subprocess.PIPE, stderr=subprocess.STDOUT, text=True, timeout=timeout)
            out = r.stdout
        except subprocess.TimeoutExpired as e:
            out = (e.stdout.decode() if isinstance(e.stdout, bytes) else (e.stdout or '')) + '\nTIMEOUT'
        res = []
        for ln in out.splitlines():
            k = ln.find('RESULT ')
            if k != -1:
                d = {}
                for tok in ln[k + 7:].split():
                    if '=' in tok:
                        a, b = tok.split('=', 1)
                        d[a] = (b == 'true') if b in ('true', 'false') else (int(b) if b.lstrip('-').isdigit() else b)
                res.append(d)
        return res, out
    finally:
        fcntl.flock(lock, fcntl.LOCK_UN)
        lock.close()
