"""`writer::Stats` plumbing (C01, C13): the verdict function and every getter impl.

* `writer::Stats::execution_has_failed` (default body) == failed_steps>0 || parsing_errors>0 || hook_errors>0
* Summarize's getters return exactly its own counters
* every wrapper impl (Normalize, AssertNormalized, FailOnSkipped, Repeat, discard::Arbitrary) forwards each getter to
  the SAME getter of its inner writer; Tee = max(left, right); Or = left + right; discard::Stats = 0.
Inner-writer getters are symbolic (one named constant per (receiver field, getter)).
"""
import re

import z3

from checks.common import Obligation
from checks import common
from mirsmt.values import Cell, Lazy, Ref, bv
from mirsmt.interp import Inconclusive, PathEnd
from mirsmt import tables as T

GETTERS = ['passed_steps', 'skipped_steps', 'failed_steps', 'retried_steps', 'parsing_errors', 'hook_errors']


def stats_impls(prog):
    """-> list of (selftype, method, body) for every `impl writer::Stats for X` method body in the dump."""
    out = []
    for (st, meth), lst in prog.by_method.items():
        for tr, b in lst:
            if tr == 'Stats' and (meth in GETTERS or meth == 'execution_has_failed'):
                out.append((st, meth, b))
    return out


def _run_getter(chk, body, recv_names):
    """Symbolically execute a getter; inner `<_ as Stats<_>>::g(recv)` calls become constants `recv.g`.
    Returns list of (pc, result term, calls)."""
    ex, M = chk.new_exec(loop_bound=3)
    calls = []

    def inner(ex_, info, a, dty):
        r = a[0]
        r = ex_.materialize(r)
        if not isinstance(r, Ref):
            raise Inconclusive('getter receiver %r' % (r,))
        path = tuple(st[2] for st in r.path if st[0] == 'f')
        name = recv_names(r.cell, path)
        calls.append((name, info['method']))
        if info['method'] == 'execution_has_failed':
            return z3.Bool('%s.%s' % (name, info['method']))
        return z3.BitVec('%s.%s' % (name, info['method']), 64)
    for g in GETTERS + ['execution_has_failed']:
        M.table['Stats::%s' % g] = inner
    selfty = body.params[0][1]
    results = []

    def run(ex_):
        del calls[:]
        cell = Cell(Lazy(re.sub(r'^&\s*(mut\s+)?', '', selfty), 'self'), name='self')
        run.cell = cell
        return ex_.call_body(body, [Ref(cell, ())])

    def on_end(ex_, rec):
        results.append((rec[0], rec[1], list(rec[2]), list(calls)))
    ex.explore(run, on_end)
    return ex, results, run


@common.part
def obligations(chk, prop, which=('verdict', 'summarize', 'forward', 'tee', 'or')):
    prog = chk.prog
    t = prog.tables
    obs = []

    def decide(o, ex, pcs_and_claims):
        o.verdict = 'holds'
        s = z3.Solver()
        s.set('timeout', 60000)
        for pc, claim in pcs_and_claims:
            o.paths += 1
            o.queries += 1
            s.push()
            s.add(*pc)
            s.add(z3.Not(claim))
            r = s.check()
            if r == z3.sat:
                o.verdict = 'violated'
                m = s.model()
                o.model = {str(d): str(m[d]) for d in m.decls()}
                o.detail = 'getter returns a different value'
            elif r != z3.unsat:
                o.verdict = 'inconclusive'
                o.detail = 'solver unknown'
            s.pop()
        return o

    NATIVE = {'Tee': 'tee', 'Or': 'or', 'Normalize': 'normalize', 'AssertNormalized': 'assert_normalized', 'FailOnSkipped': 'fail_on_skipped',
              'Repeat': 'repeat', 'Stats': 'discard_stats'}

    def confirm_getter(o, st, meth):
        """native replay: the real wrapper over stub writers whose getters return the counterexample's values"""
        import os
        from checks import replay
        d = os.path.join(common.EVID, 'replay')
        os.makedirs(d, exist_ok=True)
        path = os.path.join(d, '%s-getter-%s-%s.script' % (prop, st, meth))
        mv = o.model or {}

        def val(name, default):
            try:
                return int(str(mv.get(name)), 0)
            except (TypeError, ValueError):
                return default
        if st == 'Summarize':
            # one scenario with three steps: passed, then failed with a retry left (retried), again: passed, skipped ...
            lines = ['mode summarize', 'bg 0', 'own 3', 'ev run_started', 'ev parse_error', 'ev parse_error', 'ev feature_started',
                     'ev started r=0/1', 'ev step 0 started r=0/1', 'ev step 0 passed r=0/1', 'ev step 1 started r=0/1', 'ev step 1 failed panic r=0/1',
                     'ev step 2 started r=0/1', 'ev step 2 skipped r=0/1', 'ev finished r=0/1',
                     'ev started r=1/0', 'ev step 0 started r=1/0', 'ev step 0 passed r=1/0', 'ev step 1 started r=1/0', 'ev step 1 passed r=1/0',
                     'ev step 2 started r=1/0', 'ev step 2 failed panic r=1/0', 'ev hook after started r=1/0', 'ev hook after failed r=1/0', 'ev finished r=1/0']
            res, out = replay.run_script('\n'.join(lines) + '\n', path)
            chk.replays += 1
            if res is None:
                o.verdict = 'inconclusive'
                o.detail += ' | native replay failed: %s' % out[-200:]
                return
            nat = {'passed_steps': ('g_passed', 'st_passed'), 'skipped_steps': ('g_skipped', 'st_skipped'), 'failed_steps': ('g_failed', 'st_failed'),
                   'retried_steps': ('g_retried', 'st_retried'), 'parsing_errors': ('parsing_errors', None), 'hook_errors': ('failed_hooks', None)}[meth]
            want = res[nat[1]] if nat[1] else {'parsing_errors': 2, 'hook_errors': 1}[meth]
            if res[nat[0]] != want:
                chk.replay_files.append(path)
                o.replay = path
                o.detail += ' | reproduced natively: the real Summarize::%s() returns %s, its counter is %s' % (meth, res[nat[0]], want)
            else:
                o.verdict = 'inconclusive'
                o.detail += ' | not reproduced natively (the real getter returns its counter on the scripted stream)'
            return
        if st not in NATIVE:
            o.verdict = 'inconclusive'
            o.detail += ' | no native replay for %s' % st
            return
        # every getter of every side gets its own value (the counterexample's where it mentions one, else distinct defaults):
        # a getter wired to the wrong statistic shows
        lvs = [val('left.%s' % g, val('inner.%s' % g, 3 + 10 * i)) for i, g in enumerate(GETTERS)]
        rvs = [val('right.%s' % g, 5 + 10 * i) for i, g in enumerate(GETTERS)]
        lv, rv = lvs[GETTERS.index(meth)] if meth in GETTERS else lvs[2], rvs[GETTERS.index(meth)] if meth in GETTERS else rvs[2]
        res, out = replay.run_script('mode getters\nleft %s\nright %s\n' % (' '.join(map(str, lvs)), ' '.join(map(str, rvs))), path)
        chk.replays += 1
        got = None
        for ln in out.splitlines():
            p_ = ln.split()
            if len(p_) == 4 and p_[0] == 'GET' and p_[1] == NATIVE[st] and p_[2] == meth:
                got = int(p_[3])
        if res is None or got is None:
            o.verdict = 'inconclusive'
            o.detail += ' | native replay failed: %s' % out[-200:]
            return
        if meth == 'execution_has_failed':
            fails_l = any(lvs[GETTERS.index(g)] > 0 for g in ('failed_steps', 'parsing_errors', 'hook_errors'))
            fails_r = any(rvs[GETTERS.index(g)] > 0 for g in ('failed_steps', 'parsing_errors', 'hook_errors'))
            want = 0 if st == 'Stats' else 1 if (fails_l or (fails_r and st in ('Tee', 'Or'))) else 0
        else:
            want = max(lv, rv) if st == 'Tee' else lv + rv if st == 'Or' else 0 if st == 'Stats' else lv
        if got != want:
            chk.replay_files.append(path)
            o.replay = path
            o.detail += ' | reproduced natively: the real %s::%s() over stub writers (left %d, right %d) returns %d, specification %d' % (st, meth, lv, rv, got, want)
        else:
            o.verdict = 'inconclusive'
            o.detail += ' | not reproduced natively (left %d, right %d -> %d as specified)' % (lv, rv, got)

    def fieldname(selfty, path):
        if not path:
            return 'self'
        fl = t.struct_fields(selfty)
        if isinstance(fl, list) and path[0] < len(fl):
            return fl[path[0]] + ''.join('.%d' % i for i in path[1:])
        return '.'.join(str(i) for i in path)

    if 'verdict' in which:
        b = None
        for n, bb in prog.bodies.items():
            if n.endswith('Stats::execution_has_failed') and '<impl' not in n:
                b = bb
        if b is None:
            raise Inconclusive('default body writer::Stats::execution_has_failed not found')
        ex, res, _ = _run_getter(chk, b, lambda cell, path: 'self')
        o = chk.add(Obligation('%s.verdict-function' % prop, 'all values of the three getters (64-bit)'))
        fs, pe, he = [z3.BitVec('self.%s' % g, 64) for g in ('failed_steps', 'parsing_errors', 'hook_errors')]
        spec = z3.Or(z3.UGT(fs, bv(0)), z3.UGT(pe, bv(0)), z3.UGT(he, bv(0)))
        claims = []
        for kind, r, pc, calls in res:
            if kind != 'ok':
                claims.append((pc, z3.BoolVal(False)))
            else:
                claims.append((pc, r == spec))
        decide(o, ex, claims)
        obs.append(o)

    for st, meth, b in sorted(stats_impls(prog), key=lambda x: (x[0] or '', x[1])):
        selfty = re.sub(r'^&\s*(mut\s+)?', '', b.params[0][1])
        if st == 'Summarize' and 'summarize' in which:
            from checks import summ
            ix = summ.Idx(prog)
            exp = {'passed_steps': ('steps', 'passed'), 'skipped_steps': ('steps', 'skipped'), 'failed_steps': ('steps', 'failed'),
                   'retried_steps': ('steps', 'retried'), 'parsing_errors': ('parsing_errors',), 'hook_errors': ('failed_hooks',)}
            if meth not in exp:
                continue
            ex, res, run = _run_getter(chk, b, lambda cell, path: 'inner')
            o = chk.add(Obligation('%s.getter[Summarize::%s]' % (prop, meth), 'arbitrary Summarize state'))
            e = exp[meth]
            nm = 'self.%d' % ix.S[e[0]] + ('.%d' % ix.Stats[e[1]] if len(e) > 1 else '')
            want = z3.BitVec(nm, 64)
            decide(o, ex, [(pc, (r == want) if kind == 'ok' else z3.BoolVal(False)) for kind, r, pc, calls in res])
            if o.verdict == 'violated':
                confirm_getter(o, st, meth)
            obs.append(o)
            continue
        if st in ('Tee', 'Or'):
            if st.lower() not in which or meth == 'execution_has_failed':
                continue
            ex, res, run = _run_getter(chk, b, lambda cell, path: fieldname(selfty, path))
            o = chk.add(Obligation('%s.getter[%s::%s]' % (prop, st, meth), 'arbitrary values of both inner getters (64-bit)'))
            l, r_ = z3.BitVec('left.%s' % meth, 64), z3.BitVec('right.%s' % meth, 64)
            claims = []
            for kind, r, pc, calls in res:
                if st == 'Tee':
                    want = z3.If(z3.UGT(l, r_), l, r_)
                    claims.append((pc, (r == want) if kind == 'ok' else z3.BoolVal(False)))
                else:
                    # sum; an overflow panic is acceptable only if the sum really overflows
                    if kind == 'ok':
                        claims.append((pc, r == l + r_))
                    else:
                        claims.append((pc, z3.Not(z3.BVAddNoOverflow(l, r_, False))))
            decide(o, ex, claims)
            if o.verdict == 'violated':
                confirm_getter(o, st, meth)
            obs.append(o)
            continue
        if 'forward' in which and st in ('Normalize', 'AssertNormalized', 'FailOnSkipped', 'Repeat', 'Arbitrary', 'Stats', 'Libtest', 'Basic'):
            if st in ('Libtest', 'Basic'):
                continue
            ex, res, run = _run_getter(chk, b, lambda cell, path: 'inner')
            o = chk.add(Obligation('%s.getter[%s::%s]' % (prop, st, meth), 'arbitrary inner writer'))
            if st == 'Stats':      # discard::Stats: always zero
                want = bv(0)
            elif meth == 'execution_has_failed':
                want = z3.Bool('inner.execution_has_failed')
            else:
                want = z3.BitVec('inner.%s' % meth, 64)
            decide(o, ex, [(pc, (r == want) if kind == 'ok' else z3.BoolVal(False)) for kind, r, pc, calls in res])
            if o.verdict == 'violated':
                confirm_getter(o, st, meth)
            obs.append(o)
    return obs
