"""Predicates over inherited tags (scenario + rule + feature): harness with concrete-length tag vectors whose
elements are symbolic strings; equality with a literal is one symbolic Boolean per (tag, literal)."""
import itertools

import z3

from checks import common
from checks.common import Obligation
from mirsmt.values import Cell, Lazy, Adt, Ref, Obj, bv
from mirsmt.interp import Inconclusive, PathEnd


def gherkin_node(prog, ty, name, tags, extra=None):
    """An Adt for gherkin::{Feature,Rule,Scenario} whose `tags` is a concrete-length vec of symbolic strings."""
    fl = prog.tables.struct_fields(ty)
    if not isinstance(fl, list) or 'tags' not in fl:
        raise Inconclusive('%s has no tags field' % ty)
    fields = {(None, fl.index('tags')): Obj('vec', items=tuple(Obj('symstr', name=t) for t in tags), ty='Vec<String>')}
    if ty == 'gherkin::Scenario' and 'examples' in fl:
        # scenarios as the runner sees them: not an outline unless the harness says so
        fields[(None, fl.index('examples'))] = Obj('vec', items=(), ty='Vec<gherkin::Examples>')
    for k, v in (extra or {}).items():
        fields[(None, fl.index(k))] = v
    return Adt(ty, fields, None, name)


def tag_names(level, n):
    return ['%s.tag%d' % (level, i) for i in range(n)]


def tag_predicate_obligation(chk, body, name, literal, negate, arg_order, closure_self, max_tags=None, confirm=None, to_bool=None, invoke=None):
    """body(feature, rule?, scenario) must equal (negated) 'some inherited tag equals `literal`'."""
    max_tags = max_tags if max_tags is not None else (2 if chk.tier == 'thorough' else 1)
    o = chk.add(Obligation(name, 'tag vectors of length 0..%d on scenario, rule (present or absent) and feature; tag contents symbolic' % max_tags))
    o.verdict = 'holds'
    shapes = 0
    for ns, nr, nf, has_rule in itertools.product(range(max_tags + 1), range(max_tags + 1), range(max_tags + 1), (False, True)):
        if not has_rule and nr > 0:
            continue
        shapes += 1
        ex, M = chk.new_exec(loop_bound=8)
        st, rt, ft = tag_names('scenario', ns), tag_names('rule', nr), tag_names('feature', nf)

        def run(ex_, st=st, rt=rt, ft=ft, has_rule=has_rule):
            f = Ref(Cell(gherkin_node(chk.prog, 'gherkin::Feature', 'feat', ft), name='feat'), ())
            s = Ref(Cell(gherkin_node(chk.prog, 'gherkin::Scenario', 'scn', st), name='scn'), ())
            if has_rule:
                r = Adt('Option<&gherkin::Rule>', {(1, 0): Ref(Cell(gherkin_node(chk.prog, 'gherkin::Rule', 'rule', rt), name='rule'), ())}, 1)
            else:
                r = Adt('Option<&gherkin::Rule>', {}, 0)
            vals = {'feature': f, 'rule': r, 'scenario': s}
            args = [vals[k] for k in arg_order]
            if invoke is not None:
                return invoke(ex_, args)          # the predicate is whatever value the code installs (closure, fn item, ..)
            if closure_self:
                args = [Ref(Cell(Adt(body.params[0][1].lstrip('&').strip(), {}, None, None)), ())] + args
            return ex_.call_body(body, args)

        def on_end(ex_, rec, st=st, rt=rt, ft=ft, has_rule=has_rule):
            kind, res, pc, dec = rec
            o.paths += 1
            if kind != 'ok':
                o.verdict = 'inconclusive' if kind in ('loopbound', 'unreachable') else 'violated'
                o.detail = '%s: %s' % (kind, res)
                return
            tags = st + (rt if has_rule else []) + ft
            hit = z3.Or(*[z3.Bool('%s==%s' % (t, '"%s"' % literal)) for t in tags]) if tags else z3.BoolVal(False)
            want = z3.Not(hit) if negate else hit
            o.queries += 1
            if to_bool is not None:
                res = to_bool(ex_, res)
            if ex_.check(res != want):
                if o.verdict != 'violated':
                    o.verdict = 'violated'
                    m = ex_.solver.model()
                    o.model = {'scenario_tags': len(st), 'rule': has_rule, 'rule_tags': len(rt), 'feature_tags': len(ft),
                               'tags_equal_to_literal': [t for t in tags if z3.is_true(m.eval(z3.Bool('%s==%s' % (t, '"%s"' % literal)), model_completion=True))],
                               'returned': str(m.eval(res, model_completion=True))}
                    o.detail = 'predicate differs from "inherited tag == %s"' % literal
        ex.explore(run, on_end)
    o.bound += '; %d shapes' % shapes
    if o.verdict == 'violated' and confirm is not None and o.model:
        confirm(chk, o)
    return o


def script_tags(model, literal):
    """counterexample of tag_predicate_obligation -> tag lines of a replay script."""
    hit = set(model['tags_equal_to_literal'])
    out = []
    for lvl, key, n in (('feature', 'ftags', model['feature_tags']), ('rule', 'rtags', model['rule_tags'] if model['rule'] else 0),
                        ('scenario', 'stags', model['scenario_tags'])):
        names = [literal if ('%s.tag%d' % (lvl, i)) in hit else 'other%d' % i for i in range(n)]
        if names:
            out.append('%s %s' % (key, ' '.join(names)))
    out.append('rule %d' % (1 if model['rule'] else 0))
    return out
