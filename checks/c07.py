"""C07 - @serial scenarios run in isolation from every other scenario."""
from checks import common, sched, builder_defaults, sched_worlds


def body(chk):
    builder_defaults.which_scenario(chk, 'C07')
    sched.get_obligations(chk, 'C07')
    sched.insert_scenarios_obligations(chk, 'C07')
    sched_worlds.run(chk, 'C07')


if __name__ == '__main__':
    common.main('C07', body)
