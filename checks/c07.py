"""C07 - @serial scenarios run in isolation from every other scenario."""
from checks import common, sched, builder_defaults, sched_worlds, c16


def body(chk):
    builder_defaults.which_scenario(chk, 'C07')
    sched.get_obligations(chk, 'C07')
    sched.insert_scenarios_obligations(chk, 'C07')
    sched_worlds.run(chk, 'C07')
    # the classifier's input: scenarios expanded from an outline carry the outline's and their Examples block's tags
    c16.obligations(chk, 'C07')
    # Features::insert files every scenario under the type the classifier gives for THAT scenario
    from checks import insert_retry
    insert_retry.obligations(chk, 'C07')
    # and a retried attempt goes back under the type it was dispatched as (the real run_scenario, one attempt)
    from checks import attempt_driver
    attempt_driver.run(chk, 'C07')


if __name__ == '__main__':
    common.main('C07', body)
