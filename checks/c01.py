"""C01 - run verdict: failed iff a parse error or a final scenario failure occurred.

Decided on the real MIR of: writer::Stats::execution_has_failed (default body), every Stats getter impl
(Summarize's own counters; forwarding through Normalize / AssertNormalized / FailOnSkipped / Repeat / discard;
Tee = max, Or = sum), Summarize::handle_scenario + handle_step (+closures) and Summarize::handle_event.
Per event, from an arbitrary pre-state: the three verdict counters never decrease and (some verdict counter grows)
<=> the event is a *final* failure by the property's definition.  Because the verdict is a disjunction of
`counter > 0` over monotone counters, this lifts to every stream, any number of scenarios, any interleaving.
"""
import re

import z3

from checks import common, summ, getters, summ_event, fail_on_skipped
from checks.common import Obligation
from mirsmt.values import bv


def body(chk):
    H = summ.Harness(chk)
    ex, ix, S, E = H.ex, H.ix, H.pre, H.ev
    chk.assumptions += [
        'INV: every counter < 2^62',
        'runner-side half (an attempt with a failed step/hook/World and retries left IS retried; a passed/skipped one is not) '
        'is decided separately on run_scenario\'s retry closure (C05) - here it is the meaning given to `retries.left > 0`',
        'libtest writer verdict (feature-gated, not in the default-feature MIR) is outside this check',
    ]
    inv = z3.And(*[z3.ULT(v, bv(1 << 62)) for v in S.vars()])
    obs = {}

    def ob(name):
        if name not in obs:
            obs[name] = chk.add(Obligation('C01.%s' % name, 'every path of handle_scenario+handle_step, arbitrary pre-state (<2^62), arbitrary event'))
            obs[name].verdict = 'holds'
        return obs[name]

    terms = {n: S.c[n] for n in ('st_failed', 'parsing_errors', 'failed_hooks')}
    terms.update({'ev.sc': E.sc, 'ev.hook': E.hook, 'ev.step': E.step, 'ev.err': E.err, 'ev.retries': E.ret,
                  'ev.current': E.cur, 'ev.left': E.left})
    cex = {}

    def refute(o, claim, role=None):
        o.paths += 1
        o.queries += 1
        if o.verdict == 'violated' and o.model and o.model.get('replayable'):
            return
        d = summ.get_cex(H, ex, claim, cur['res'], cur['k'])
        if d is not None:
            o.verdict = 'violated'
            o.role = role
            o.model = d
            o.detail = 'counterexample event/pre-state found'

    def run(ex_):
        H.add_invariants(ex_)
        return H.run_path(ex_)

    npaths = [0]
    cur = {}

    def on_end(ex_, rec):
        kind, res, pc, dec = rec
        if kind != 'ok':
            o = ob('no-unexpected-end')
            o.verdict = 'inconclusive'
            o.detail = '%s: %s' % (kind, res)
            return
        if res['panic'] is not None:
            return      # panics (skipped -= 1 underflow) are C12's no-panic obligation
        npaths[0] += 1
        post = res['post']
        cur['res'], cur['k'] = res, H.key_term()
        mono = z3.And(z3.UGE(post['st_failed'], S.c['st_failed']), z3.UGE(post['parsing_errors'], S.c['parsing_errors']),
                      z3.UGE(post['failed_hooks'], S.c['failed_hooks']))
        refute(ob('verdict-counters-monotone'), mono)
        contrib = z3.Or(post['st_failed'] != S.c['st_failed'], post['parsing_errors'] != S.c['parsing_errors'],
                        post['failed_hooks'] != S.c['failed_hooks'])
        step_final = z3.And(E.step_is(ix, 'Failed'), z3.Not(z3.And(E.retry_left(), E.err != bv(ix.Err['NotFound']))))
        hook_final = z3.And(E.hook_failed(ix), z3.Not(E.retry_left()))
        hook_nonfinal = z3.And(E.hook_failed(ix), E.retry_left())
        refute(ob('non-hook-events: verdict grows <=> final step failure'),
               z3.Implies(z3.Not(E.hook_failed(ix)), contrib == step_final))
        refute(ob('hook failure with no retry left fails the run'), z3.Implies(hook_final, contrib))
        refute(ob('hook failure in an attempt that will be retried does not fail the run'),
               z3.Implies(hook_nonfinal, z3.Not(contrib)), role='hook-failure-in-retried-attempt')
        # a retried (non-final) step failure, skipped and passed steps never fail the run
        refute(ob('passed/skipped/retried steps never fail the run'),
               z3.Implies(z3.Or(E.step_is(ix, 'Passed'), E.step_is(ix, 'Skipped'),
                                z3.And(E.step_is(ix, 'Failed'), E.retry_left(), E.err != bv(ix.Err['NotFound']))),
                          z3.Not(contrib)))

    ex.explore(run, on_end)
    w = chk.add(Obligation('C01.witness.paths', 'kernel exploration'))
    w.kind = 'witness'
    w.verdict = 'witness-ok' if npaths[0] >= 20 else 'witness-missing'
    w.detail = '%d feasible non-panicking paths' % npaths[0]
    for name, o in obs.items():
        if o.verdict == 'violated' and name != 'hook failure in an attempt that will be retried does not fail the run':
            summ.confirm_transition(chk, H, o, 'C01', re.sub(r'[^a-z0-9]+', '-', name.lower())[:50])
    o = obs.get('hook failure in an attempt that will be retried does not fail the run')
    if o is not None and o.verdict == 'violated':
        confirm_hook_retry(chk, o)
    getters.obligations(chk, 'C01')
    summ_event.handle_event_obligations(chk, 'C01')
    fail_on_skipped.obligations(chk, 'C01')        # (the default predicate - `@allow.skipped` on scenario, rule or feature - included)
    # the verdict is computed from events: the real run_scenario attempt must say "retries left" on its failure events
    # exactly when another attempt follows (else a final failure is counted as retried and the run passes)
    from checks import attempt_driver
    attempt_driver.run(chk, 'C01')
    # "failed if a parser error was delivered": the ingester must hand every parser error it consumes to the writers
    from checks import ingest
    ingest.obligations(chk, 'C01')
    # "every built-in stats pipeline ... every interleaving": a failure must reach the statistics writer that sits BEHIND the
    # normalizer (Normalize<Summarize<..>>, Libtest) whatever else holds the normalizer's output - Normalize is lossless
    from checks import c11
    c11.obligations(chk, 'C01', variants=['basic'])
    # `@allow.skipped` on an Examples block reaches the rows expanded from it (the tags FailOnSkipped's predicate reads)
    from checks import c16
    c16.obligations(chk, 'C01')


def confirm_hook_retry(chk, o):
    """Native replay: after-hook fails in attempt 0 (left=1), attempt 1 passes -> execution_has_failed()."""
    import os
    from checks import replay
    d = os.path.join(common.EVID, 'replay')
    os.makedirs(d, exist_ok=True)
    path = os.path.join(d, 'C01-hook-failure-in-retried-attempt.script')
    left = 1
    lines = ['mode summarize', 'bg 0', 'own 1']
    for a in range(left + 1):
        r = 'r=%d/%d' % (a, left - a)
        lines += ['ev started %s' % r, 'ev step 0 started %s' % r, 'ev step 0 passed %s' % r]
        if a == 0:
            lines += ['ev hook after started %s' % r, 'ev hook after failed %s' % r]
        lines += ['ev finished %s' % r]
    res, out = replay.run_script('\n'.join(lines) + '\n', path)
    chk.replays += 1
    chk.replay_files.append(path)
    o.replay = path
    if res is not None and res.get('failed') is True and res.get('st_failed') == 0 and res.get('parsing_errors') == 0:
        o.detail += ' | reproduced natively: real Summarize reports execution_has_failed()=true for a scenario that passed its last retry (%s)' % path
    else:
        o.verdict = 'inconclusive'
        o.detail += ' | native replay DISAGREES: %s' % (res if res is not None else out[-300:])


if __name__ == '__main__':
    common.main('C01', body)
