"""`Features::insert`: every scenario is stored with the retry options the resolver gives for THAT scenario in ITS OWN
rule (C18; also C05).

`RetryOptions::parse_from_tags` (checks/c18.py) decides what the resolver answers for one (feature, rule, scenario);
this obligation decides the step in between: the real `Features::insert` is run on a feature with top-level scenarios and
two rules, with a resolver whose answer is different for every (rule, scenario) pair - a custom
`Basic::retry_options` function may look at anything - and what reaches `insert_scenarios` is compared per scenario.
Scenario tag lists are symbolic (0..1 tag each, equalities decided by the solver), so scenarios that look alike are covered.
"""
import os
import re

import z3

from checks import common, sched, tagsets
from checks.common import Obligation
from checks.fail_on_skipped import poll_to_completion
from mirsmt.values import Cell, Lazy, Adt, Ref, Obj, UNIT, bv
from mirsmt.interp import Inconclusive

# (name, rule index | None)
SCENS = [('a', None), ('b', None), ('c', 0), ('d', 1), ('e', 1)]


@common.part
def obligations(chk, prop):
    prog = chk.prog
    six = sched.SIdx(prog)
    ins = common.find_method(prog, 'Features', 'insert')
    ins_sc = common.find_method(prog, 'Features', 'insert_scenarios')
    ip = {n: int(p[1:]) - 1 for n, p in ins.debug.items() if p.startswith('_') and p[1:].isdigit() and int(p[1:]) <= len(ins.params)}
    need = ('self', 'feature', 'which_scenario', 'retry', 'cli')
    if any(n not in ip for n in need):
        raise Inconclusive('Features::insert parameters %s' % sorted(ip))
    o = chk.add(Obligation('%s.insert.every-scenario-stored-with-the-options-resolved-for-it-in-its-own-rule' % prop,
                           'every path of Features::insert on a feature with 2 top-level scenarios and 2 rules (1 + 2 scenarios); 0..1 tag per scenario with symbolic contents; '
                           'resolver answering differently per (rule, scenario); both iteration orders of hash maps'))
    o.verdict = 'holds'
    K = {n: 3 + 7 * i for i, (n, _r) in enumerate(SCENS)}
    K['b'] = 0          # a resolved budget of ZERO is still a budget: the scenario's events carry Retries { current: 0, left: 0 }
    SERIAL = ('b', 'd')         # what the (custom) classifier says: it may look at anything, e.g. the expanded name
    o2 = chk.add(Obligation('%s.insert.every-scenario-filed-under-the-type-the-classifier-gives-for-it' % prop, o.bound if hasattr(o, 'bound') else 'same runs'))
    o2.verdict = 'holds'
    # rows expanded from one outline keep the outline's Examples: all scenarios share one non-empty `examples` value
    shared_examples = Obj('vec', items=(Lazy('gherkin::Examples', 'the.outline.examples'),), ty='Vec<gherkin::Examples>')
    for ntag, outline in ((0, False), (1, False), (0, True), (0, 'empty-rule-first')):
        ex, M = chk.new_exec(loop_bound=16, max_paths=4000)
        M.opaque_bodies |= {'ScenarioId::new'}
        captured = {}

        def pointee_name(ex_, v):
            for _ in range(8):
                v = ex_.materialize(v)
                if isinstance(v, Ref):
                    v = ex_.read_path(v.cell, v.path)
                    continue
                if isinstance(v, Adt) and v.discr is not None and v.name is None:
                    if z3.simplify(M.discr(ex_, v)).as_long() == 0:
                        return None
                    v = ex_.field_of(v, 1, 0, '?')
                    continue
                if isinstance(v, Adt) and v.name is None and (None, 0) in v.fields:
                    v = v.fields[(None, 0)]
                    continue
                break
            return v.name if isinstance(v, (Adt, Lazy)) else None

        def hook(ex_, f, args, dty, info, M=M):
            if len(args) == 3:
                sn3 = pointee_name(ex_, args[2])
                M.log(ex_, 'classifier_called', scenario=sn3)
                return Adt('runner::basic::ScenarioType', {}, six.Ty['Serial' if sn3 in SERIAL else 'Concurrent'])
            rn, sn = pointee_name(ex_, args[1]), pointee_name(ex_, args[2])
            want_rule = dict(SCENS).get(sn, 'unknown')
            M.log(ex_, 'resolver_called', rule=rn, scenario=sn)
            # the answer depends on BOTH the scenario and the rule it is asked about
            left = K.get(sn, 1) + (0 if rn == (None if want_rule is None else 'rule%d' % want_rule) else 100)
            ro = Adt('runner::basic::RetryOptions', {
                (None, six.RO['retries']): Adt('event::Retries', {(None, six.R['current']): bv(0), (None, six.R['left']): bv(left)}),
                (None, six.RO['after']): Adt('Option<std::time::Duration>', {}, 0)})
            return Adt('Option<RetryOptions>', {(1, 0): ro}, 1)
        M.opaque_fn_hook = hook

        def capture(ex_, body, args, captured=captured):
            captured['arg'] = args[1]
            return Obj('future', what=('ready',), pending=0, value=UNIT, on_ready=None)
        M.body_hooks[ins_sc.name] = capture

        def run(ex_, ntag=ntag, M=M, captured=captured, outline=outline):
            def scv(n):
                return tagsets.gherkin_node(prog, 'gherkin::Scenario', n, ['%s.tag%d' % (n, i) for i in range(ntag)], {
                    'steps': Obj('vec', items=(), ty='Vec<Step>'),
                    'examples': shared_examples if outline is True else Obj('vec', items=(), ty='Vec<gherkin::Examples>')})
            rules = [tagsets.gherkin_node(prog, 'gherkin::Rule', 'rule%d' % ri, [], {
                'scenarios': Obj('vec', items=tuple(scv(n) for n, r in SCENS if r == ri), ty='Vec<Scenario>')}) for ri in (0, 1)]
            if outline == 'empty-rule-first':
                # a rule whose scenarios were all filtered out stays in the feature (Cucumber::filter_run keeps it), in front
                rules = [tagsets.gherkin_node(prog, 'gherkin::Rule', 'ruleE', [], {'scenarios': Obj('vec', items=(), ty='Vec<Scenario>')})] + rules
            feat = tagsets.gherkin_node(prog, 'gherkin::Feature', 'feat', [], {
                'scenarios': Obj('vec', items=tuple(scv(n) for n, r in SCENS if r is None), ty='Vec<Scenario>'), 'rules': Obj('vec', items=tuple(rules), ty='Vec<Rule>')})
            args = [None] * len(ins.params)
            args[ip['self']] = Ref(Cell(Lazy('runner::basic::Features', 'features'), name='features'), ())
            args[ip['feature']] = feat
            args[ip['which_scenario']] = Ref(Cell(Lazy('Which', 'which'), name='which'), ())
            args[ip['retry']] = Ref(Cell(Ref(Cell(Lazy('dyn Fn', 'retry_fn'), name='retry_fn'), (), pid=bv(0x77)), name='retry_arc'), ())      # &Arc<dyn Fn>
            args[ip['cli']] = Ref(Cell(Lazy('runner::basic::Cli', 'cli'), name='cli'), ())
            for i_, (loc_, pty_) in enumerate(ins.params):
                if args[i_] is None:
                    args[i_] = common.default_by_type(M, pty_, loc_)
            co = ex_.call_body(ins, args)
            poll_to_completion(ex_, M, co, 4)
            return {'arg': captured.get('arg'), 'calls': [(e['rule'], e['scenario']) for e in ex_.env.get('log', []) if e['kind'] == 'resolver_called']}

        def on_end(ex_, rec, M=M, ntag=ntag, outline=outline):
            kind, res, pc, dec = rec
            o.paths += 1
            if kind != 'ok':
                if o.verdict != 'violated':
                    o.verdict = 'inconclusive' if kind in ('loopbound', 'unreachable') else 'violated'
                    o.detail = '%s: %s' % (kind, res)
                return
            if res['arg'] is None:
                o.verdict, o.detail = 'inconclusive', 'insert_scenarios was not called'
                return
            m = ex_.materialize(res['arg'])
            seen = {}
            filed = {}
            for _k, vec in m.entries:
                kd = z3.simplify(M.discr(ex_, ex_.materialize(_k))).as_long()
                for ent in M.seq_of(ex_, vec):
                    filed[pointee_name(ex_, ex_.field_of(ex_.materialize(ent), None, 3, 'event::Source<gherkin::Scenario>'))] = kd
            o2.paths += 1
            wrong = ['%s (classifier: %s, filed as %s)' % (n, 'Serial' if n in SERIAL else 'Concurrent', 'Serial' if filed.get(n) == six.Ty['Serial'] else 'Concurrent' if n in filed else 'nothing')
                     for n, _r in SCENS if filed.get(n) != six.Ty['Serial' if n in SERIAL else 'Concurrent']]
            if wrong and o2.verdict != 'violated':
                o2.verdict = 'violated'
                o2.detail = 'scenarios filed under another type than the classifier gives for them: %s (%d tag(s) per scenario; %s)' % (
                    ', '.join(wrong), ntag, 'all scenarios are rows of one outline (same non-empty Examples)' if outline is True else 'an empty rule in front of the others' if outline else 'plain scenarios')
                o2.model = {'wrong': wrong, 'outline': outline}
            for _k, vec in m.entries:
                for ent in M.seq_of(ex_, vec):
                    ent = ex_.materialize(ent)
                    sn = pointee_name(ex_, ex_.field_of(ent, None, 3, 'event::Source<gherkin::Scenario>'))
                    rn = pointee_name(ex_, ex_.field_of(ent, None, 2, 'Option<event::Source<gherkin::Rule>>'))
                    ro = ex_.materialize(ex_.field_of(ent, None, 4, 'Option<RetryOptions>'))
                    left = None
                    if z3.simplify(M.discr(ex_, ro)).as_long() == 1:
                        rv = ex_.materialize(ex_.field_of(ex_.materialize(ex_.field_of(ro, 1, 0, 'runner::basic::RetryOptions')), None, six.RO['retries'], 'event::Retries'))
                        left = z3.simplify(ex_.materialize(ex_.field_of(rv, None, six.R['left'], 'usize'), 'usize')).as_long()
                    seen.setdefault(sn, []).append((rn, left))
            o.queries += 1
            bad = None
            for n, r in SCENS:
                want = ('rule%d' % r if r is not None else None, K[n])
                if seen.get(n) != [want]:
                    bad = bad or 'scenario %s (rule %s) is stored as %s, the resolver answers left=%d for it in its own rule' % (n, want[0], seen.get(n), K[n])
            extra = [n for n in seen if n not in K]
            if extra:
                bad = bad or 'unknown scenarios stored: %s' % extra
            if bad and o.verdict != 'violated':
                o.verdict = 'violated'
                eqs = {}
                if ntag:
                    import itertools
                    for (x, _), (y, _) in itertools.combinations(SCENS, 2):
                        t_ = z3.Bool('%s==%s' % tuple(sorted(('%s.tag0' % x, '%s.tag0' % y))))
                        if not ex_.check(z3.Not(t_)):
                            eqs['%s.tag0==%s.tag0' % (x, y)] = True
                o.detail = '%s (%d tag(s) per scenario%s%s; resolver calls %s)' % (bad, ntag, ', equal: %s' % sorted(eqs) if eqs else '',
                                                                                 '; an empty rule in front of the others' if outline == 'empty-rule-first' else '', res['calls'])
                o.model = {'tags_per_scenario': ntag, 'equal_tags': sorted(eqs), 'resolver_calls': [list(map(str, c)) for c in res['calls']]}
        ex.explore(run, on_end)
    if o.verdict == 'violated':
        confirm(chk, o, prop)
    if o2.verdict == 'violated':
        confirm_type(chk, o2, prop)
    w = chk.add(Obligation('%s.insert.witness' % prop, 'exploration'))
    w.kind = 'witness'
    w.verdict = 'witness-ok' if o.paths >= 2 else 'witness-missing'
    w.detail = '%d paths' % o.paths
    return o


def confirm(chk, o, prop):
    """native, through the real runner: untagged scenarios at top level, in a rule tagged @retry(2) and in an untagged rule
    after it, all failing: only the one inside the tagged rule is retried (3 attempts), the others run once"""
    from checks import replay
    d = os.path.join(common.EVID, 'replay')
    os.makedirs(d, exist_ok=True)
    lines = ['mode runner', 'hooks none', 'builder max_concurrent=1', 'feature', '| Feature: f', '|   Scenario: a', '|     Given sa',
             '|   @retry(2)', '|   Rule: r0', '|     Scenario: c', '|       Given sc', '|   Rule: r1', '|     Scenario: d', '|       Given sd',
             'step sa always_fail', 'step sc always_fail', 'step sd always_fail']
    path = os.path.join(d, '%s-insert-retry-options-per-scenario.script' % prop)
    r, out = replay.run_script('\n'.join(lines) + '\n', path, timeout=60)
    chk.replays += 1
    starts = {n: len(re.findall(r'LOG EV \S*scenario\[%s\]:started' % n, out)) for n in ('a', 'c', 'd')}
    if r is None or sum(starts.values()) == 0:
        o.verdict = 'inconclusive'
        o.detail += ' | native replay failed: %s' % out[-200:]
    elif starts == {'a': 1, 'c': 3, 'd': 1}:
        # a budget of zero is a budget: the events of a `@retry(0)` scenario carry Retries { current: 0, left: 0 }
        lines2 = ['mode runner', 'hooks none', 'builder max_concurrent=1', 'feature', '| Feature: f', '|   @retry(0)', '|   Scenario: z', '|     Given sz', 'step sz always_fail']
        path2 = os.path.join(d, '%s-insert-retry-options-budget-zero.script' % prop)
        r2, out2 = replay.run_script('\n'.join(lines2) + '\n', path2, timeout=60)
        chk.replays += 1
        rs = re.findall(r'LOG EV \S*scenario\[z\]:started r=(\S+)', out2)
        # an empty rule (its scenarios filtered out) in front of the others
        lines3 = ['mode runner', 'hooks none', 'builder max_concurrent=1', 'prepend_empty_rule', 'feature', '| Feature: f', '|   Scenario: a', '|     Given sa',
                  '|   @retry(2)', '|   Rule: r0', '|     Scenario: c', '|       Given sc', '|   Rule: r1', '|     Scenario: d', '|       Given sd',
                  'step sa always_fail', 'step sc always_fail', 'step sd always_fail']
        path3 = os.path.join(d, '%s-insert-retry-options-empty-rule-first.script' % prop)
        r3, out3 = replay.run_script('\n'.join(lines3) + '\n', path3, timeout=60)
        chk.replays += 1
        starts3 = {n: len(re.findall(r'LOG EV \S*scenario\[%s\]:started' % n, out3)) for n in ('a', 'c', 'd')}
        if r3 is not None and sum(starts3.values()) and starts3 != {'a': 1, 'c': 3, 'd': 1}:
            chk.replay_files.append(path3)
            o.replay = path3
            o.detail += ' | reproduced natively through the real runner: with an empty rule in front, failing scenarios a (top level), c (rule tagged @retry(2)), d (next rule) were attempted %s times, the tags say a=1, c=3, d=1' % starts3
            return
        if r2 is not None and rs and rs != ['0/0']:
            chk.replay_files.append(path2)
            o.replay = path2
            o.detail += ' | reproduced natively through the real runner: the events of a scenario tagged @retry(0) carry retries %s (expected one attempt with 0/0)' % rs
        else:
            o.verdict = 'inconclusive'
            o.detail += ' | not reproduced natively (attempts a=1, c=3, d=1 as the tags say; a @retry(0) scenario carries 0/0)'
    else:
        chk.replay_files.append(path)
        o.replay = path
        o.detail += ' | reproduced natively through the real runner: failing untagged scenarios a (top level), c (in a rule tagged @retry(2)), d (in the next, untagged rule) were attempted %s times, the tags say a=1, c=3, d=1' % starts


def confirm_type(chk, o, prop):
    """native, through the real runner with the custom classifier of the driver (`@exclusive` => Serial) - and, because a
    classifier may look at more than tags, one that goes by the scenario NAME: rows of one outline, the second row serial"""
    from checks import replay
    d = os.path.join(common.EVID, 'replay')
    os.makedirs(d, exist_ok=True)
    lines = ['mode runner', 'hooks none', 'builder max_concurrent=3 which=name_serial', 'feature', '| Feature: f',
             '|   Scenario Outline: row <n>', '|     Given st <n>', '|     Examples:', '|       | n |', '|       | one |', '|       | serial |', '|       | three |',
             'step st_one yields=6', 'step st_serial yields=6', 'step st_three yields=6']
    path = os.path.join(d, '%s-insert-classifier-per-scenario.script' % prop)
    r, out = replay.run_script('\n'.join(lines) + '\n', path, timeout=60)
    chk.replays += 1
    from checks import execsim
    tl = execsim.native_timeline(out)
    bad = []
    for e in tl:
        if e[0] == 'start' and (('serial' in e[1] and e[3]) or any('serial' in x for x in e[3])):
            bad.append('%s started while %s running' % (e[1], list(e[3])))
    if r is None or not any(e[0] == 'start' for e in tl):
        o.verdict = 'inconclusive'
        o.detail += ' | native replay failed: %s' % out[-200:]
    elif bad:
        chk.replay_files.append(path)
        o.replay = path
        o.detail += ' | reproduced natively through the real runner (classifier: a scenario whose name contains `serial` is Serial; three rows of one outline): %s' % '; '.join(bad[:2])
    else:
        o.verdict = 'inconclusive'
        o.detail += ' | not reproduced natively (the row the classifier calls serial ran alone)'
