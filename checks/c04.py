"""C04 - every supplied scenario runs, nothing else runs, and the run always terminates."""
from checks import common, sched, ingest, sched_worlds


def body(chk):
    ingest.obligations(chk, 'C04')
    sched.insert_scenarios_obligations(chk, 'C04')
    sched_worlds.run(chk, 'C04')
    # every scenario of a feature reaches the queue, filed under its own rule (also with a rule left empty by a filter in front)
    from checks import insert_retry
    insert_retry.obligations(chk, 'C04')
    # the crate's hand-written futures never return Pending without having registered the waker of that poll
    from checks import wakeups
    wakeups.wake_up_contract(chk, 'C04')
    # what 'attempted' means for one scenario handed to run_scenario - whatever it consists of (no own steps, only a
    # rule background, no hooks ..): Started .. Finished, the steps there are, and a report of how it ended
    from checks import attempt_driver
    attempt_driver.run(chk, 'C04')


if __name__ == '__main__':
    common.main('C04', body)
