"""Tee / Or delivery (C13): handle_event and write reach the right inner writers, decided on the MIR."""
import z3

from checks import common, events
from checks.common import Obligation
from checks.fail_on_skipped import _entry, poll_to_completion
from mirsmt.values import Cell, Lazy, Adt, Ref, Obj, UNIT, bv
from mirsmt.interp import Inconclusive, PathEnd


@common.part
def obligations(chk, prop):
    ix = events.CukeIdx(chk.prog)
    pendings = ((0, 0), (1, 0), (0, 1), (1, 2)) if chk.tier == 'thorough' else ((0, 0), (1, 0))
    out = []
    for st, meth, trait in (('Tee', 'handle_event', 'Writer'), ('Tee', 'write', 'Arbitrary'), ('Or', 'handle_event', 'Writer')):
        entry = _entry(chk, st, meth, trait)
        fl = chk.prog.tables.struct_fields('%s::%s<L, R>' % (st.lower(), st))
        if not isinstance(fl, list) or 'left' not in fl or 'right' not in fl:
            raise Inconclusive('%s fields: %r' % (st, fl))
        o = chk.add(Obligation('%s.%s.%s-delivery' % (prop, st.lower(), meth),
                               'every path of %s::%s polled to completion; arbitrary item; inner futures of left/right pending %s polls' % (st, meth, pendings)))
        o.verdict = 'holds'
        for (kl, kr) in pendings:
            ex, M = chk.new_exec(loop_bound=8)
            E = events.SymCuke('E')
            pick = z3.Bool('predicate(item)')

            def hook(ex_, f, args, dty, info, M=M, pick=pick):
                M.log(ex_, 'predicate', args=args)
                return pick
            M.opaque_fn_hook = hook
            # per-writer pending counts
            orig_he, orig_wr = M.table['Writer::handle_event'], M.table['Arbitrary::write']

            def with_pending(f, kl=kl, kr=kr, fl=fl, M=M):
                def g(ex_, info, a, dty):
                    r = ex_.materialize(a[0])
                    idx = [s_[2] for s_ in r.path if s_[0] == 'f'][:1] if isinstance(r, Ref) else []
                    ex_.env['inner_pending'] = kl if idx == [fl.index('left')] else kr
                    return f(ex_, info, a, dty)
                return g
            M.table['Writer::handle_event'] = with_pending(orig_he)
            M.table['Arbitrary::write'] = with_pending(orig_wr)

            def run(ex_, E=E, M=M, entry=entry, meth=meth, fl=fl, st=st):
                ex_.add(E.well_formed(ix))
                fields = {(None, fl.index('left')): Lazy('L', 'left'), (None, fl.index('right')): Lazy('R', 'right')}
                if 'predicate' in fl:
                    fields[(None, fl.index('predicate'))] = Lazy('F', 'pred')
                cell = Cell(Adt('%s<L, R>' % st, fields, None, None), name='self')
                if meth == 'write':
                    item = Lazy('Val', 'val')
                    co = ex_.call_body(entry, [Ref(cell, ()), item])
                else:
                    item = E.build(ix)
                    cli = Ref(Cell(Lazy('cli::Compose<L, R>', 'cli'), name='cli'), ())
                    co = ex_.call_body(entry, [Ref(cell, ()), item, cli])
                poll_to_completion(ex_, M, co, 8)
                return {'log': list(ex_.env.get('log', [])), 'item': item}

            def on_end(ex_, rec, o=o, st=st, meth=meth, fl=fl, pick=pick):
                kind, res, pc, dec = rec
                o.paths += 1
                if kind != 'ok':
                    o.verdict = 'inconclusive' if kind in ('loopbound', 'unreachable') else 'violated'
                    o.detail = '%s: %s' % (kind, res)
                    return
                tag = 'inner_handle_event_done' if meth == 'handle_event' else 'inner_write_done'
                key = 'event' if meth == 'handle_event' else 'value'
                got = {}
                for e in res['log']:
                    if e['kind'] == tag:
                        got.setdefault(e['writer'], []).append(e[key])
                L, R = 'self.%d' % fl.index('left'), 'self.%d' % fl.index('right')
                if st == 'Tee':
                    want = {L: 1, R: 1}
                else:
                    t, f = ex_.check(pick), ex_.check(z3.Not(pick))
                    if t and f:
                        o.verdict = 'inconclusive'
                        o.detail = 'path does not decide the predicate'
                        return
                    want = {L: 1, R: 0} if t else {L: 0, R: 1}
                okc = all(len(got.get(w, [])) == n for w, n in want.items()) and set(got) <= set(want)
                oki = all(common.same_value(ex_, x, res['item']) for v in got.values() for x in v)
                if not (okc and oki):
                    o.verdict = 'violated'
                    o.detail = 'delivered: %s (same item: %s), expected %s%s' % ({w: len(v) for w, v in got.items()}, oki, want, '' if oki else ' - first difference: %s' % [common.explain_diff(ex_, x, res['item']) for v in got.values() for x in v])
                    o.model = {'delivered': {w: len(v) for w, v in got.items()}, 'expected': want}
            ex.explore(run, on_end)
        if o.verdict == 'violated':
            confirm(chk, o, prop, st, meth)
        out.append(o)
    return out


def confirm(chk, o, prop, st, meth):
    """Native replay: 2 items through the real Tee / Or over two recorders; compare per-writer counts with the specification."""
    import os
    from checks import replay
    if meth != 'handle_event':
        o.verdict = 'inconclusive'
        o.detail += ' | no native replay for Arbitrary::write'
        return
    d = os.path.join(common.EVID, 'replay')
    os.makedirs(d, exist_ok=True)
    devs = False
    for wrapper, want in ((('tee', (2, 2)),) if st == 'Tee' else (('or_true', (2, 0)), ('or_false', (0, 2)))):
        path = os.path.join(d, '%s-%s-delivery-%s.script' % (prop, st.lower(), wrapper))
        lines = ['mode events', 'wrapper %s' % wrapper, 'bg 1', 'own 1', 'ev bg 0 started r=-', 'ev bg 0 skipped r=-']
        res, out = replay.run_script('\n'.join(lines) + '\n', path)
        chk.replays += 1
        chk.replay_files.append(path)
        if res is None:
            o.verdict = 'inconclusive'
            o.detail += ' | native replay failed: %s' % out[-200:]
            return
        left = [ln[5:] for ln in out.splitlines() if ln.startswith('LEFT ')]
        right = [ln[6:] for ln in out.splitlines() if ln.startswith('RIGHT ')]
        if wrapper == 'tee' and left != right:
            devs = True
            o.replay = path
            o.detail += ' | reproduced natively: the two writers of the real Tee received different events: left %s, right %s (%s)' % (left, right, path)
        elif (res.get('left_events'), res.get('right_events')) != want:
            devs = True
            o.replay = path
            o.detail += ' | reproduced natively: real %s delivered left=%s right=%s, specification %s (%s)' % (
                wrapper, res.get('left_events'), res.get('right_events'), want, path)
    if not devs:
        o.verdict = 'inconclusive'
        o.detail += ' | native replay follows the specification - encoder and real code disagree'
