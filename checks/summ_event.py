"""Summarize::handle_event (the async writer entry point) polled symbolically.

One poll of the real coroutine MIR from an arbitrary summariser state with a fully symbolic stream item;
the inner writer's handle_event / write are futures that complete after `k` polls (k = 0 quick; 0..2 thorough),
so the coroutine is re-polled until Ready.  handle_scenario is replaced by a recorder (its own behaviour is
decided separately), Styles::* / summary text are havoced (the text is outside the property).
"""
import z3

from checks import common, summ, events
from checks.common import Obligation
from mirsmt.values import Cell, Lazy, Adt, Ref, UNIT, bv
from mirsmt.interp import Inconclusive, PathEnd


def handle_event_obligations(chk, prop):
    ix = events.CukeIdx(chk.prog)
    pendings = (0, 1, 2) if chk.tier == 'thorough' else (0, 1)
    obs = {}

    def ob(name):
        if name not in obs:
            obs[name] = chk.add(Obligation('%s.handle_event.%s' % (prop, name),
                                           'every path of one handle_event call (polled to completion), arbitrary state, arbitrary stream item, inner futures pending k in %s polls' % (pendings,)))
            obs[name].verdict = 'holds'
        return obs[name]

    total_paths = [0]
    # Which summariser states occur BETWEEN two handle_event calls?  Only `InProgress` is known by name; the others are
    # found by running the code: start from InProgress, feed every item, collect the state the call ends in, repeat.
    # (A state that exists only inside one call - "finished, summary not written yet" - is not a pre-state of any call.)
    nstates = len(ix.State)
    edges = {}
    reach = None
    for k in (0,) + tuple(pendings):
        collecting = reach is None
        ex, M = chk.new_exec(loop_bound=6)
        M.opaque_bodies |= {'Styles::new', 'Styles::apply_coloring', '<impl>::summary', 'Colored::coloring'}
        M.allow_havoc_mut |= {'Styles::apply_coloring'}
        he = chk.prog.find('summarize.rs:194:1: 198:22>::handle_event') if False else None
        cands = [b for (st, meth), lst in chk.prog.by_method.items() if st == 'Summarize' and meth == 'handle_event' for tr, b in lst if tr == 'Writer']
        if len(cands) != 1:
            raise Inconclusive('Summarize::handle_event: %d candidates' % len(cands))
        entry = cands[0]
        S = summ.SymState('S')
        key_ty = summ.indicator_key_type(chk.prog, chk.prog.find('>::handle_scenario'))
        state_d = z3.BitVec('S.state', 64)
        E = events.SymCuke('E')

        def hs_recorder(ex_, info, a, dty):
            M.log(ex_, 'handle_scenario', args=a)
            return UNIT
        M.table['Summarize::handle_scenario'] = hs_recorder

        def run(ex_, k=k, S=S, E=E, M=M, entry=entry, state_d=state_d, key_ty=key_ty):
            ex_.env['inner_pending'] = k
            ex_.add(z3.And(*[z3.ULT(v, bv(1 << 62)) for v in S.vars()]))
            ex_.add(z3.And(z3.ULT(state_d, bv(len(ix.State))), E.well_formed(ix)))

            def stats(pfx):
                return Adt('writer::summarize::Stats', {(None, ix.Stats[n]): S.c['%s_%s' % (pfx, n)] for n in ix.Stats})
            sv = Adt('writer::summarize::Summarize<W>', {
                (None, ix.S['features']): S.c['features'], (None, ix.S['rules']): S.c['rules'],
                (None, ix.S['scenarios']): stats('sc'), (None, ix.S['steps']): stats('st'),
                (None, ix.S['parsing_errors']): S.c['parsing_errors'], (None, ix.S['failed_hooks']): S.c['failed_hooks'],
                (None, ix.S['state']): Adt('writer::summarize::State', {}, state_d, None),
                (None, ix.S['handled_scenarios']): M.new_symmap(ex_, 'S.map', key_ty, summ.IND_TY),
            }, None, 'S')
            cell = Cell(sv, name='self')
            evv = E.build(ix)
            cli = Ref(Cell(Lazy('Cli', 'cli'), name='cli'), ())
            co = ex_.call_body(entry, [Ref(cell, ()), evv, cli])
            cocell = Cell(co, name='coroutine')
            pin = Adt('Pin<&mut coroutine>', {(None, 0): Ref(cocell, ())})
            cx = Ref(Cell(Lazy('Context', 'cx')), ())
            polls = 0
            while True:
                polls += 1
                if polls > 2 * k + 3:
                    raise PathEnd('loopbound', 'handle_event not Ready after %d polls' % polls)
                body = ex_.prog.poll_body(co.ty, ex_.coro_origin.get(co.ty))
                r = ex_.call_body(body, [pin, cx])
                d = M.discr(ex_, r)
                if ex_.branch(d == bv(0)):
                    break
            # an arbitrary (well-formed) scenario key: what the map holds for it before and after the item
            m_pre = ex_.field_of(sv, None, ix.S['handled_scenarios'], 'HashMap')
            m_post = ex_.materialize(ex_.field_of(cell.v, None, ix.S['handled_scenarios'], 'HashMap'))
            kk = z3.Const('K2', M.key_sort(m_pre.ksh))
            M.retain_facts(ex_, kk)
            frame = {'pre': (z3.Select(m_pre.present, kk), z3.Select(m_pre.leaves[0], kk)),
                     'post': (z3.Select(m_post.present, kk), z3.Select(m_post.leaves[0], kk)) if getattr(m_post, 'kind', None) == 'symmap' else None,
                     'terms': {'K2': kk}}
            return {'self': cell.v, 'polls': polls, 'log': list(ex_.env.get('log', [])), 'input': evv, 'frame': frame}

        def on_end(ex_, rec, S=S, E=E, M=M, state_d=state_d, k=k, collecting=collecting):
            kind, res, pc, dec = rec
            if not collecting:
                total_paths[0] += 1
            elif kind != 'ok':
                return
            if kind != 'ok':
                o = ob('completes')
                if kind == 'panic' and 'overflow' in str(res):
                    o.verdict = 'violated'
                else:
                    o.verdict = 'inconclusive' if kind in ('loopbound', 'unreachable') else 'violated'
                o.detail = '%s: %s' % (kind, res)
                return
            sv, log = res['self'], res['log']

            def fld(v, i, ty='usize'):
                return ex_.materialize(ex_.field_of(v, None, i, ty), ty)
            post = {'features': fld(sv, ix.S['features']), 'rules': fld(sv, ix.S['rules']),
                    'parsing_errors': fld(sv, ix.S['parsing_errors']), 'failed_hooks': fld(sv, ix.S['failed_hooks'])}
            for pfx, f in (('sc', 'scenarios'), ('st', 'steps')):
                st = ex_.field_of(sv, None, ix.S[f], 'Stats')
                for n in ix.Stats:
                    post['%s_%s' % (pfx, n)] = fld(st, ix.Stats[n])
            st_post = M.discr(ex_, ex_.field_of(sv, None, ix.S['state'], 'writer::summarize::State'))
            if collecting:
                for v_ in range(nstates):
                    ex_.solver.push()
                    ex_.solver.add(state_d == bv(v_))
                    if ex_.check():
                        pv = ex_.solver.model().eval(st_post, model_completion=True)
                        if z3.is_bv_value(pv):
                            edges.setdefault(v_, set()).add(pv.as_long())
                    ex_.solver.pop()
                return
            # judged from the states a call can start in
            ex_.add(z3.Or(*[state_d == bv(r_) for r_ in sorted(reach)]))
            if not ex_.check():
                return
            terms = {'state': state_d, 'res': E.res, 'top': E.top, 'fe': E.fe, 're': E.re, 'sc': E.sc.sc, 'polls': bv(res['polls'])}

            def refute(o, claim):
                o.paths += 1
                o.queries += 1
                if ex_.check(z3.Not(claim)):
                    if o.verdict != 'violated':
                        o.verdict = 'violated'
                        o.model = common.model_dict(ex_.solver.model(), terms)
                        o.detail = 'counterexample (inner futures pending %d polls)' % k
            inprog = state_d == bv(ix.State['InProgress'])
            d = {n: post[n] - S.c[n] for n in summ.COUNTERS}
            one = lambda c: z3.If(c, bv(1), bv(0))  # noqa
            refute(ob('parsing_errors=parser-error-items'), d['parsing_errors'] == one(z3.And(inprog, E.is_err())))
            refute(ob('features=Feature-Started-brackets'), d['features'] == one(z3.And(inprog, E.feature_ev(ix, 'Started'))))
            refute(ob('rules=Rule-Started-brackets'), d['rules'] == one(z3.And(inprog, E.rule_ev(ix, 'Started'))))
            others = [n for n in summ.COUNTERS if n not in ('parsing_errors', 'features', 'rules')]
            refute(ob('no-other-counter-touched-outside-handle_scenario'), z3.And(*[d[n] == 0 for n in others]))
            # only handle_scenario (replaced by a recorder here) may touch the per-scenario indicators: whatever else arrives -
            # brackets, parser errors, ParsingFinished, run-Started / Finished - leaves every scenario's indicator as it was
            fr = res.get('frame')
            if fr is not None and fr['post'] is not None:
                terms.update(fr['terms'])
                refute(ob('indicators-touched-by-scenario-events-only'),
                       z3.And(fr['post'][0] == fr['pre'][0], z3.Implies(fr['pre'][0], fr['post'][1] == fr['pre'][1])))
            refute(ob('nothing-counted-after-run-Finished'), z3.Implies(z3.Not(inprog), z3.And(*[d[n] == 0 for n in summ.COUNTERS])))
            # handle_scenario called exactly for scenario events while InProgress, with the event's own ids
            hs = [e for e in log if e['kind'] == 'handle_scenario']
            want_hs = z3.And(inprog, E.is_scenario(ix))
            refute(ob('scenario-events-dispatched-iff-in-progress'), want_hs == z3.BoolVal(len(hs) == 1))
            if len(hs) > 1:
                ob('scenario-events-dispatched-iff-in-progress').verdict = 'violated'
            if len(hs) == 1:
                a = hs[0]['args']
                hs_body = chk.prog.find('>::handle_scenario')
                if len(hs_body.params) != len(a):
                    raise Inconclusive('handle_scenario: %d parameters, %d arguments' % (len(hs_body.params), len(a)))
                conds, evarg = [], None
                for (_, pty), av in list(zip(hs_body.params, a))[1:]:
                    role, refd = summ.role_of(pty)
                    if role == 'ev':
                        evarg = av
                        continue
                    if role in ('f', 'r', 's') and refd:
                        av = M.load(ex_, av)
                    if role == 'f':
                        conds.append(M.pid(ex_, av) == E.pf)
                    elif role == 's':
                        conds.append(M.pid(ex_, av) == E.ps)
                    elif role == 'r':
                        rd = M.discr(ex_, av)
                        rule_ok = z3.BoolVal(True)
                        if not z3.is_bv_value(z3.simplify(rd)) or z3.simplify(rd).as_long() == 1:
                            rule_ok = M.pid(ex_, ex_.field_of(ex_.materialize(av), 1, 0, 'event::Source<gherkin::Rule>')) == E.pr
                        conds += [rd == z3.If(E.scenario_in_rule(ix), bv(1), bv(0)), z3.Implies(E.scenario_in_rule(ix), rule_ok)]
                    elif role in ('f*', 's*') and refd:
                        # a reference into the content of the event's own Source
                        cell_, path_ = ex_.deref(av)
                        want = E.tag + ('.feat' if role == 'f*' else '.scn')
                        conds.append(z3.BoolVal(getattr(cell_, 'name', None) == want and tuple(path_) == ()))
                    else:
                        raise Inconclusive('handle_scenario parameter of type %s: not part of a scenario event' % pty)
                refute(ob('scenario-events-dispatched-with-own-feature-rule-scenario'), z3.And(*conds) if conds else z3.BoolVal(True))
                # the event reference handed over is the stream item's own RetryableScenario
                if evarg is None:
                    raise Inconclusive('handle_scenario takes no RetryableScenario')
                evr = ex_.materialize(M.load(ex_, evarg))
                same_ev = M.discr(ex_, ex_.field_of(evr, None, ix.RS['event'], 'event::Scenario<W>')) == E.sc.sc
                refute(ob('scenario-events-dispatched-with-own-feature-rule-scenario'), same_ev)
            # state machine + single summary write
            fin = E.top_is(ix, 'Finished')
            ip = bv(ix.State['InProgress'])
            # counting goes on until run-Finished and never comes back; what the finished state(s) are called is the code's business
            refute(ob('state-machine'), z3.And(z3.Implies(z3.And(inprog, z3.Not(fin)), st_post == ip),
                                               z3.Implies(z3.Or(z3.Not(inprog), fin), st_post != ip)))
            writes = [e for e in log if e['kind'] == 'inner_write_done']
            want_write = z3.And(inprog, fin)
            refute(ob('summary-written-exactly-once-right-after-run-Finished'), want_write == z3.BoolVal(len(writes) == 1))
            if len(writes) > 1:
                ob('summary-written-exactly-once-right-after-run-Finished').verdict = 'violated'
            # the inner writer gets the very same item exactly once, before any summary write
            calls = [e for e in log if e['kind'] == 'inner_handle_event_done']
            o = ob('inner-writer-gets-the-item-once-before-the-summary')
            o.paths += 1
            if len(calls) != 1 or calls[0]['event'] is not res['input']:
                o.verdict = 'violated'
                o.detail = 'inner handle_event completions: %d (same object: %s)' % (len(calls), bool(calls and calls[0]['event'] is res['input']))
            else:
                idx_call = log.index(calls[0])
                if any(log.index(w) < idx_call for w in writes):
                    o.verdict = 'violated'
                    o.detail = 'summary written before the item was forwarded'

        ex.explore(run, on_end)
        if collecting:
            reach = {ix.State['InProgress']}
            todo = [ix.State['InProgress']]
            while todo:
                for nx in edges.get(todo.pop(), ()):
                    if nx not in reach:
                        reach.add(nx)
                        todo.append(nx)
    inv_state = {v: k_ for k_, v in ix.State.items()}
    chk.assumptions.append('Summarize states a handle_event call can start in (found by running the code from InProgress): %s' % sorted(inv_state.get(r_, r_) for r_ in reach))
    for name, o in obs.items():
        if o.verdict == 'violated' and name in ('parsing_errors=parser-error-items', 'nothing-counted-after-run-Finished',
                                                'no-other-counter-touched-outside-handle_scenario', 'indicators-touched-by-scenario-events-only',
                                                'summary-written-exactly-once-right-after-run-Finished', 'state-machine',
                                                'features=Feature-Started-brackets', 'rules=Rule-Started-brackets'):
            confirm_event(chk, o, prop, ix, name)
    w = chk.add(Obligation('%s.handle_event.witness' % prop, 'exploration'))
    w.kind = 'witness'
    w.verdict = 'witness-ok' if total_paths[0] >= 8 * len(pendings) else 'witness-missing'
    w.detail = '%d paths over %d pending settings' % (total_paths[0], len(pendings))
    chk.assumptions.append('handle_event: inner writer futures (handle_event, write) complete after k polls, k in %s; Styles::new/apply_coloring/summary and Colored::coloring havoced (summary text is outside the property)' % (pendings,))
    return list(obs.values())


def confirm_event(chk, o, prop, ix, name):
    """Native replay of a one-event counterexample of Summarize::handle_event: the real Summarize is brought into the
    counterexample's state (in progress / after run-Finished) by a prefix of events, then fed the event; the observable
    counters (steps / scenarios / parsing errors / hook errors) before and after are compared with the specification."""
    import os
    from checks import replay
    m = o.model or {}

    def val(k):
        try:
            return int(str(m.get(k)), 0)
        except (TypeError, ValueError):
            return None
    if name == 'indicators-touched-by-scenario-events-only':
        return confirm_frame(chk, o, prop)
    if name in ('features=Feature-Started-brackets', 'rules=Rule-Started-brackets'):
        return confirm_brackets(chk, o, prop)
    if name in ('summary-written-exactly-once-right-after-run-Finished', 'state-machine'):
        return confirm_summary_once(chk, o, prop)
    inprog = val('state') == ix.State['InProgress']
    inv = lambda d: {v: k for k, v in d.items()}  # noqa
    if val('res') == 1:
        ev, is_err = 'ev parse_error', True
    else:
        is_err = False
        top = inv(ix.Top).get(val('top'))
        if top == 'Started':
            ev = 'ev run_started'
        elif top == 'Finished':
            ev = 'ev run_finished'
        elif top == 'ParsingFinished':
            ev = 'ev parsing_finished'
        elif top == 'Feature':
            fe = inv(ix.Fe).get(val('fe'))
            if fe == 'Started':
                ev = 'ev feature_started'
            elif fe == 'Finished':
                ev = 'ev feature_finished'
            elif fe == 'Rule' and inv(ix.Re).get(val('re')) == 'Started':
                ev = 'ev rule_started'
            else:
                ev = 'ev started r=-'
        else:
            ev = None
    if ev is None:
        o.verdict = 'inconclusive'
        o.detail += ' | counterexample event not scriptable natively'
        return
    head = ['mode summarize', 'bg 0', 'own 1', 'rule 1', 'ev run_started'] + ([] if inprog else ['ev run_finished'])
    d = os.path.join(common.EVID, 'replay')
    os.makedirs(d, exist_ok=True)
    base = os.path.join(d, '%s-handle-event-%s' % (prop, name.replace('=', '-')))
    r0, out0 = replay.run_script('\n'.join(head) + '\n', base + '.prefix.script')
    r1, out1 = replay.run_script('\n'.join(head + [ev]) + '\n', base + '.script')
    chk.replays += 2
    if r0 is None or r1 is None:
        o.verdict = 'inconclusive'
        o.detail += ' | native replay failed: %s' % (out1 if r1 is None else out0)[-200:]
        return
    keys = ['sc_passed', 'sc_skipped', 'sc_failed', 'sc_retried', 'st_passed', 'st_skipped', 'st_failed', 'st_retried', 'parsing_errors', 'failed_hooks']
    delta = {k: r1[k] - r0[k] for k in keys}
    want = {k: 0 for k in keys}
    if is_err and inprog:
        want['parsing_errors'] = 1
    bad = {k: (delta[k], want[k]) for k in keys if delta[k] != want[k]}
    if bad:
        chk.replay_files.append(base + '.script')
        o.replay = base + '.script'
        o.detail += ' | reproduced natively with the real Summarize (%s after %s): counter changes (got, specified) %s' % (ev, 'run-Started' if inprog else 'run-Finished', bad)
    else:
        o.verdict = 'inconclusive'
        o.detail += ' | not reproduced natively (%s after %s changes the observable counters as specified)' % (ev, 'run-Started' if inprog else 'run-Finished')


def confirm_brackets(chk, o, prop):
    """native: `features` / `rules` have no getter - they are read from the summary text the real Summarize writes.  Streams
    whose number of Started brackets differs from what the gherkin values contain: a rule of the feature that is never
    started (all its scenarios filtered out), a rule bracket of a rule the feature value does not list."""
    import os
    import re as _re
    from checks import replay
    d = os.path.join(common.EVID, 'replay')
    os.makedirs(d, exist_ok=True)
    att = ['ev started r=-', 'ev step 0 started r=-', 'ev step 0 passed r=-', 'ev finished r=-']
    cases = {
        'rule-started': (1, ['ev run_started', 'ev feature_started', 'ev rule_started'] + att + ['ev rule_finished', 'ev feature_finished', 'ev run_finished']),
        'rule-of-the-feature-never-started': (1, ['ev run_started', 'ev feature_started', 'ev feature_finished', 'ev run_finished']),
        'two-rule-brackets': (1, ['ev run_started', 'ev feature_started', 'ev rule_started'] + att + ['ev rule_finished', 'ev other_rule_started', 'ev other_rule_finished',
                                  'ev feature_finished', 'ev run_finished']),
        'no-feature-started': (0, ['ev run_started', 'ev run_finished']),
    }
    devs = []
    for tag, (in_rule, evs) in cases.items():
        lines = ['mode summarize', 'bg 0', 'own 1', 'rule %d' % in_rule] + evs
        path = os.path.join(d, '%s-brackets-%s.script' % (prop, tag))
        r, out = replay.run_script('\n'.join(lines) + '\n', path)
        chk.replays += 1
        mm = _re.search(r'SUMMARY features=(-?\d+) rules=(-?\d+)', out)
        if r is None or not mm:
            continue
        got = (max(int(mm.group(1)), 0), max(int(mm.group(2)), 0))          # a line that is left out stands for 0
        want = (sum(1 for e in evs if e == 'ev feature_started'), sum(1 for e in evs if e in ('ev rule_started', 'ev other_rule_started')))
        if got != want:
            devs.append((path, '%s: the stream has %d Feature-Started and %d Rule-Started brackets, the summary says %d features, %d rules' % ((tag,) + want + got)))
    if devs:
        chk.replay_files.append(devs[0][0])
        o.replay = devs[0][0]
        o.detail += ' | reproduced natively with the real Summarize (summary text): %s' % devs[0][1]
    else:
        o.verdict = 'inconclusive'
        o.detail += ' | not reproduced natively (the summary text counts the Started brackets of the stream)'


def confirm_frame(chk, o, prop):
    """native: a scenario that is retried twice, with events that are NOT its own (brackets of another rule, a parser error,
    ParsingFinished) between its attempts: it is still one retried, one passed scenario"""
    import os
    from checks import replay
    d = os.path.join(common.EVID, 'replay')
    os.makedirs(d, exist_ok=True)

    def attempt(cur, left, how):
        r = 'r=%d/%d' % (cur, left)
        return ['ev started ' + r, 'ev step 0 started ' + r, 'ev step 0 %s %s' % (how, r), 'ev finished ' + r]
    between = [['ev other_rule_started', 'ev other_rule_finished'], ['ev parsing_finished'], ['ev other_rule_started'], ['ev other_rule_finished']]
    devs = []
    for in_rule in (0, 1):
        for k, mid in enumerate(between):
            lines = ['mode summarize', 'bg 0', 'own 1', 'rule %d' % in_rule, 'ev run_started', 'ev feature_started'] + (['ev rule_started'] if in_rule else [])
            lines += attempt(0, 2, 'failed panic') + mid + attempt(1, 1, 'failed panic') + mid + attempt(2, 0, 'passed')
            path = os.path.join(d, '%s-indicators-frame-%d-%d.script' % (prop, in_rule, k))
            r, out = replay.run_script('\n'.join(lines) + '\n', path)
            chk.replays += 1
            if r is None:
                continue
            got = {x: r.get(x) for x in ('sc_passed', 'sc_skipped', 'sc_failed', 'sc_retried')}
            if got != {'sc_passed': 1, 'sc_skipped': 0, 'sc_failed': 0, 'sc_retried': 1}:
                devs.append((path, 'scenario %s retried twice then passed, with [%s] between its attempts: counted %s (one passed, one retried scenario expected)'
                             % ('in a rule' if in_rule else 'at top level', ', '.join(x[3:] for x in mid), got)))
    if devs:
        chk.replay_files.append(devs[0][0])
        o.replay = devs[0][0]
        o.detail += ' | reproduced natively with the real Summarize: %s' % devs[0][1]
    else:
        o.verdict = 'inconclusive'
        o.detail += ' | not reproduced natively (events of other brackets between the attempts of a retried scenario do not change how it is counted)'


def confirm_summary_once(chk, o, prop):
    """native: whatever is replayed after run-Finished (events, a second run-Finished - a Repeat wrapper whose filter selects
    it does exactly that) the summary is written once, right after the first run-Finished, and nothing more is counted"""
    import os
    from checks import replay
    d = os.path.join(common.EVID, 'replay')
    os.makedirs(d, exist_ok=True)
    one = ['ev started r=-', 'ev step 0 started r=-', 'ev step 0 passed r=-', 'ev finished r=-']
    cases = [('finished-twice', ['ev run_started', 'ev feature_started'] + one + ['ev run_finished', 'ev run_finished']),
             ('replay-after-finished', ['ev run_started', 'ev feature_started'] + one + ['ev run_finished'] + one + ['ev run_finished']),
             ('no-finished', ['ev run_started', 'ev feature_started'] + one)]
    devs = []
    for label, evs in cases:
        path = os.path.join(d, '%s-summary-once-%s.script' % (prop, label))
        r, out = replay.run_script('\n'.join(['mode summarize', 'bg 0', 'own 1', 'rule 0'] + evs) + '\n', path)
        chk.replays += 1
        if r is None:
            continue
        want_w = 0 if label == 'no-finished' else 1
        if r.get('summary_writes') != want_w or r.get('sc_passed') != 1 or r.get('st_passed') != 1:
            devs.append((path, '%s: summary written %s time(s) (expected %d), scenarios passed %s, steps passed %s (expected 1, 1)' % (label, r.get('summary_writes'), want_w, r.get('sc_passed'), r.get('st_passed'))))
    if devs:
        chk.replay_files.append(devs[0][0])
        o.replay = devs[0][0]
        o.detail += ' | reproduced natively with the real Summarize: %s' % devs[0][1]
    else:
        o.verdict = 'inconclusive'
        o.detail += ' | not reproduced natively (one summary, written after the first run-Finished; replayed items count nothing)'
