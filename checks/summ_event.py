"""Summarize::handle_event (async) obligations - filled in below."""


def handle_event_obligations(chk, prop):
    return []
