"""C19 - step attributes register and dispatch functions as written (decided for a PROBE crate, see below).

The property quantifies over programs; what is decided here is bounded by a probe crate (/verif/macroprobe: twelve step
functions covering `#[given]` / `#[when]` / `#[then]`, literal and `regex =` attributes, typed captures, a `#[step]`
argument, sync and async functions, `()` and several spellings of `Result`):
  A  `World::collection()` (library MIR): every inventory entry of kind K is registered under keyword K with its location,
     the regex its constructor returns and its function - for symbolic inventories of 0..2 entries per kind;
  B  the MIR of what the REAL macro generates for each probe function: exactly one inventory entry, of the inventory type
     of the attribute's keyword, whose location is the attribute's line, whose function is the wrapper of that very
     function and whose regex is `^escaped literal$` / the regex as written;
  C  the wrapper hands the captures, parsed with FromStr, over in declaration order (then the step for `#[step]`), panics
     on a capture that does not parse and on a returned Err (so the runner reports the step Failed).
Outside: `expr =` (cucumber-expressions), slice arguments, named multi-group parameters, compile-time diagnostics, link-time
collection by the `inventory` crate, and every program that is not the probe.
"""
import os
import re

import z3

from checks import common, macro_probe
from checks.common import Obligation
from mirsmt import interp, models
from mirsmt.values import Cell, Lazy, Adt, Ref, Obj, UNIT, bv
from mirsmt.interp import Inconclusive

KINDS = ('Given', 'When', 'Then')


@common.part
def collection_wiring(chk):
    prog = chk.prog
    body = prog.bodies.get('World::collection')
    if body is None:
        raise Inconclusive('World::collection not found in the MIR dump')
    CF = prog.tables.struct_fields('step::Collection<W>')
    o = chk.add(Obligation('C19.World::collection.every-inventory-entry-registered-under-its-own-keyword',
                           'every path of World::collection(); inventories of 0..2 entries per keyword (27 shapes); entries opaque (location, regex constructor, function)'))
    o.verdict = 'holds'
    import itertools
    for shape in itertools.product((0, 1, 2), repeat=3):
        ex, M = chk.new_exec(loop_bound=8)
        entries = {k: ['%s%d' % (k.lower(), i) for i in range(n)] for k, n in zip(KINDS, shape)}

        def into_iter(ex_, info, a, dty, entries=entries, M=M, prev=M.table.get('IntoIterator::into_iter')):
            t = info.get('text', '')
            mm = re.search(r'inventory::(?:private::)?iter<.*?::(Given|When|Then)>', t)
            if mm:
                return Obj('iter', items=tuple(Ref(Cell(Obj('inv_entry', d=n), name=n), ()) for n in entries[mm.group(1)]), ty=dty)
            if prev is not None:
                return prev(ex_, info, a, dty)
            raise Inconclusive('into_iter: %s' % t[:80])
        M.table['IntoIterator::into_iter'] = into_iter

        def inner(ex_, info, a, dty):
            e = ex_.materialize(a[0])
            e = ex_.read_path(e.cell, e.path) if isinstance(e, Ref) else e
            n = e.d['d']
            return Adt(dty or '(Location, fn() -> Regex, Step<W>)', {(None, 0): Obj('loc', d=n), (None, 1): Obj('regex_ctor', d=n), (None, 2): Obj('stepfn', d=n)})
        M.table['StepConstructor::inner'] = inner

        def fnvalue(ex_, f, args, dty, info):
            f = ex_.materialize(f)
            if isinstance(f, Obj) and f.kind == 'regex_ctor':
                return Obj('regex', d=f.d['d'])
            raise Inconclusive('call of %r' % (f,))
        M.opaque_fn_hook = fnvalue
        M.obj_eq = lambda ex_, a, b: z3.BoolVal(a.kind == b.kind and a.d.get('d') == b.d.get('d'))

        def run(ex_):
            return ex_.materialize(ex_.call_body(body, []))

        def on_end(ex_, rec, entries=entries, M=M, shape=shape):
            kind, res, pc, dec = rec
            o.paths += 1
            if kind != 'ok':
                if o.verdict != 'violated':
                    o.verdict = 'inconclusive' if kind in ('loopbound', 'unreachable') else 'violated'
                    o.detail = '%s: %s (inventory sizes %s)' % (kind, res, shape)
                return
            got = {}
            for k in KINDS:
                m = ex_.materialize(ex_.field_of(res, None, CF.index(k.lower()), 'HashMap'))
                ents = []
                for key, val in (m.entries if isinstance(m, Obj) and m.kind == 'assoc' else [(None, v) for v in M.seq_of(ex_, m)]):
                    if key is None:
                        tup = ex_.materialize(val)
                        key, val = ex_.field_of(tup, None, 0, '?'), ex_.field_of(tup, None, 1, '?')
                    key = ex_.materialize(key)
                    rx = ex_.materialize(ex_.field_of(key, None, 0, 'HashableRegex'))
                    while isinstance(rx, Adt) and (None, 0) in rx.fields:
                        rx = ex_.materialize(rx.fields[(None, 0)])
                    lo = ex_.materialize(ex_.field_of(key, None, 1, 'Option<Location>'))
                    ld = z3.simplify(M.discr(ex_, lo)).as_long()
                    lv = ex_.materialize(ex_.field_of(lo, 1, 0, 'Location')) if ld == 1 else None
                    fv = ex_.materialize(val)
                    fv = ex_.read_path(fv.cell, fv.path) if isinstance(fv, Ref) else fv
                    ents.append((getattr(rx, 'd', {}).get('d'), getattr(lv, 'd', {}).get('d') if lv is not None else None, getattr(fv, 'd', {}).get('d')))
                got[k] = sorted(ents, key=repr)
            want = {k: sorted([(n, n, n) for n in entries[k]], key=repr) for k in KINDS}
            o.queries += 1
            if got != want and o.verdict != 'violated':
                o.verdict = 'violated'
                o.detail = 'inventory %s gives the collection %s (regex, location, function per keyword), expected %s' % (entries, got, want)
                o.model = {'inventory_sizes': list(shape)}
        ex.explore(run, on_end)
    if o.verdict == 'violated':
        confirm_registration(chk, o)
    return o


def probe_attributes():
    """(fn name, keyword, kind of argument, argument text, line of the attribute) from the probe source"""
    src = open(os.path.join(macro_probe.PROBE, 'src', 'lib.rs')).read().split('\n')
    out = []
    for i, ln in enumerate(src):
        m = re.match(r'#\[(given|when|then)\((.*)\)\]\s*$', ln.strip())
        if not m:
            continue
        fn = next(re.search(r'fn (\w+)', src[j]) for j in range(i + 1, min(i + 6, len(src))) if re.search(r'fn (\w+)', src[j]))
        arg = m.group(2).strip()
        if arg.startswith('regex'):
            lit = re.search(r'r?"(.*)"', arg).group(1)
            out.append((fn.group(1), m.group(1), 'regex', lit, i + 1))
        elif arg.startswith('expr'):
            out.append((fn.group(1), m.group(1), 'expr', re.search(r'"(.*)"', arg).group(1), i + 1))
        else:
            out.append((fn.group(1), m.group(1), 'literal', re.search(r'"(.*)"', arg).group(1), i + 1))
    return out


def rust_regex_escape(s):
    return ''.join('\\' + c if c in '\\.+*?()|[]{}^$#&-~' else c for c in s)


@common.part
def registration(chk):
    prog2, meta, text = macro_probe.load_probe(chk)
    attrs = probe_attributes()
    ws = macro_probe.wrappers(prog2)
    o = chk.add(Obligation('C19.attribute.one-inventory-entry-of-the-attributes-keyword-with-its-location-regex-and-wrapper',
                           'the MIR of what the real attributes generate for the %d probe functions (%s)' % (len(attrs), ', '.join(a[0] for a in attrs))))
    o.verdict = 'holds'
    bad = []
    for fname, kw, akind, atext, line in attrs:
        # the inventory statics generated at this attribute (identified by the macro call's span)
        nodes = [(n, b) for n, b in prog2.bodies.items() if re.search(r'(^|\|)_::__INVENTORY::promoted\[0\](#\d+)?$', n) and 'line: const %d_u32' % line in '\n'.join(b.text)]
        o.paths += 1
        if len(nodes) != 1:
            bad.append((fname, '%d inventory entries are generated for the attribute at line %d' % (len(nodes), line)))
            continue
        nb = nodes[0][1]
        M = models.Models(prog2)
        ex = interp.Exec(prog2, M, loop_bound=6)
        chk.execs.append(ex)
        res = {}

        def expand_model(ex_, info, a, dty, M=M):
            # cucumber-expressions (another crate) turns the expression into a regex; what it is given is what matters here
            s_ = M.str_of(ex_, a[0])
            txt = s_.text if isinstance(s_, Obj) and s_.kind == 'str' else None
            if txt and txt.startswith('"') and txt.endswith('"'):
                txt = txt[1:-1].replace('\\\\', '\\')
            return Adt(dty or 'Result<Regex, E>', {(0, 0): Obj('regex', pattern=None, expr=txt)}, 0)
        M.table['<impl>::regex_with_parameters'] = expand_model
        M.table['Expression::regex_with_parameters'] = expand_model

        line_of = [line]

        def run(ex_, nb=nb, M=M, line_of=line_of):
            v = ex_.materialize(ex_.call_body(nb, []))
            if isinstance(v, Ref):
                v = ex_.materialize(ex_.read_path(v.cell, v.path))
            # regex constructor: call it (LazyLock, Regex::new are models; the pattern is the literal the macro wrote)
            # (the constructor clones a `static LAZY: LazyLock<Regex>`; its initialiser - the closure of that static - is
            #  what builds the regex: `Regex::new(<literal the macro wrote>).unwrap()`)
            rc = None
            span = re.search(r'(src/lib\.rs:%d:\d+: \d+:\d+)' % line_of[0], '\n'.join(nb.text))
            inits = [b_ for n_, b_ in ex_.prog.bodies.items() if n_.endswith('_::__INVENTORY::{closure#0}::LAZY::{closure#0}') and span and n_.startswith(span.group(1))]
            if len(inits) == 1:
                clo = Ref(Cell(Adt(inits[0].params[0][1].strip().lstrip('&'), {}, None, None)), ())
                r_ = ex_.materialize(ex_.call_body(inits[0], [clo]))
                for _ in range(4):
                    if isinstance(r_, Ref):
                        r_ = ex_.materialize(ex_.read_path(r_.cell, r_.path))
                rc = r_
            return {'entry': v, 'regex': rc}

        def on_end(ex_, rec, res=res):
            res['rec'] = rec
        ex.explore(run, on_end)
        kind, val, pc, dec = res.get('rec', ('none', None, None, None))
        if kind != 'ok':
            if o.verdict == 'holds':
                o.verdict = 'inconclusive'
                o.detail = '%s: %s: %s' % (fname, kind, val)
            continue
        entry = val['entry']
        if not entry.ty.endswith('Cucumber%sW' % kw.capitalize()):
            bad.append((fname, '#[%s] submits an entry of type %s' % (kw, entry.ty)))
        # location
        locs = [ex.materialize(v_) for k_, v_ in entry.fields.items() if isinstance(ex.materialize(v_), Adt) and 'Location' in ex.materialize(v_).ty]
        # the wrapper: one of the entry's closures is the parent of the async block that calls this function
        clos = [ex.materialize(v_) for v_ in entry.fields.values() if isinstance(ex.materialize(v_), Adt) and ex.materialize(v_).ty.startswith('{closure@')]
        # (a function with several attributes has one wrapper per attribute: the one generated at THIS attribute)
        parents = [t_[1] for t_ in macro_probe.wrappers_all(prog2).get(fname, []) if re.search(r'src/lib\.rs:%d:' % line, t_[1].name)]
        if len(parents) != 1 or not any(ex.prog.closure_body(c_.ty) is parents[0] for c_ in clos):
            bad.append((fname, 'the entry\'s function is not the wrapper of %s generated at this attribute' % fname))
        rx = val['regex']
        pat = getattr(rx, 'pattern', None) if isinstance(rx, Obj) else None
        want = '^%s$' % rust_regex_escape(atext) if akind == 'literal' else atext
        if akind == 'expr':
            got_expr = getattr(rx, 'expr', None) if isinstance(rx, Obj) else None
            if got_expr != atext:
                bad.append((fname, 'the expression expanded is %r, the attribute says %r' % (got_expr, atext)))
        elif pat != want:
            bad.append((fname, 'the regex is %r, the attribute says %r' % (pat, want)))
    if bad and o.verdict != 'inconclusive':
        o.verdict = 'violated'
        o.detail = '; '.join('%s: %s' % b_ for b_ in bad[:3])
        o.model = {'functions': sorted(set(b_[0] for b_ in bad))}
        confirm_registration(chk, o)
    return o


def confirm_registration(chk, o):
    """native: the same functions registered through the real attributes: `World::collection()` finds each step text under
    its own keyword only, literal attributes match only the identical text"""
    from checks import replay
    d = os.path.join(common.EVID, 'replay')
    os.makedirs(d, exist_ok=True)
    path = os.path.join(d, 'C19-registration.script')
    r, out = replay.run_script('mode macros\n', path, timeout=120)
    chk.replays += 1
    got = dict(re.findall(r'FIND (\S+) (.*)', out))
    if not got:
        o.verdict = 'inconclusive'
        o.detail += ' | native replay failed: %s' % out[-300:]
        return
    dev = {k: v for k, v in got.items() if v != 'ok'}
    if dev:
        chk.replay_files.append(path)
        o.replay = path
        o.detail += ' | reproduced natively (World::collection() of the driver\'s attribute-registered steps): %s' % dict(list(dev.items())[:4])
    else:
        o.verdict = 'inconclusive'
        o.detail += ' | not reproduced natively (every step text is found under its own keyword only, exactly once, at its own location)'


def body(chk):
    collection_wiring(chk)
    registration(chk)
    macro_probe.dispatch_obligations(chk, 'C19')
    # what the wrapper is handed - the whole match and every capture group, named, in order - is made by Collection::find
    from checks import c17
    c17.obligations(chk, 'C19')
    macro_probe.obligations(chk, 'C19')


if __name__ == '__main__':
    common.main('C19', body)
