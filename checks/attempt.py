"""One scenario attempt on the real Executor::run_scenario coroutine (+ run_before_hook, run_step, run_after_hook,
emit_failed_events, emit_after_hook_events, ExecutionFailure::*, send_event*), polled to completion  (C02, C09, C10).

User code (World::new, before hook, step functions, after hook) is modelled as futures that complete after 0..1
polls and pass, return Err (World::new only), panic while being polled, or panic *eagerly* when the function is
called (before it returns its future).  step::Collection::find is an oracle per step: no match / ambiguous / one
definition (its own correctness: C17).  A panic is the Python exception UserPanic; only CatchUnwind::poll catches it.
"""
import itertools

import z3

from checks import common, events, sched
from checks.common import Obligation
from mirsmt.values import Cell, Lazy, Adt, Ref, Obj, UNIT, bv, conc
from mirsmt.interp import Inconclusive, PathEnd
from mirsmt.models_user import UserPanic

KINDS = ('pass', 'panic', 'eager_panic')


class Shape:
    def __init__(self, fbg=1, rbg=0, steps=2, before=True, after=True, rule=False, retries=None, delay=False, ty='Concurrent'):
        self.fbg, self.rbg, self.steps, self.before, self.after, self.rule, self.retries = fbg, rbg, steps, before, after, rule or rbg > 0, retries
        self.delay = delay          # the retry options carry a delay (`after`)
        self.ty = ty                # the type the attempt was dispatched as (Serial / Concurrent)

    def step_names(self):
        return ['fb%d' % i for i in range(self.fbg)] + ['rb%d' % i for i in range(self.rbg)] + ['s%d' % i for i in range(self.steps)]

    def __repr__(self):
        return 'fbg=%d rbg=%d steps=%d before=%s after=%s retries=%s%s%s' % (self.fbg, self.rbg, self.steps, self.before, self.after, self.retries,
                                                                         ' delay' if self.delay else '', ' serial' if self.ty == 'Serial' else '')


def simulate(chk, shape, pend=0, max_polls=60, pair=False):
    prog = chk.prog
    t = prog.tables
    ix = events.CukeIdx(prog)
    six = sched.SIdx(prog)
    ex, M = chk.new_exec(loop_bound=24, max_paths=6000)
    M.opaque_bodies |= {'ScenarioId::new', 'Metadata::new'}
    run_sc = [b for (st, m), lst in prog.by_method.items() if st == 'Executor' and m == 'run_scenario' for tr, b in lst][0]
    rp = {n: int(p[1:]) - 1 for n, p in run_sc.debug.items() if p.startswith('_') and p[1:].isdigit() and int(p[1:]) <= len(run_sc.params)}
    EX = t.struct_fields('runner::basic::Executor<W>')
    F, R, S, B, ST = (t.struct_fields('gherkin::' + n) for n in ('Feature', 'Rule', 'Scenario', 'Background', 'Step'))
    find_body = [b for (st, m), lst in prog.by_method.items() if st == 'Collection' and m == 'find' for tr, b in lst][0]
    names = shape.step_names()
    if pair:
        # the second scenario's own steps: other step VALUES of the gherkin type (their keyword type may differ) with the same
        # TEXT as the first scenario's - resolved on their own
        names = names + ['t%d' % i for i in range(shape.steps)]
    # symbolic choices (decided by branching)
    findv = {n: z3.BitVec('find(%s)' % n, 64) for n in names}                    # 0 none, 1 ambiguous, 2 one
    kindv = {n: z3.BitVec('outcome(%s)' % n, 64) for n in names + ['before', 'after']}   # index into KINDS
    worldv = z3.BitVec('outcome(World::new)', 64)                                # 0 ok, 1 Err, 2 panic, 3 eager panic

    def pick(ex_, var, n):
        for k in range(n - 1):
            if ex_.branch(var == bv(k)):
                return k
        ex_.add(var == bv(n - 1))
        return n - 1

    def step_obj(n):
        return Adt('gherkin::Step', {}, None, n)

    def find_hook(ex_, body, args):
        st = ex_.materialize(args[1])
        tgt = ex_.read_path(st.cell, st.path)
        n = tgt.name
        k = pick(ex_, findv[n], 3)
        M.log(ex_, 'find', step=n, result=('none', 'ambiguous', 'one')[k])
        if k == 0:
            return Adt('Result<Option<..>, AmbiguousMatchError>', {(0, 0): Adt('Option<..>', {}, 0)}, 0)
        if k == 1:
            return Adt('Result<Option<..>, AmbiguousMatchError>', {(1, 0): Adt('step::AmbiguousMatchError', {(None, 0): Obj('vec', items=(), ty='Vec<..>')}, None, 'ambiguous.' + n)}, 1)
        tup = Adt('(&Step<W>, CaptureLocations, Option<Location>, Context)', {
            (None, 0): Ref(Cell(Obj('stepfn', step=n)), ()), (None, 1): Obj('caps', step=n),
            (None, 2): Adt('Option<step::Location>', {(1, 0): Obj('loc', step=n)}, 1),
            (None, 3): Adt('step::Context', {(None, 0): tgt, (None, 1): Obj('vec', items=(), ty='Vec<(CaptureName, String)>')})})
        return Adt('Result<Option<..>, AmbiguousMatchError>', {(0, 0): Adt('Option<..>', {(1, 0): tup}, 1)}, 0)
    M.body_hooks[find_body.name] = find_hook

    def world_of(ex_, v):
        v = ex_.materialize(v)
        for _ in range(6):
            if isinstance(v, Ref):
                cell, path = v.cell, v.path
                tgt = ex_.read_path(cell, path)
                if isinstance(tgt, Obj) and tgt.kind == 'world':
                    return cell, path, tgt
                v = ex_.materialize(tgt)
            elif isinstance(v, Adt) and v.discr is not None:
                d_ = z3.simplify(M.discr(ex_, v))
                if (not z3.is_bv_value(d_) and not ex_.branch(d_ == bv(1))) or (z3.is_bv_value(d_) and d_.as_long() != 1):
                    return None, None, None
                v = ex_.materialize(ex_.field_of(v, 1, 0, '&mut W'))
            else:
                break
        if isinstance(v, Obj) and v.kind == 'world':
            return None, None, v
        return None, None, None

    def callback(ex_, what, wref, extra=None, scn=None):
        cell, path, w = world_of(ex_, wref) if wref is not None else (None, None, None)
        k = pick(ex_, kindv[what], 3)
        M.log(ex_, 'called', what=what, world=(w.id if w is not None else None), counter=(w.counter if w is not None else None), extra=extra, how=KINDS[k], scn=scn)
        if KINDS[k] == 'eager_panic':
            raise UserPanic(what, 'call')

        def done(ex2):
            if cell is not None:
                cur = ex2.read_path(cell, path)
                ex2.write_path(cell, path, cur.set(counter=cur.counter + 1))
            if what == 'after':
                ex2.env['after_hook_done_clock'] = M.tick(ex2)      # user code takes time: the model clock moves on
        if what == 'after' and KINDS[k] != 'pass':
            ex_.env['after_hook_done_clock'] = M.tick(ex_)
        return M.user_future(what, pend, KINDS[k], on_done=done)

    def scn_name(ex_, v):
        v = ex_.materialize(v)
        for _ in range(4):
            if isinstance(v, Ref):
                v = ex_.materialize(ex_.read_path(v.cell, v.path))
        return getattr(v, 'name', None)

    def opaque(ex_, f, args, dty, info):
        tgt = f
        if isinstance(tgt, Obj) and tgt.kind == 'stepfn':
            return callback(ex_, tgt.step, args[0])
        nm = tgt.name if isinstance(tgt, (Lazy, Adt)) else None
        if nm and nm.endswith('before_fn'):
            return callback(ex_, 'before', args[3], scn=scn_name(ex_, args[2]))
        if nm and nm.endswith('after_fn'):
            fin = ex_.materialize(ex_.materialize(args[3]))
            if isinstance(fin, Ref):
                fin = ex_.materialize(ex_.read_path(fin.cell, fin.path))
            reason = z3.simplify(M.discr(ex_, fin)).as_long()
            return callback(ex_, 'after', args[4], extra=reason, scn=scn_name(ex_, args[2]))
        raise Inconclusive('opaque call of %r' % (tgt,))
    M.opaque_fn_hook = opaque

    def world_new(ex_, info, a, dty):
        k = pick(ex_, worldv, 4)
        n = ex_.env.get('worlds', 0)
        M.log(ex_, 'world_new_called', how=('ok', 'err', 'panic', 'eager_panic')[k])
        if k == 3:
            raise UserPanic('World::new', 'call')
        if k == 2:
            return M.user_future('World::new', pend, 'panic')

        def val(ex2):
            if k == 1:
                return Adt('Result<W, E>', {(1, 0): Obj('world_err')}, 1)
            ex2.env['worlds'] = ex2.env.get('worlds', 0) + 1
            M.log(ex2, 'world_created', id=ex2.env['worlds'])
            return Adt('Result<W, E>', {(0, 0): Obj('world', id=ex2.env['worlds'], counter=0)}, 0)
        return M.user_future('World::new', pend, 'ok', value=val)
    M.table['World::new'] = world_new
    M.table['fmt::format'] = lambda ex_, info, a, dty: Obj('symstr', name='formatted')

    def run(ex_):
        for v in findv.values():
            ex_.add(z3.ULT(v, bv(3)))
        for v in kindv.values():
            ex_.add(z3.ULT(v, bv(3)))
        ex_.add(z3.ULT(worldv, bv(4)))
        ex_.env['map_order'] = 'insertion'

        def bg(prefix, n):
            if n == 0:
                return Adt('Option<gherkin::Background>', {}, 0)
            return Adt('Option<gherkin::Background>', {(1, 0): Adt('gherkin::Background', {(None, B.index('steps')): Obj('vec', items=tuple(step_obj('%s%d' % (prefix, i)) for i in range(n)), ty='Vec<Step>')}, None, prefix + 'bg')}, 1)
        feat = Adt('gherkin::Feature', {(None, F.index('background')): bg('fb', shape.fbg)}, None, 'feat')
        rule = Adt('gherkin::Rule', {(None, R.index('background')): bg('rb', shape.rbg)}, None, 'rule')
        def own_step(i):
            if not pair:
                return step_obj('s%d' % i)
            return Adt('gherkin::Step', {(None, ST.index('value')): Obj('symstr', name='text%d' % i)}, None, 's%d' % i)
        scen = Adt('gherkin::Scenario', {(None, S.index('steps')): Obj('vec', items=tuple(own_step(i) for i in range(shape.steps)), ty='Vec<Step>')}, None, 'scn')
        fsrc = Adt('event::Source<gherkin::Feature>', {(None, 0): Ref(Cell(feat, name='feat'), (), pid=bv(0x101))})
        rsrc = Adt('event::Source<gherkin::Rule>', {(None, 0): Ref(Cell(rule, name='rule'), (), pid=bv(0x201))})
        ssrc = Adt('event::Source<gherkin::Scenario>', {(None, 0): Ref(Cell(scen, name='scn'), (), pid=bv(0x301))})
        m = M.new_assoc('runner::basic::ScenarioType', 'Vec<entry>', [])
        fv = Adt('runner::basic::Features', {(None, six.F['scenarios']): Ref(Cell(Adt('Mutex<Scenarios>', {(None, 0): m}), name='storage'), (), pid=bv(0x51)),
                                             (None, six.F['finished']): Ref(Cell(Adt('AtomicBool', {(None, 0): z3.BoolVal(True)})), (), pid=bv(0x52))})
        exv = Adt('runner::basic::Executor<W, B, A>', {
            (None, EX.index('collection')): Lazy('step::Collection<W>', 'collection'),
            (None, EX.index('before_hook')): Adt('Option<Before>', {(1, 0): Lazy('Before', 'before_fn')}, 1 if shape.before else 0),
            (None, EX.index('after_hook')): Adt('Option<After>', {(1, 0): Lazy('After', 'after_fn')}, 1 if shape.after else 0),
            (None, EX.index('event_sender')): Lazy('UnboundedSender', 'event_sender'),
            (None, EX.index('storage')): fv})
        if 'finished_sender' in EX:
            exv = exv.with_field((None, EX.index('finished_sender')), Lazy('UnboundedSender', 'finished_sender'))
        # fields a change adds to Executor: what its constructor would put there (known containers), else unconstrained
        from mirsmt import tables as _T
        eft = _T.field_types(prog.tables, 'Executor', 'runner/basic.rs') or {}
        for i_, n_ in enumerate(EX):
            if (None, i_) not in exv.fields:
                dv_ = common.default_by_type(M, eft.get(n_, ''), 'executor.' + n_)
                if dv_ is not None:
                    exv = exv.with_field((None, i_), dv_)
        excell = Cell(exv, name='executor')
        if shape.retries is None:
            ret = Adt('Option<RetryOptions>', {}, 0)
        else:
            ret = Adt('Option<RetryOptions>', {(1, 0): Adt('runner::basic::RetryOptions', {
                (None, six.RO['retries']): Adt('event::Retries', {(None, six.R['current']): bv(shape.retries[0]), (None, six.R['left']): bv(shape.retries[1])}),
                (None, six.RO['after']): Adt('Option<std::time::Duration>', {(1, 0): z3.BitVec('retry.delay', 64)}, 1 if getattr(shape, 'delay', False) else 0)})}, 1)
        args = [None] * len(run_sc.params)
        args[rp['self']] = Ref(excell, ())
        args[rp['id']] = Lazy('ScenarioId', 'sid')
        args[rp['feature']] = fsrc
        args[rp['rule']] = Adt('Option<event::Source<gherkin::Rule>>', {(1, 0): rsrc}, 1 if shape.rule else 0)
        args[rp['scenario']] = ssrc
        if 'scenario_ty' in rp:
            args[rp['scenario_ty']] = Adt('runner::basic::ScenarioType', {}, six.Ty[shape.ty])
        args[rp['retries']] = ret
        co = ex_.call_body(run_sc, args)
        cocell = Cell(co, name='run_scenario')
        pin = Adt('Pin<&mut coroutine>', {(None, 0): Ref(cocell, ())})
        cx = Ref(Cell(Lazy('Context', 'cx')), ())
        body = ex_.prog.poll_body(co.ty, ex_.coro_origin.get(co.ty))
        pins = [pin]
        if pair:
            # a second attempt (another scenario of the same feature, same steps) polled in turns with the first one, the
            # way execute() drives the members of its FuturesUnordered on one thread
            ex_.env['panic_hook'] = 'outer'
            args2 = list(args)

            def twin(i):
                # same text as s<i> (the very same string value), everything else its own
                own = ex_.materialize(ex_.field_of(scen.fields[(None, S.index('steps'))].items[i], None, ST.index('value'), 'String'))
                return Adt('gherkin::Step', {(None, ST.index('value')): own}, None, 't%d' % i)
            scen2 = Adt('gherkin::Scenario', {(None, S.index('steps')): Obj('vec', items=tuple(twin(i) for i in range(shape.steps)), ty='Vec<Step>')}, None, 'scn2')
            args2[rp['scenario']] = Adt('event::Source<gherkin::Scenario>', {(None, 0): Ref(Cell(scen2, name='scn2'), (), pid=bv(0x302))})
            args2[rp['id']] = Lazy('ScenarioId', 'sid2')
            co2 = ex_.call_body(run_sc, args2)
            pins.append(Adt('Pin<&mut coroutine>', {(None, 0): Ref(Cell(co2, name='run_scenario2'), ())}))
        polls, escaped = 0, None
        try:
            live = list(pins)
            while polls < max_polls and live:
                polls += 1
                for pn in list(live):
                    r = ex_.call_body(body, [pn, cx])
                    if ex_.branch(M.discr(ex_, r) == bv(0)):
                        live.remove(pn)
                        # an attempt may report how it ended as the value of its future instead of sending a notification
                        rv_ = ex_.materialize(ex_.field_of(ex_.materialize(r), 0, 0, '?'))
                        if isinstance(rv_, Adt) and rv_.discr is None and (None, 4) in rv_.fields:
                            M.log(ex_, 'returned_outcome', value=rv_)
            if live:
                raise PathEnd('loopbound', 'run_scenario not Ready after %d polls' % polls)
        except UserPanic as p:
            escaped = (p.payload, p.where)
        # a delayed retry: from which instant is the delay counted?  (the entry re-inserted into the storage carries it)
        deadline_err = None
        if getattr(shape, 'delay', False) and escaped is None and 'after_hook_done_clock' in ex_.env:
            try:
                mval = ex_.materialize(ex_.read_path(fv.fields[(None, six.F['scenarios'])].cell, ())).fields[(None, 0)]
                for _, vec in mval.entries:
                    for ent in M.seq_of(ex_, vec):
                        ro = ex_.materialize(ex_.field_of(ex_.materialize(ent), None, 4, 'Option<RetryOptionsWithDeadline>'))
                        if z3.simplify(M.discr(ex_, ro)).as_long() != 1:
                            continue
                        rod = ex_.materialize(ex_.field_of(ro, 1, 0, 'runner::basic::RetryOptionsWithDeadline'))
                        aft = ex_.materialize(ex_.field_of(rod, None, 1, 'Option<(Duration, Option<Instant>)>'))
                        if z3.simplify(M.discr(ex_, aft)).as_long() != 1:
                            continue
                        tup = ex_.materialize(ex_.field_of(aft, 1, 0, '(Duration, Option<Instant>)'))
                        oi = ex_.materialize(ex_.field_of(tup, None, 1, 'Option<std::time::Instant>'))
                        if z3.simplify(M.discr(ex_, oi)).as_long() != 1:
                            deadline_err = 'a delayed retry was re-inserted without an instant to count the delay from'
                            continue
                        inst = ex_.materialize(ex_.field_of(oi, 1, 0, 'std::time::Instant'), 'std::time::Instant')
                        if ex_.check(z3.ULT(inst, ex_.env['after_hook_done_clock'])):
                            deadline_err = 'the retry delay is counted from an instant BEFORE the after hook of the failed attempt ended (the attempt was still running)'
            except (Inconclusive, AttributeError, KeyError) as e_:
                deadline_err = None
        # a retried attempt goes back into the storage under the type it was dispatched as (that is all that keeps a retried
        # @serial scenario isolated)
        requeue_err = None
        if shape.retries is not None and escaped is None and 'scenario_ty' in rp:
            try:
                mval = ex_.materialize(ex_.read_path(fv.fields[(None, six.F['scenarios'])].cell, ())).fields[(None, 0)]
                inv_ty = {v_: k_ for k_, v_ in six.Ty.items()}
                for key_, vec in mval.entries:
                    kd = z3.simplify(M.discr(ex_, ex_.materialize(key_)))
                    n_ent = len(M.seq_of(ex_, vec))
                    if n_ent and z3.is_bv_value(kd) and inv_ty.get(kd.as_long()) != shape.ty:
                        requeue_err = 'the next attempt of a scenario dispatched as %s was put back into the %s storage' % (shape.ty, inv_ty.get(kd.as_long()))
            except (Inconclusive, AttributeError, KeyError):
                requeue_err = None
        return {'log': list(ex_.env.get('log', [])), 'polls': polls, 'escaped': escaped, 'deadline_err': deadline_err, 'requeue_err': requeue_err,
                'hook_end': ex_.env.get('panic_hook')}
    out = []

    def on_end(ex_, rec):
        kind, res, pc, dec = rec
        if kind == 'ok':
            res['timeline'] = timeline(ex_, M, ix, res['log'])
            res['choices'] = {str(v): [k for k in range(4) if ex_.check(v == bv(k))] for v in list(findv.values()) + list(kindv.values()) + [worldv]}
        out.append((kind, res))
    ex.explore(run, on_end)
    return out, ex


def timeline(ex, M, ix, log):
    """plain tuples: ('ev', kind..., retries) for events sent, ('call', what, world, counter, extra), ('created', id), ('caught', what) ..."""
    tl = []

    def cd(v):
        """the discriminant of a value on this path (decided by the solver when it is not a literal)"""
        d = z3.simplify(M.discr(ex, v))
        if z3.is_bv_value(d):
            return d.as_long()
        feas = [k_ for k_ in range(12) if ex.check(d == bv(k_))]
        if len(feas) == 1:
            return feas[0]
        raise Inconclusive('discriminant of %r is not decided on this path (%s feasible)' % (v, feas))
    invS = {v: k for k, v in ix.Sc.items()}
    for e in log:
        k = e['kind']
        if k == 'called':
            tl.append(('call', e['what'], e['world'], e['counter'], e['extra'], e['how'], e.get('scn')))
        elif k == 'world_created':
            tl.append(('world_created', e['id']))
        elif k == 'world_new_called':
            tl.append(('world_new', e['how']))
        elif k == 'panic_caught':
            tl.append(('caught', e['payload']))
        elif k == 'user_done':
            tl.append(('done', e['what']))
        elif k == 'find':
            tl.append(('find', e['step'], e['result']))
        elif k == 'returned_outcome':
            v = e['value']
            tl.append(('notified', bool(z3.is_true(z3.simplify(ex.materialize(v.fields[(None, 3)])))), bool(z3.is_true(z3.simplify(ex.materialize(v.fields[(None, 4)]))))))
        elif k == 'sent' and not str(e['channel']).startswith('chan') and 'finished_sender' not in str(e['channel']):
            v = ex.materialize(e['value'])
            if isinstance(v, Adt) and v.discr is None and (None, 4) in v.fields:
                # the finished-notification tuple (id, feature, rule, is_failed, is_retried)
                tl.append(('notified', bool(z3.is_true(z3.simplify(v.fields[(None, 3)]))), bool(z3.is_true(z3.simplify(v.fields[(None, 4)])))))
                continue
            if cd(v) != 0:
                tl.append(('ev', 'error'))
                continue
            evv = ex.materialize(ex.field_of(v, 0, 0, 'event::Event<C>'))
            cu = ex.materialize(ex.field_of(evv, None, ix.EventValue, 'event::Cucumber<W>'))
            if cd(cu) != ix.Top['Feature']:
                tl.append(('ev', 'other'))
                continue
            fe = ex.materialize(ex.field_of(cu, ix.Top['Feature'], 1, 'event::Feature<W>'))
            fd = cd(fe)
            if fd == ix.Fe['Scenario']:
                rs = ex.materialize(ex.field_of(fe, ix.Fe['Scenario'], 1, 'event::RetryableScenario<W>'))
            elif fd == ix.Fe['Rule']:
                re_ = ex.materialize(ex.field_of(fe, ix.Fe['Rule'], 1, 'event::Rule<W>'))
                rs = ex.materialize(ex.field_of(re_, ix.Re['Scenario'], 1, 'event::RetryableScenario<W>'))
            else:
                tl.append(('ev', 'bracket'))
                continue
            sev = ex.materialize(ex.field_of(rs, None, ix.RS['event'], 'event::Scenario<W>'))
            ret = ex.materialize(ex.field_of(rs, None, ix.RS['retries'], 'Option<event::Retries>'))
            rd = cd(ret)
            rr = None
            if rd == 1:
                rv = ex.materialize(ex.field_of(ret, 1, 0, 'event::Retries'))
                rr = (z3.simplify(ex.materialize(ex.field_of(rv, None, ix.Ret['current'], 'usize'), 'usize')).as_long(),
                      z3.simplify(ex.materialize(ex.field_of(rv, None, ix.Ret['left'], 'usize'), 'usize')).as_long())
            sk = invS[cd(sev)]

            def payload(p):
                p = ex.materialize(p)
                for _ in range(4):
                    if isinstance(p, Ref):
                        p = ex.materialize(ex.read_path(p.cell, p.path))
                if isinstance(p, Obj) and p.kind == 'panic_payload':
                    # the Arc holds the Box<dyn Any> itself, not its content: downcasting the Info to the payload type fails
                    return 'Box<dyn Any> around %s' % p.tag
                if isinstance(p, Obj):
                    return p.d.get('tag') or p.d.get('name') or p.kind
                return repr(p)[:40]

            def worldid(w):
                w = ex.materialize(w)
                if cd(w) == 0:
                    return None
                a = ex.materialize(ex.field_of(w, 1, 0, 'Arc<W>'))
                for _ in range(3):
                    if isinstance(a, Ref):
                        a = ex.materialize(ex.read_path(a.cell, a.path))
                return a.id if isinstance(a, Obj) and a.kind == 'world' else repr(a)[:30]
            if sk in ('Started', 'Finished', 'Log'):
                tl.append(('ev', sk, rr))
            elif sk == 'Hook':
                ht = cd(ex.field_of(sev, ix.Sc['Hook'], 0, 'HookType'))
                hv = ex.materialize(ex.field_of(sev, ix.Sc['Hook'], 1, 'event::Hook<W>'))
                hk = {v: k for k, v in ix.Hook.items()}[cd(hv)]
                if hk == 'Failed':
                    tl.append(('ev', 'Hook', 'Before' if ht == 0 else 'After', hk, rr, worldid(ex.field_of(hv, ix.Hook['Failed'], 0, 'Option<Arc<W>>')), payload(ex.field_of(hv, ix.Hook['Failed'], 1, 'Info'))))
                else:
                    tl.append(('ev', 'Hook', 'Before' if ht == 0 else 'After', hk, rr))
            else:
                stp = ex.materialize(ex.field_of(sev, ix.Sc[sk], 0, 'event::Source<gherkin::Step>'))
                c_, p_ = ex.deref(stp)
                sname = ex.read_path(c_, p_).name
                sv = ex.materialize(ex.field_of(sev, ix.Sc[sk], 1, 'event::Step<W>'))
                stk = {v: k for k, v in ix.Step.items()}[cd(sv)]
                if stk == 'Failed':
                    errv = ex.materialize(ex.field_of(sv, ix.Step['Failed'], 3, 'event::StepError'))
                    ek = {v: k for k, v in ix.Err.items()}[cd(errv)]
                    pl = payload(ex.field_of(errv, ix.Err[ek], 0, 'Info')) if ek != 'NotFound' else None
                    tl.append(('ev', sk, sname, stk, rr, ek, pl, worldid(ex.field_of(sv, ix.Step['Failed'], 2, 'Option<Arc<W>>'))))
                else:
                    tl.append(('ev', sk, sname, stk, rr))
    return tl


# ------------------------------------------------------------------------------------------------ reference + oracles

def reference(shape, tl, ix):
    """What the property statements require for one attempt, given the choices the path made (read from the timeline):
    -> dict(events=[...], calls=[...], worlds=n, notified=(failed, retried)) or raises KeyError if a needed choice is missing."""
    finds = {e[1]: e[2] for e in tl if e[0] == 'find'}
    hows = {}
    for e in tl:
        if e[0] == 'call':
            hows.setdefault(e[1], e[5])
    wn = [e[1] for e in tl if e[0] == 'world_new']
    wn_i = [0]
    rr = None if shape.retries is None else tuple(shape.retries)
    ev, calls = [('ev', 'Started', rr)], []
    world = {'id': None, 'counter': 0, 'created': 0}
    failure, reason, failed = None, 'StepPassed', False

    def new_world():
        k = wn[wn_i[0]]
        wn_i[0] += 1
        if k == 'ok':
            world['created'] += 1
            world['id'] = world['created']
            world['counter'] = 0
        return k
    if shape.before:
        ev.append(('ev', 'Hook', 'Before', 'Started', rr))
        k = new_world()
        if k != 'ok':
            failure = ('hook', 'Before', 'formatted' if k == 'err' else 'World::new', None)
        else:
            calls.append(('before', world['id'], world['counter'], None))
            h = hows['before']
            if h == 'pass':
                world['counter'] += 1
                ev.append(('ev', 'Hook', 'Before', 'Passed', rr))
            else:
                failure = ('hook', 'Before', 'before', world['id'])
        if failure:
            reason, failed = 'BeforeHookFailed', True
    if not failure:
        seq = [('Background', 'fb%d' % i) for i in range(shape.fbg)] + [('Background', 'rb%d' % i) for i in range(shape.rbg)] + [('Step', 's%d' % i) for i in range(shape.steps)]
        for kind, n in seq:
            ev.append(('ev', kind, n, 'Started', rr))
            f = finds[n]
            if f == 'none':
                ev.append(('ev', kind, n, 'Skipped', rr))
                reason = 'StepSkipped'
                break
            if f == 'ambiguous':
                failure = ('step', kind, n, 'AmbiguousMatch', None, world['id'])
                reason, failed = 'StepFailed', True
                break
            if world['id'] is None:
                k = new_world()
                if k != 'ok':
                    failure = ('step', kind, n, 'Panic', 'formatted' if k == 'err' else 'World::new', None)
                    reason, failed = 'StepFailed', True
                    break
            calls.append((n, world['id'], world['counter'], None))
            h = hows[n]
            if h == 'pass':
                world['counter'] += 1
                ev.append(('ev', kind, n, 'Passed', rr))
            else:
                failure = ('step', kind, n, 'Panic', n, world['id'])
                reason, failed = 'StepFailed', True
                break
    after_failed = False
    if shape.after:
        calls.append(('after', world['id'], world['counter'] if world['id'] is not None else None, ix_reason(ix, reason)))
        after_failed = hows['after'] != 'pass'
    if failure:
        if failure[0] == 'hook':
            ev.append(('ev', 'Hook', failure[1], 'Failed', rr, failure[3], failure[2]))
        else:
            ev.append(('ev', failure[1], failure[2], 'Failed', rr, failure[3], failure[4], failure[5]))
    if shape.after:
        ev.append(('ev', 'Hook', 'After', 'Started', rr))
        if after_failed:
            ev.append(('ev', 'Hook', 'After', 'Failed', rr, world['id'], 'after'))
        else:
            ev.append(('ev', 'Hook', 'After', 'Passed', rr))
    ev.append(('ev', 'Finished', rr))
    is_failed = failed or after_failed
    retried = is_failed and rr is not None and rr[1] > 0
    return {'events': ev, 'calls': calls, 'worlds': world['created'], 'notified': (is_failed, retried)}


_REASONS = {}


def ix_reason(ix, name):
    if not _REASONS:
        vs = ix.t.enum_variants('event::ScenarioFinished')
        for i, v in enumerate(vs):
            _REASONS[v[0]] = i
    return _REASONS[name]


def oracles(shape, res, ix):
    tl = res['timeline']
    out = {}
    out['no-panic-escapes-the-attempt'] = None if res['escaped'] is None else 'a panic in %s (%s) unwound out of run_scenario' % res['escaped']
    if res['escaped'] is not None:
        return out
    try:
        ref = reference(shape, tl, ix)
    except (KeyError, IndexError) as e:
        asked = set(x[1] for x in tl if x[0] == 'find')
        reported = set(x[2] for x in tl if x[0] == 'ev' and len(x) >= 4 and x[1] in ('Step', 'Background') and x[3] in ('Passed', 'Failed'))
        unasked = sorted(n_ for n_ in reported if n_ not in asked)
        if isinstance(e, KeyError) and unasked:
            # a step got a result although the collection was never asked about THIS step: a resolution was reused
            out['canonical-event-sequence'] = 'step %s was resolved without consulting the step collection for it (the resolution of another step was reused)' % unasked
            return out
        # hooks that are set but were never reached (no World::new for the before hook, no call of the hook at all)
        called = set(x[1] for x in tl if x[0] == 'call')
        wn_ = [x for x in tl if x[0] == 'world_new']
        missing = None
        if shape.before and not wn_ and 'before' not in called:
            missing = 'a before hook is set, but neither World::new nor the hook was called in this attempt'
        elif shape.after and 'after' not in called and not any(x[0] == 'ev' and x[1] == 'Hook' and x[2] == 'After' for x in tl):
            missing = 'an after hook is set, but it was never called in this attempt'
        if missing:
            for k_ in ('world-threaded-through-hooks-and-steps', 'canonical-event-sequence', 'world-created-at-most-once-and-only-when-needed'):
                out[k_] = missing
            return out
        out['reference-applicable'] = 'the run made choices the specification would not make: %r' % (e,)
        return out
    got_ev = [e for e in tl if e[0] == 'ev']

    def norm(e):
        # the ambiguity payload is an opaque error value: compare only its kind
        if len(e) >= 7 and e[5] == 'AmbiguousMatch':
            return e[:6] + (None,) + e[7:]
        return e
    g, w = [norm(e) for e in got_ev], [norm(e) for e in ref['events']]
    out['canonical-event-sequence'] = None if g == w else 'events %s, canonical sequence %s' % (g, w)
    gc = [(e[1], e[2], e[3], e[4]) for e in tl if e[0] == 'call']
    out['world-threaded-through-hooks-and-steps'] = None if gc == ref['calls'] else 'callbacks saw (what, world, counter, reason) %s, specification %s' % (gc, ref['calls'])
    created = len([e for e in tl if e[0] == 'world_created'])
    out['world-created-at-most-once-and-only-when-needed'] = None if created == ref['worlds'] and created <= 1 else '%d Worlds created, specification %d' % (created, ref['worlds'])
    nt = [e for e in tl if e[0] == 'notified']
    out['attempt-reported-failed-and-retried-correctly'] = None if len(nt) == 1 and nt[0][1:] == ref['notified'] else 'notified %s, specification %s' % (nt, ref['notified'])
    # failure events carry the payload of the code that failed
    bad = []
    for e in got_ev:
        if len(e) >= 7 and e[1] == 'Hook' and e[3] == 'Failed' and e[6] not in ('before', 'after', 'World::new', 'formatted'):
            bad.append(e)
        if len(e) >= 8 and e[3] == 'Failed' and e[5] == 'Panic' and e[6] not in (e[2], 'World::new', 'formatted'):
            bad.append(e)
    out['failed-events-carry-the-payload'] = None if not bad else 'payload mismatch in %s' % bad
    # the runner / writer contract behind the run verdict (C01): writers count a Failed event whose retries say left > 0
    # as "retried", not as failed - so a failure in an attempt that is NOT followed by another one must say left == 0 / None
    bad = []
    if len(nt) == 1:
        for e in got_ev:
            failed_ev = (len(e) >= 6 and e[1] in ('Step', 'Background') and e[3] == 'Failed' and e[5] != 'NotFound') or (len(e) >= 5 and e[1] == 'Hook' and e[3] == 'Failed')
            if failed_ev:
                says_retried = e[4] is not None and e[4][1] > 0
                if says_retried != nt[0][2]:
                    bad.append('%s carries retries %s but the attempt is %s' % (e[:4], e[4], 'retried' if nt[0][2] else 'final'))
    out['failed-events-say-retried-iff-the-attempt-is-retried'] = '; '.join(bad) if bad else None
    if getattr(shape, 'delay', False):
        out['retry-delay-counted-from-the-end-of-the-attempt'] = res.get('deadline_err')
    if shape.retries is not None:
        out['next-attempt-queued-under-the-type-it-was-dispatched-as'] = res.get('requeue_err')
    return out
