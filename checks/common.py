"""Shared check infrastructure: obligations, evidence, known findings, reporting."""
import json
import re
import os
import sys
import time
import traceback

import z3

sys.path.insert(0, os.path.dirname(os.path.dirname(os.path.abspath(__file__))))

from mirsmt import frontend, interp, models  # noqa: E402
from mirsmt.interp import Inconclusive, PathEnd  # noqa: E402

VERIF = os.path.dirname(os.path.dirname(os.path.abspath(__file__)))
EVID = os.path.join(VERIF, 'evidence')
KNOWN = os.path.join(VERIF, 'known_findings.txt')


def tier():
    t = os.environ.get('VERIF_TIER', 'quick')
    for a in sys.argv[1:]:
        if a.startswith('--tier='):
            t = a.split('=', 1)[1]
    return 'thorough' if t == 'thorough' else 'quick'


def seed():
    try:
        return int(os.environ.get('VERIF_SEED', '0'))
    except ValueError:
        return 0


def known_findings(prop):
    """-> dict role -> text for lines `known: property=<id> role=<role> <text>`"""
    out = {}
    if not os.path.exists(KNOWN):
        return out
    for ln in open(KNOWN):
        ln = ln.strip()
        if not ln or ln.startswith('#'):
            continue
        parts = ln.split(None, 3)
        if len(parts) >= 3 and parts[0] == 'known:' and parts[1] == 'property=%s' % prop and parts[2].startswith('role='):
            out[parts[2][5:]] = parts[3] if len(parts) > 3 else ''
    return out


class Obligation:
    def __init__(self, name, bound=''):
        self.name = name
        self.bound = bound
        self.verdict = None       # 'holds' | 'violated' | 'inconclusive' | 'witness-ok' | 'witness-missing'
        self.detail = ''
        self.queries = 0
        self.paths = 0
        self.model = None
        self.role = None          # classification of a violation (for known findings)
        self.kind = 'safety'      # or 'witness' (vacuity twin: must be sat)

    def as_dict(self):
        d = {'name': self.name, 'bound': self.bound, 'verdict': self.verdict, 'kind': self.kind}
        if self.detail:
            d['detail'] = self.detail[:600]
        if self.role:
            d['role'] = self.role
        if self.model:
            d['counterexample'] = self.model
        return d


class Check:
    """One property check run: collects obligations, writes evidence, prints verdict lines."""

    def __init__(self, prop):
        self.prop = prop
        self.tier = tier()
        self.seed = seed()
        self.t0 = time.time()
        self.obligations = []
        self.assumptions = []
        self.trusted = ['rustc nightly -Zunpretty=mir (MIR taken before LLVM)', 'z3 %s' % z3.get_version_string(),
                        'mirsmt interpreter + library model table (validated against native runs, see DESIGN.md 2.2)']
        self.replays = 0
        self.replay_files = []
        self.violations = []      # (role, replay path, text)
        self.known_hit = []
        self.inconclusive = []
        self.prog = None
        self.meta = None
        self.execs = []
        self.extra = {}
        self.samples = []
        rd = os.path.join(EVID, 'replay')
        if os.path.isdir(rd):
            for f in os.listdir(rd):
                if f.startswith(prop + '-'):
                    try:
                        os.remove(os.path.join(rd, f))
                    except OSError:
                        pass

    def load(self):
        self.prog, self.meta = frontend.load()
        return self.prog

    def new_exec(self, **kw):
        M = models.Models(self.prog)
        if self.tier == 'thorough':
            kw.setdefault('timeout_ms', 900000)
        ex = interp.Exec(self.prog, M, **kw)
        self.execs.append(ex)
        return ex, M

    def add(self, ob):
        self.obligations.append(ob)
        return ob

    # ---- verdicts
    def finish(self):
        known = known_findings(self.prop)
        rc = 0
        lines = []
        for ob in self.obligations:
            if ob.kind == 'witness':
                if ob.verdict != 'witness-ok':
                    self.inconclusive.append('vacuity witness failed: %s (%s)' % (ob.name, ob.detail))
                continue
            if ob.verdict == 'violated':
                role = ob.role or ob.name
                if role in known:
                    ob.verdict = 'known-finding'
                    self.known_hit.append(role)
                    lines.append('KNOWN-FINDING: property=%s %s: %s' % (self.prop, role, known[role] or ob.detail))
                else:
                    self.violations.append((role, ob.replay if hasattr(ob, 'replay') else '', ob.detail))
            elif ob.verdict in ('inconclusive', None):
                self.inconclusive.append('%s: %s' % (ob.name, ob.detail))
        for role, rp, text in self.violations:
            lines.append('VIOLATION property=%s replay=%s' % (self.prop, rp or os.path.join(EVID, '%s.json' % self.prop)))
            lines.append('  role=%s %s' % (role, text[:300]))
        if self.violations:
            rc = 1
        elif self.inconclusive:
            rc = 2
        self.write_evidence(rc)
        try:
            from checks import replay
            replay.cleanup()
        except Exception:
            pass
        for ln in lines:
            print(ln)
        n_ok = sum(1 for o in self.obligations if o.verdict in ('holds', 'witness-ok'))
        print('%s tier=%s obligations=%d discharged=%d known-findings=%d violations=%d inconclusive=%d wall=%.1fs' % (
            self.prop, self.tier, len(self.obligations), n_ok, len(self.known_hit), len(self.violations),
            len(self.inconclusive), time.time() - self.t0))
        for m in self.inconclusive[:10]:
            print('INCONCLUSIVE %s' % m[:400])
        return rc

    def write_evidence(self, rc):
        os.makedirs(EVID, exist_ok=True)
        paths = sum(e.stats.paths for e in self.execs)
        blocks = sum(e.stats.blocks for e in self.execs)
        queries = sum(e.stats.queries for e in self.execs) + sum(o.queries for o in self.obligations)
        solver_s = sum(e.stats.solver_s for e in self.execs) + self.extra.get('solver_s_extra', 0.0)
        bodies, covered, models_used, uninterp = {}, {}, set(), set()
        for e in self.execs:
            bodies.update(e.stats.bodies)
            for k, v in e.stats.blocks_hit.items():
                covered.setdefault(k, set()).update(v)
            models_used |= e.stats.models
            uninterp |= e.stats.uninterp
        cov = {}
        for name, hit in covered.items():
            b = self.prog.bodies.get(name)
            if b is not None:
                non_cleanup = [n for n, blk in b.blocks.items() if not blk.cleanup]
                cov[name] = '%d/%d' % (len([h for h in hit if h in non_cleanup]), len(non_cleanup))
        n_ok = sum(1 for o in self.obligations if o.verdict in ('holds', 'witness-ok', 'known-finding'))
        samples = self.samples or [o.as_dict() for o in self.obligations[:12]]
        ev = {
            'property_id': self.prop,
            'tier': self.tier,
            'seed': self.seed,
            'level': 'model_checking',
            'coverage': {
                'states': max(paths, 1),
                'transitions': max(blocks, 1),
                'traces_validated_against_impl': self.replays,
                'samples': samples,
                'obligations': len(self.obligations),
                'discharged': n_ok,
                'checker_cmd': ' '.join(sys.argv),
                'trusted_base': self.trusted,
                'explanation': 'bounded symbolic execution of the MIR of the functions listed in mir_bodies; '
                               'states = feasible paths explored, transitions = MIR basic blocks executed on them; '
                               'every obligation is decided by z3 (unsat of path-condition AND NOT post) on every path',
                'exhaustive': False,
                'mir_bodies': bodies,
                'blocks_covered': cov,
                'models_used': sorted(models_used),
                'havoced_callees': sorted(uninterp),
                'solver_queries': queries,
                'solver_time_s': round(solver_s, 3),
                'frontend': self.meta,
                'all_obligations': [o.as_dict() for o in self.obligations],
                'known_findings_hit': self.known_hit,
                'inconclusive': self.inconclusive,
                'replay_files': self.replay_files,
            },
            'assumptions': self.assumptions,
            'wall_s': round(time.time() - self.t0, 2),
            'violations': len(self.violations),
        }
        ev['coverage'].update(self.extra)
        with open(os.path.join(EVID, '%s.json' % self.prop), 'w') as f:
            json.dump(ev, f, indent=1, default=str)


def part(fn):
    """Decorator for one self-contained part of a check (first argument: the Check).  An encoder gap or an internal error
    in one part makes that part inconclusive and lets the other parts of the check run: a violation found elsewhere is
    still reported (exit 1); with no violation the check exits 2 as before."""
    import functools

    @functools.wraps(fn)
    def wrapper(chk, *a, **kw):
        n0 = len(chk.obligations)
        try:
            return fn(chk, *a, **kw)
        except Inconclusive as e:
            traceback.print_exc()
            chk.inconclusive.append('%s.%s: encoder: %s' % (fn.__module__.split('.')[-1], fn.__name__, e))
        except Exception as e:  # noqa
            traceback.print_exc()
            chk.inconclusive.append('%s.%s: internal error: %r' % (fn.__module__.split('.')[-1], fn.__name__, e))
        # the part was cut short: a solver counterexample it had found but not yet confirmed natively is not reported
        for ob in chk.obligations[n0:]:
            if ob.verdict == 'violated' and not getattr(ob, 'replay', None):
                ob.verdict = 'inconclusive'
                ob.detail = (ob.detail or '') + ' | the part was cut short before the counterexample was confirmed natively'
        return None
    return wrapper


class BudgetExhausted(BaseException):
    """wall-clock budget of a check run is used up (BaseException: not swallowed by the per-part guards)"""


def main(prop, body):
    """Run `body(check)`; map exceptions to the inconclusive exit code 2."""
    chk = Check(prop)
    import signal
    budget = int(os.environ.get('VERIF_BUDGET_S', '0') or 0) or (7200 if chk.tier == 'thorough' else 1500)

    def on_alarm(signum, frame):
        raise BudgetExhausted()
    signal.signal(signal.SIGALRM, on_alarm)
    signal.alarm(budget)
    try:
        chk.load()
        try:
            body(chk)
        except BudgetExhausted:
            # what was decided (and confirmed) so far is reported; the rest is inconclusive - never a pass
            signal.alarm(0)
            chk.inconclusive.append('wall-clock budget of %d s used up before every part had run' % budget)
            for ob in chk.obligations:
                if ob.verdict == 'violated' and not getattr(ob, 'replay', None) and ob.kind != 'witness':
                    ob.verdict = 'inconclusive'
                    ob.detail = (ob.detail or '') + ' | budget used up before native confirmation'
        signal.alarm(0)
        rc = chk.finish()
    except Inconclusive as e:
        traceback.print_exc()
        chk.inconclusive.append('encoder: %s' % e)
        try:
            chk.write_evidence(2)
        except Exception:
            traceback.print_exc()
        print('INCONCLUSIVE %s: %s' % (prop, e))
        rc = 2
    except Exception as e:  # noqa
        traceback.print_exc()
        chk.inconclusive.append('internal error: %r' % e)
        try:
            chk.write_evidence(2)
        except Exception:
            traceback.print_exc()
        print('INCONCLUSIVE %s: internal error %r' % (prop, e))
        rc = 2
    sys.exit(rc)


def same_value(ex, a, b, depth=0):
    """Are two symbolic values the same value?  (a clone is a different Python object but the same value): identical z3
    terms, same variant / fields recursively, same referent for references, same model object."""
    import z3 as _z3
    from mirsmt.values import Adt, Ref, Lazy, Obj
    if a is b:
        return True
    if depth > 12:
        return False
    for x, y in ((a, b), (b, a)):
        # an untyped lazy leaf and the pointer it materialises to under its pointer type
        if isinstance(x, Lazy) and isinstance(y, Ref) and y.path == () and y.cell.name == x.name:
            return True
        if isinstance(x, Adt) and not x.fields and x.discr is None and x.name and isinstance(y, Ref) and y.path == () and y.cell.name == x.name:
            return True
    for x, y in ((a, b), (b, a)):
        # an untyped lazy leaf and the scalar constant it materialises to under its type
        if isinstance(x, Lazy) and _z3.is_expr(y) and _z3.is_const(y) and str(y) == x.name:
            return True
    a, b = ex.materialize(a), ex.materialize(b)
    for x, y in ((a, b), (b, a)):
        if isinstance(x, Adt) and not x.fields and x.discr is None and x.name and isinstance(y, Ref) and y.path == () and y.cell.name == x.name:
            return True
        if isinstance(x, Adt) and not x.fields and x.discr is None and x.name and _z3.is_expr(y) and _z3.is_const(y) and str(y) == x.name:
            return True
    if a is b:
        return True
    def eq_terms(x, y):
        if x.sort() != y.sort():
            return False
        if _z3.is_true(_z3.simplify(x == y)):
            return True
        return not ex.check(x != y)          # equal under the path condition
    if _z3.is_expr(a) and _z3.is_expr(b):
        return eq_terms(a, b)
    if isinstance(a, Lazy) and isinstance(b, Lazy):
        return a.name == b.name
    for x, y in ((a, b), (b, a)):
        # an untyped lazy leaf and the pointer it materialises to under its pointer type
        if isinstance(x, Lazy) and isinstance(y, Ref) and y.path == () and y.cell.name == x.name:
            return True
    if isinstance(a, Ref) and isinstance(b, Ref):
        if a.cell is b.cell and a.path == b.path:
            return True
        if a.pid is not None and b.pid is not None:
            return eq_terms(a.pid, b.pid)
        return same_value(ex, ex.read_path(a.cell, a.path), ex.read_path(b.cell, b.path), depth + 1)
    if isinstance(a, Adt) and isinstance(b, Adt):
        da = db = None
        if a.discr is not None or b.discr is not None:
            da, db = ex.models.discr(ex, a), ex.models.discr(ex, b)
            if not eq_terms(da, db):
                return False
        if a.name is not None and a.name == b.name and not a.fields and not b.fields:
            return True
        keys = set(a.fields) | set(b.fields)
        act = None
        for x in (a, b):
            if isinstance(x.discr, int):
                act = x.discr
        for k in keys:
            if act is not None and k[0] is not None and k[0] != act:
                continue          # field of an inactive variant
            fa = a.fields.get(k)
            fb = b.fields.get(k)
            if fa is None or fb is None:
                if a.name is None and b.name is None:
                    return False
                fa = fa if fa is not None else ex.field_of(a, k[0], k[1], '?')
                fb = fb if fb is not None else ex.field_of(b, k[0], k[1], '?')
            if not same_value(ex, fa, fb, depth + 1):
                return False
        return True
    if isinstance(a, Obj) and isinstance(b, Obj):
        return a.kind == b.kind and a.d == b.d
    return False


def explain_diff(ex, a, b, path='', depth=0):
    """first difference between two values (for diagnostics)"""
    from mirsmt.values import Adt
    a, b = ex.materialize(a), ex.materialize(b)
    if same_value(ex, a, b) or depth > 10:
        return None
    if isinstance(a, Adt) and isinstance(b, Adt):
        act = None
        for x in (a, b):
            if isinstance(x.discr, int):
                act = x.discr
        for k in sorted(set(a.fields) | set(b.fields), key=repr):
            if act is not None and k[0] is not None and k[0] != act:
                continue
            fa, fb = a.fields.get(k), b.fields.get(k)
            if fa is None or fb is None:
                fa = fa if fa is not None else (ex.field_of(a, k[0], k[1], '?') if a.name else None)
                fb = fb if fb is not None else (ex.field_of(b, k[0], k[1], '?') if b.name else None)
                if fa is None or fb is None:
                    return '%s%s: present on one side only (%s / %s; discr %s / %s)' % (path, k, a.ty[:30], b.ty[:30], a.discr, b.discr)
            d = explain_diff(ex, fa, fb, path + str(k), depth + 1)
            if d:
                return d
        return '%s: nodes differ (%s discr %s name %s / %s discr %s name %s)' % (path, a.ty[:30], a.discr, a.name, b.ty[:30], b.discr, b.name)
    return '%s: %r / %r' % (path, a, b)


def default_by_type(M, ty, name):
    """A freshly constructed value of a library type, for struct fields a change adds to a struct a harness builds
    (what `new()` / `Default` would put there); None when the type is not one of the known containers / scalars."""
    import z3 as _z3
    from mirsmt.values import Adt, Ref, Cell, Obj, bv, generic_args
    ty = re.sub(r'\s+', ' ', (ty or '').strip().rstrip(','))
    head = re.sub(r'^(?:\w+::)+', '', ty.split('<')[0].strip())
    g = generic_args(ty)
    if head in ('bool',):
        return _z3.BoolVal(False)
    if head in ('usize', 'u64', 'u32', 'isize', 'i64'):
        return bv(0)
    if head.startswith('Atomic'):
        return Adt(head, {(None, 0): _z3.BoolVal(False) if head == 'AtomicBool' else bv(0)})
    if head == 'Option':
        return Adt(ty, {}, 0)
    if head == 'Vec':
        return Obj('vec', items=(), ty=ty)
    if head == 'HashSet':
        return M.new_assoc(g[0] if g else '?', '()', [])
    if head in ('HashMap', 'BTreeMap', 'LinkedHashMap'):
        m = M.new_assoc(g[0] if g else '?', g[1] if len(g) > 1 else '?', [])
        return m.set(linked=True) if head != 'HashMap' else m
    if head in ('RefCell', 'Cell', 'Mutex', 'RwLock') and g:
        inner = default_by_type(M, g[0], name)
        return None if inner is None else Adt(ty, {(None, 0): inner})
    if head in ('Arc', 'Rc', 'Box') and g:
        inner = default_by_type(M, g[0], name)
        return None if inner is None else Ref(Cell(inner, name=name), (), pid=bv(0x7000 + (hash(name) % 4096)))
    return None


def find_method(prog, struct, meth, trait=None):
    """the body of an inherent (or trait) method by the NAME of its self type - never by source location"""
    from mirsmt.interp import Inconclusive
    c = [b for (st, m), lst in prog.by_method.items() if st == struct and m == meth for tr, b in lst if tr == trait]
    if len(c) != 1:
        raise Inconclusive('%s::%s: %d candidates' % (struct, meth, len(c)))
    return c[0]


def model_dict(model, terms):
    """Evaluate named terms in a z3 model -> plain dict."""
    out = {}
    for k, t in terms.items():
        try:
            v = model.eval(t, model_completion=True)
            if z3.is_bv_value(v):
                out[k] = v.as_long()
            elif z3.is_true(v):
                out[k] = True
            elif z3.is_false(v):
                out[k] = False
            else:
                out[k] = str(v)
        except Exception as e:  # noqa
            out[k] = '?%s' % e
    return out
