"""Shared check infrastructure: obligations, evidence, known findings, reporting."""
import json
import os
import sys
import time
import traceback

import z3

sys.path.insert(0, os.path.dirname(os.path.dirname(os.path.abspath(__file__))))

from mirsmt import frontend, interp, models  # noqa: E402
from mirsmt.interp import Inconclusive, PathEnd  # noqa: E402

VERIF = os.path.dirname(os.path.dirname(os.path.abspath(__file__)))
EVID = os.path.join(VERIF, 'evidence')
KNOWN = os.path.join(VERIF, 'known_findings.txt')


def tier():
    t = os.environ.get('VERIF_TIER', 'quick')
    for a in sys.argv[1:]:
        if a.startswith('--tier='):
            t = a.split('=', 1)[1]
    return 'thorough' if t == 'thorough' else 'quick'


def seed():
    try:
        return int(os.environ.get('VERIF_SEED', '0'))
    except ValueError:
        return 0


def known_findings(prop):
    """-> dict role -> text for lines `known: property=<id> role=<role> <text>`"""
    out = {}
    if not os.path.exists(KNOWN):
        return out
    for ln in open(KNOWN):
        ln = ln.strip()
        if not ln or ln.startswith('#'):
            continue
        parts = ln.split(None, 3)
        if len(parts) >= 3 and parts[0] == 'known:' and parts[1] == 'property=%s' % prop and parts[2].startswith('role='):
            out[parts[2][5:]] = parts[3] if len(parts) > 3 else ''
    return out


class Obligation:
    def __init__(self, name, bound=''):
        self.name = name
        self.bound = bound
        self.verdict = None       # 'holds' | 'violated' | 'inconclusive' | 'witness-ok' | 'witness-missing'
        self.detail = ''
        self.queries = 0
        self.paths = 0
        self.model = None
        self.role = None          # classification of a violation (for known findings)
        self.kind = 'safety'      # or 'witness' (vacuity twin: must be sat)

    def as_dict(self):
        d = {'name': self.name, 'bound': self.bound, 'verdict': self.verdict, 'kind': self.kind}
        if self.detail:
            d['detail'] = self.detail[:600]
        if self.role:
            d['role'] = self.role
        if self.model:
            d['counterexample'] = self.model
        return d


class Check:
    """One property check run: collects obligations, writes evidence, prints verdict lines."""

    def __init__(self, prop):
        self.prop = prop
        self.tier = tier()
        self.seed = seed()
        self.t0 = time.time()
        self.obligations = []
        self.assumptions = []
        self.trusted = ['rustc nightly -Zunpretty=mir (MIR taken before LLVM)', 'z3 %s' % z3.get_version_string(),
                        'mirsmt interpreter + library model table (validated against native runs, see DESIGN.md 2.2)']
        self.replays = 0
        self.replay_files = []
        self.violations = []      # (role, replay path, text)
        self.known_hit = []
        self.inconclusive = []
        self.prog = None
        self.meta = None
        self.execs = []
        self.extra = {}
        self.samples = []
        rd = os.path.join(EVID, 'replay')
        if os.path.isdir(rd):
            for f in os.listdir(rd):
                if f.startswith(prop + '-'):
                    try:
                        os.remove(os.path.join(rd, f))
                    except OSError:
                        pass

    def load(self):
        self.prog, self.meta = frontend.load()
        return self.prog

    def new_exec(self, **kw):
        M = models.Models(self.prog)
        if self.tier == 'thorough':
            kw.setdefault('timeout_ms', 900000)
        ex = interp.Exec(self.prog, M, **kw)
        self.execs.append(ex)
        return ex, M

    def add(self, ob):
        self.obligations.append(ob)
        return ob

    # ---- verdicts
    def finish(self):
        known = known_findings(self.prop)
        rc = 0
        lines = []
        for ob in self.obligations:
            if ob.kind == 'witness':
                if ob.verdict != 'witness-ok':
                    self.inconclusive.append('vacuity witness failed: %s (%s)' % (ob.name, ob.detail))
                continue
            if ob.verdict == 'violated':
                role = ob.role or ob.name
                if role in known:
                    ob.verdict = 'known-finding'
                    self.known_hit.append(role)
                    lines.append('KNOWN-FINDING: property=%s %s: %s' % (self.prop, role, known[role] or ob.detail))
                else:
                    self.violations.append((role, ob.replay if hasattr(ob, 'replay') else '', ob.detail))
            elif ob.verdict in ('inconclusive', None):
                self.inconclusive.append('%s: %s' % (ob.name, ob.detail))
        for role, rp, text in self.violations:
            lines.append('VIOLATION property=%s replay=%s' % (self.prop, rp or os.path.join(EVID, '%s.json' % self.prop)))
            lines.append('  role=%s %s' % (role, text[:300]))
        if self.violations:
            rc = 1
        elif self.inconclusive:
            rc = 2
        self.write_evidence(rc)
        try:
            from checks import replay
            replay.cleanup()
        except Exception:
            pass
        for ln in lines:
            print(ln)
        n_ok = sum(1 for o in self.obligations if o.verdict in ('holds', 'witness-ok'))
        print('%s tier=%s obligations=%d discharged=%d known-findings=%d violations=%d inconclusive=%d wall=%.1fs' % (
            self.prop, self.tier, len(self.obligations), n_ok, len(self.known_hit), len(self.violations),
            len(self.inconclusive), time.time() - self.t0))
        for m in self.inconclusive[:10]:
            print('INCONCLUSIVE %s' % m[:400])
        return rc

    def write_evidence(self, rc):
        os.makedirs(EVID, exist_ok=True)
        paths = sum(e.stats.paths for e in self.execs)
        blocks = sum(e.stats.blocks for e in self.execs)
        queries = sum(e.stats.queries for e in self.execs) + sum(o.queries for o in self.obligations)
        solver_s = sum(e.stats.solver_s for e in self.execs) + self.extra.get('solver_s_extra', 0.0)
        bodies, covered, models_used, uninterp = {}, {}, set(), set()
        for e in self.execs:
            bodies.update(e.stats.bodies)
            for k, v in e.stats.blocks_hit.items():
                covered.setdefault(k, set()).update(v)
            models_used |= e.stats.models
            uninterp |= e.stats.uninterp
        cov = {}
        for name, hit in covered.items():
            b = self.prog.bodies.get(name)
            if b is not None:
                non_cleanup = [n for n, blk in b.blocks.items() if not blk.cleanup]
                cov[name] = '%d/%d' % (len([h for h in hit if h in non_cleanup]), len(non_cleanup))
        n_ok = sum(1 for o in self.obligations if o.verdict in ('holds', 'witness-ok', 'known-finding'))
        samples = self.samples or [o.as_dict() for o in self.obligations[:12]]
        ev = {
            'property_id': self.prop,
            'tier': self.tier,
            'seed': self.seed,
            'level': 'model_checking',
            'coverage': {
                'states': max(paths, 1),
                'transitions': max(blocks, 1),
                'traces_validated_against_impl': self.replays,
                'samples': samples,
                'obligations': len(self.obligations),
                'discharged': n_ok,
                'checker_cmd': ' '.join(sys.argv),
                'trusted_base': self.trusted,
                'explanation': 'bounded symbolic execution of the MIR of the functions listed in mir_bodies; '
                               'states = feasible paths explored, transitions = MIR basic blocks executed on them; '
                               'every obligation is decided by z3 (unsat of path-condition AND NOT post) on every path',
                'exhaustive': False,
                'mir_bodies': bodies,
                'blocks_covered': cov,
                'models_used': sorted(models_used),
                'havoced_callees': sorted(uninterp),
                'solver_queries': queries,
                'solver_time_s': round(solver_s, 3),
                'frontend': self.meta,
                'all_obligations': [o.as_dict() for o in self.obligations],
                'known_findings_hit': self.known_hit,
                'inconclusive': self.inconclusive,
                'replay_files': self.replay_files,
            },
            'assumptions': self.assumptions,
            'wall_s': round(time.time() - self.t0, 2),
            'violations': len(self.violations),
        }
        ev['coverage'].update(self.extra)
        with open(os.path.join(EVID, '%s.json' % self.prop), 'w') as f:
            json.dump(ev, f, indent=1, default=str)


def main(prop, body):
    """Run `body(check)`; map exceptions to the inconclusive exit code 2."""
    chk = Check(prop)
    try:
        chk.load()
        body(chk)
        rc = chk.finish()
    except Inconclusive as e:
        traceback.print_exc()
        chk.inconclusive.append('encoder: %s' % e)
        try:
            chk.write_evidence(2)
        except Exception:
            traceback.print_exc()
        print('INCONCLUSIVE %s: %s' % (prop, e))
        rc = 2
    except Exception as e:  # noqa
        traceback.print_exc()
        chk.inconclusive.append('internal error: %r' % e)
        try:
            chk.write_evidence(2)
        except Exception:
            traceback.print_exc()
        print('INCONCLUSIVE %s: internal error %r' % (prop, e))
        rc = 2
    sys.exit(rc)


def model_dict(model, terms):
    """Evaluate named terms in a z3 model -> plain dict."""
    out = {}
    for k, t in terms.items():
        try:
            v = model.eval(t, model_completion=True)
            if z3.is_bv_value(v):
                out[k] = v.as_long()
            elif z3.is_true(v):
                out[k] = True
            elif z3.is_false(v):
                out[k] = False
            else:
                out[k] = str(v)
        except Exception as e:  # noqa
            out[k] = '?%s' % e
    return out
