"""C18 - retry options resolve by nearest tag, then CLI, then builder, then defaults.

Kernels: RetryOptions::parse_from_tags with its apply_cli closure tree (real MIR); the per-tag text parser
(`parse_tags`: strip_prefix / split_once / parse / humantime) is an abstraction knob: for each of the three tag lists
it returns an arbitrary Option<(Option<usize>, Option<Duration>)>.  TagOperation::eval is replaced by a recorder that
returns an arbitrary Boolean and logs the tags it was given (its own semantics are decided under C15).
Runner::run prefix: the values handed to insert_features / execute.
"""
import z3

from checks import common, tagsets
from checks.common import Obligation
from mirsmt.values import Cell, Lazy, Adt, Ref, Obj, UNIT, bv
from mirsmt.interp import Inconclusive, PathEnd


class OptV:
    def __init__(self, name, pay_sorts=1):
        self.d = z3.BitVec(name + '.d', 64)
        self.v = z3.BitVec(name + '.v', 64)


@common.part
def parse_from_tags(chk):
    prog = chk.prog
    t = prog.tables
    body = common.find_method(prog, 'RetryOptions', 'parse_from_tags')
    pt = prog.bodies.get(body.name + '::{closure#0}')
    if pt is None:
        raise Inconclusive('parse_tags closure not found')
    CLI = {n: t.struct_fields('runner::basic::Cli').index(n) for n in ('concurrency', 'fail_fast', 'retry', 'retry_after', 'retry_tag_filter')}
    RO = {n: t.struct_fields('runner::basic::RetryOptions').index(n) for n in ('retries', 'after')}
    R = {n: t.struct_fields('event::Retries').index(n) for n in ('current', 'left')}
    obs = {}
    bound = 'every path of parse_from_tags (+ apply_cli closures); rule present/absent; per level: tag absent | present with/without count and delay (all 64-bit values); CLI retry / retry_after / filter present or absent; filter verdict arbitrary'

    def ob(name):
        if name not in obs:
            obs[name] = chk.add(Obligation('C18.parse_from_tags.%s' % name, bound))
            obs[name].verdict = 'holds'
        return obs[name]
    npaths = [0]
    for has_rule in (False, True):
        ex, M = chk.new_exec(loop_bound=8)
        lv = {}
        for lvl in ('scenario', 'rule', 'feature'):
            lv[lvl] = dict(d=z3.BitVec(lvl + '.tag.d', 64), nd=z3.BitVec(lvl + '.tag.n.d', 64), n=z3.BitVec(lvl + '.tag.n', 64),
                           ad=z3.BitVec(lvl + '.tag.after.d', 64), a=z3.BitVec(lvl + '.tag.after', 64))
        cli_retry_d, cli_retry, cli_after_d, cli_after, cli_filter_d = z3.BitVecs('cli.retry.d cli.retry cli.retry_after.d cli.retry_after cli.filter.d', 64)
        matches = z3.Bool('filter.matches')

        def parse_tags_hook(ex_, b, args, lv=lv, M=M):
            r = ex_.materialize(args[1])
            inner = ex_.read_path(r.cell, r.path) if isinstance(r, Ref) else None
            name = None
            if isinstance(r, Ref):
                name = r.cell.name
            M.log(ex_, 'parse_tags', level=name)
            if name not in ('scn', 'rule', 'feat'):
                raise Inconclusive('parse_tags called on %r' % (name,))
            L = lv[{'scn': 'scenario', 'rule': 'rule', 'feat': 'feature'}[name]]
            tup = Adt('(Option<usize>, Option<Duration>)', {(None, 0): Adt('Option<usize>', {(1, 0): L['n']}, L['nd']),
                                                            (None, 1): Adt('Option<std::time::Duration>', {(1, 0): L['a']}, L['ad'])})
            return Adt('Option<(Option<usize>, Option<Duration>)>', {(1, 0): tup}, L['d'])
        M.body_hooks[pt.name] = parse_tags_hook

        def eval_model(ex_, info, a, dty, M=M, matches=matches):
            items = M.seq_of(ex_, a[1])
            names = []
            for it in items:
                s = ex_.materialize(it)
                while isinstance(s, Ref):
                    s = ex_.materialize(ex_.read_path(s.cell, s.path))
                names.append(s.name if isinstance(s, Obj) and s.kind == 'symstr' else repr(s))
            M.log(ex_, 'eval', tags=names)
            return matches
        M.table['Ext::eval'] = eval_model

        def run(ex_, has_rule=has_rule, lv=lv, M=M):
            for L in lv.values():
                ex_.add(z3.And(z3.ULT(L['d'], bv(2)), z3.ULT(L['nd'], bv(2)), z3.ULT(L['ad'], bv(2))))
            ex_.add(z3.And(z3.ULT(cli_retry_d, bv(2)), z3.ULT(cli_after_d, bv(2)), z3.ULT(cli_filter_d, bv(2))))
            f = Ref(Cell(tagsets.gherkin_node(prog, 'gherkin::Feature', 'feat', ['feature.tag0']), name='feat'), ())
            s = Ref(Cell(tagsets.gherkin_node(prog, 'gherkin::Scenario', 'scn', ['scenario.tag0']), name='scn'), ())
            if has_rule:
                r = Adt('Option<&gherkin::Rule>', {(1, 0): Ref(Cell(tagsets.gherkin_node(prog, 'gherkin::Rule', 'rule', ['rule.tag0']), name='rule'), ())}, 1)
            else:
                r = Adt('Option<&gherkin::Rule>', {}, 0)
            cli = Adt('runner::basic::Cli', {
                (None, CLI['concurrency']): Lazy('Option<usize>', 'cli.concurrency'), (None, CLI['fail_fast']): z3.Bool('cli.fail_fast'),
                (None, CLI['retry']): Adt('Option<usize>', {(1, 0): cli_retry}, cli_retry_d),
                (None, CLI['retry_after']): Adt('Option<std::time::Duration>', {(1, 0): cli_after}, cli_after_d),
                (None, CLI['retry_tag_filter']): Adt('Option<TagOperation>', {(1, 0): Lazy('TagOperation', 'filter')}, cli_filter_d)})
            out = ex_.call_body(body, [f, r, s, Ref(Cell(cli, name='cli'), ())])
            return {'out': ex_.materialize(out), 'log': list(ex_.env.get('log', []))}

        def on_end(ex_, rec, has_rule=has_rule, lv=lv, M=M):
            kind, res, pc, dec = rec
            npaths[0] += 1
            if kind != 'ok':
                o = ob('completes')
                o.verdict = 'inconclusive' if kind in ('loopbound', 'unreachable') else 'violated'
                o.detail = '%s: %s' % (kind, res)
                return
            out, log = res['out'], res['log']
            terms = {'rule_present': z3.BoolVal(has_rule), 'cli.retry.d': cli_retry_d, 'cli.retry': cli_retry, 'cli.retry_after.d': cli_after_d,
                     'cli.filter.d': cli_filter_d, 'filter.matches': matches}
            for k, L in lv.items():
                terms.update({k + '.tag': L['d'], k + '.tag.n.d': L['nd'], k + '.tag.n': L['n'], k + '.tag.after.d': L['ad']})

            def refute(o, claim):
                o.paths += 1
                o.queries += 1
                if ex_.check(z3.Not(claim)):
                    if o.verdict != 'violated':
                        o.verdict = 'violated'
                        o.model = common.model_dict(ex_.solver.model(), terms)
                        o.detail = 'counterexample'
            S, Rl, F = lv['scenario'], lv['rule'], lv['feature']
            use_s = S['d'] == bv(1)
            use_r = z3.And(z3.Not(use_s), z3.BoolVal(has_rule), Rl['d'] == bv(1))
            use_f = z3.And(z3.Not(use_s), z3.Not(use_r), F['d'] == bv(1))
            tagged = z3.Or(use_s, use_r, use_f)

            def pick(key):
                return z3.If(use_s, S[key], z3.If(use_r, Rl[key], F[key]))
            matched = z3.If(cli_filter_d == bv(1), matches, z3.Or(cli_retry_d == bv(1), cli_after_d == bv(1)))
            d = M.discr(ex_, out)
            refute(ob('retried-iff-tagged-or-filter-or-cli-setting'), (d == bv(1)) == z3.Or(tagged, matched))
            if ex_.check(d == bv(1)):
                ro = ex_.materialize(ex_.field_of(out, 1, 0, 'runner::basic::RetryOptions'))
                rr = ex_.materialize(ex_.field_of(ro, None, RO['retries'], 'event::Retries'))
                cur = ex_.materialize(ex_.field_of(rr, None, R['current'], 'usize'), 'usize')
                left = ex_.materialize(ex_.field_of(rr, None, R['left'], 'usize'), 'usize')
                want_n = z3.If(z3.And(tagged, pick('nd') == bv(1)), pick('n'), z3.If(cli_retry_d == bv(1), cli_retry, bv(1)))
                refute(ob('budget=nearest-tag-count-else-cli-else-1'), z3.Implies(d == bv(1), z3.And(cur == bv(0), left == want_n)))
                av = ex_.materialize(ex_.field_of(ro, None, RO['after'], 'Option<std::time::Duration>'))
                ad = M.discr(ex_, av)
                tag_after = z3.And(tagged, pick('ad') == bv(1))
                want_ad = z3.If(z3.Or(tag_after, cli_after_d == bv(1)), bv(1), bv(0))
                c = [ad == want_ad]
                if ex_.check(ad == bv(1)):
                    c.append(z3.Implies(ad == bv(1), ex_.materialize(ex_.field_of(av, 1, 0, 'std::time::Duration'), 'std::time::Duration') ==
                                        z3.If(tag_after, pick('a'), cli_after)))
                refute(ob('delay=nearest-tag-delay-else-cli'), z3.Implies(d == bv(1), z3.And(*c)))
            # the filter sees scenario + rule + feature tags
            ev = [e for e in log if e['kind'] == 'eval']
            o = ob('filter-evaluated-over-all-inherited-tags')
            o.paths += 1
            want = {'scenario.tag0', 'feature.tag0'} | ({'rule.tag0'} if has_rule else set())
            for e in ev:
                if set(e['tags']) != want or len(e['tags']) != len(want):
                    o.verdict = 'violated'
                    o.detail = 'filter evaluated over %s, inherited tags are %s' % (sorted(e['tags']), sorted(want))
                    o.model = {'rule_present': has_rule, 'tags_seen_by_filter': sorted(e['tags'])}
            if len(ev) > 1:
                o.verdict = 'violated'
                o.detail = 'filter evaluated %d times' % len(ev)
            # nearest level: a farther level's tags are parsed only if the nearer ones have no retry tag (no effect on result) - order recorded
        ex.explore(run, on_end)
    bad = [o for o in obs.values() if o.verdict == 'violated']
    if bad:
        confirm_parse_from_tags(chk, bad)
    w = chk.add(Obligation('C18.parse_from_tags.witness', 'exploration'))
    w.kind = 'witness'
    w.verdict = 'witness-ok' if npaths[0] >= 20 and 'filter-evaluated-over-all-inherited-tags' in obs else 'witness-missing'
    w.detail = '%d paths' % npaths[0]
    chk.assumptions += ['parse_tags (tag text grammar: strip_prefix/split_once/parse/humantime) abstracted: arbitrary result per tag list; for the four documented tag shapes the real parser is decided separately (retry_tag_text: unknown count / delay texts); other texts: pinned only by the repo\'s nine retry_options unit tests',
                        'TagOperation::eval replaced by a recorder returning an arbitrary Boolean (its semantics: C15)']


def confirm_parse_from_tags(chk, bad):
    """Differential replay of the real (public) RetryOptions::parse_from_tags on a grid of features x CLI settings
    against an independent reference implementation of the property statement."""
    import itertools
    import os
    from checks import replay
    lines = ['mode retry_options']
    cases = []
    tagsets_ = [None, 'retry', 'retry(3)', 'retry.after(2s)', 'retry(4).after(3s)']
    for rule in (0, 1):
        for st, rt, ft in itertools.product(tagsets_, tagsets_ if rule else [None], tagsets_):
            for flaky in ('none', 'scenario', 'rule', 'feature'):
                if flaky == 'rule' and not rule:
                    continue
                for cli in ('-', 'retry=5', 'after=7', 'filter=@flaky', 'filter=not_@flaky', 'retry=5,filter=@flaky'):
                    cases.append((rule, st, rt, ft, flaky, cli))
    cases = cases[::3]
    for (rule, st, rt, ft, flaky, cli) in cases:
        lines.append('case rule=%d stag=%s rtag=%s ftag=%s flaky=%s cli=%s' % (rule, st or '-', rt or '-', ft or '-', flaky, cli))
    d = os.path.join(common.EVID, 'replay')
    os.makedirs(d, exist_ok=True)
    path = os.path.join(d, 'C18-parse-from-tags.script')
    res, out = replay.run_script('\n'.join(lines) + '\n', path, timeout=300)
    chk.replays += 1
    got = [ln.split()[1:] for ln in out.splitlines() if ln.startswith('CASE ')]

    def parse(tag):
        if tag is None:
            return None
        n = None
        a = None
        import re
        m = re.match(r'retry(?:\((\d+)\))?(?:\.after\((\d+)s\))?$', tag)
        n = int(m.group(1)) if m.group(1) else None
        a = int(m.group(2)) if m.group(2) else None
        return (n, a)
    devs = []
    for c, g in zip(cases, got):
        rule, st, rt, ft, flaky, cli = c
        opts = dict(x.split('=', 1) for x in cli.split(',') if '=' in x)
        tag = parse(st) or (parse(rt) if rule else None) or parse(ft)
        inherited = flaky != 'none'
        if 'filter' in opts:
            m = inherited if opts['filter'] == '@flaky' else (not inherited)
        else:
            m = 'retry' in opts or 'after' in opts
        if tag is None and not m:
            exp = 'none'
        else:
            n = (tag[0] if tag and tag[0] is not None else None)
            n = n if n is not None else (int(opts['retry']) if 'retry' in opts else 1)
            a = (tag[1] if tag and tag[1] is not None else None)
            a = a if a is not None else (int(opts['after']) if 'after' in opts else None)
            exp = 'left=%d,after=%s' % (n, '-' if a is None else a)
        real = g[0] if g else '?'
        if real != exp:
            devs.append((c, real, exp))
    for o in bad:
        if len(got) != len(cases):
            o.verdict = 'inconclusive'
            o.detail += ' | native replay failed (%d of %d cases): %s' % (len(got), len(cases), out[-300:])
        elif devs:
            o.replay = path
            if path not in chk.replay_files:
                chk.replay_files.append(path)
            o.detail += ' | reproduced natively: the real parse_from_tags deviates from the reference on %d of %d cases, e.g. %s -> real %s, reference %s' % (len(devs), len(cases), devs[0][0], devs[0][1], devs[0][2])
        else:
            o.verdict = 'inconclusive'
            o.detail += ' | native differential replay (%d cases) follows the reference - counterexample not reproduced' % len(cases)


def body(chk):
    parse_from_tags(chk)
    from checks import run_prefix
    run_prefix.obligations(chk, 'C18')
    # the retry tag filter's verdict is TagOperation::eval's (a recorder above): its semantics, the empty tag list included
    from checks import c15
    c15.eval_obligation(chk, 'C18', {})
    from checks import builder_defaults
    builder_defaults.setters(chk, 'C18', which=('retries', 'retry_after', 'max_concurrent_scenarios', 'fail_fast'))
    # CLI options installed through Cucumber::with_cli() survive the builder methods called afterwards
    from checks import cucumber_builders
    cucumber_builders.obligations(chk, 'C18')
    from checks import runner_builders
    runner_builders.obligations(chk, 'C18', fields=('retries', 'retry_after', 'max_concurrent_scenarios', 'fail_fast'))
    # the text grammar of the four documented tag shapes (the kernels above range over every RESULT of the per-tag parser)
    from checks import retry_tag_text
    retry_tag_text.obligations(chk, 'C18')
    # between the resolver and the scheduler: Features::insert stores, per scenario, what the resolver said for it in its own rule
    from checks import insert_retry
    insert_retry.obligations(chk, 'C18')
    # the nearest `@retry..` tag of a row expanded from an outline is its Examples block's: what expansion hands down
    from checks import c16
    c16.obligations(chk, 'C18')
    # the resolved delay is carried from attempt to attempt unchanged (RetryOptions::next_try and the queue's round trip)
    from checks import c05
    c05.kernels(chk, 'C18')


if __name__ == '__main__':
    common.main('C18', body)
