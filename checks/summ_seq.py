"""Sequence-level obligations over the transition relation extracted from the real
Summarize::handle_scenario MIR (BMC; no enumeration of sequences)."""
import time

import z3

from checks import common, summ
from checks.common import Obligation
from mirsmt.values import bv
from mirsmt.interp import Inconclusive

BV = z3.BitVecSort(64)


def _free_consts(t, acc=None, seen=None):
    acc = acc if acc is not None else {}
    seen = seen if seen is not None else set()
    st = [t]
    while st:
        x = st.pop()
        if x.get_id() in seen:
            continue
        seen.add(x.get_id())
        if z3.is_const(x) and x.decl().kind() == z3.Z3_OP_UNINTERPRETED:
            acc[str(x)] = x
        else:
            st.extend(x.children())
    return acc


class _Q:
    """Constraint set decided by a fresh QF_BV solver per query (non-incremental: full preprocessing)."""

    def __init__(self, timeout_ms):
        self.cs = []
        self.stack = []
        self.timeout = timeout_ms
        self.last = None

    def add(self, *c):
        self.cs.extend(c)

    def push(self):
        self.stack.append(len(self.cs))

    def pop(self):
        del self.cs[self.stack.pop():]

    def check(self, *extra):
        s = z3.SolverFor('QF_BV')
        s.set('timeout', self.timeout)
        s.add(*self.cs)
        s.add(*extra)
        self.last = s
        return s.check()

    def model(self):
        return self.last.model()

    def reason_unknown(self):
        return self.last.reason_unknown()

    def to_smt2(self):
        return self.last.to_smt2()


class Trans:
    """T(S, P, V, E) built from the path records of the kernel exploration."""

    def __init__(self, H, records):
        self.H = H
        self.P = z3.Bool('M.present')
        self.V = z3.BitVec('M.ind', 64)
        sub = []
        if records:
            sub = [(records[0]['pk0'], self.P), (records[0]['vk0'], self.V)]
        self.recs = []
        allowed = set(str(v) for v in H.pre.vars() + H.ev.vars()) | {'M.present', 'M.ind'}
        for r in records:
            pc = z3.substitute(r['pc'], *sub)
            post = {n: z3.substitute(t, *sub) for n, t in r['post'].items()}
            pk1 = z3.substitute(r['pk1'], *sub)
            vk1 = z3.substitute(r['vk1'], *sub)
            for t in [pc, pk1, vk1] + list(post.values()):
                extra = set(_free_consts(t)) - allowed - {'K.f', 'K.r', 'K.s', 'K.r_d'}
                if extra:
                    raise Inconclusive('transition relation depends on unexpected symbols: %s' % sorted(extra)[:5])
            self.recs.append((pc, post, pk1, vk1))

    def inputs(self):
        H = self.H
        return H.pre.vars() + [self.P, self.V] + H.ev.vars()

    def apply(self, counters, P, V, ev):
        """-> (new counters dict, P', V', covered) by substitution into the ite-chain."""
        H = self.H
        sub = list(zip(H.pre.vars(), [counters[n] for n in summ.COUNTERS])) + [(self.P, P), (self.V, V)] + \
            list(zip(H.ev.vars(), ev.vars()))
        new = {n: counters[n] for n in summ.COUNTERS}
        P1, V1 = P, V
        cov = []
        for pc, post, pk1, vk1 in reversed(self.recs):
            c = z3.substitute(pc, *sub)
            cov.append(c)
            for n in summ.COUNTERS:
                new[n] = z3.If(c, z3.substitute(post[n], *sub), new[n])
            P1 = z3.If(c, z3.substitute(pk1, *sub), P1)
            V1 = z3.If(c, z3.substitute(vk1, *sub), V1)
        return new, P1, V1, z3.Or(*cov) if cov else z3.BoolVal(False)


def additivity(chk, H, records, prop):
    """Counter deltas and map'[k] depend on (event, map[k]) only: two copies differing in all counters."""
    T = Trans(H, records)
    o = chk.add(Obligation('%s.additivity-deltas-independent-of-other-state' % prop,
                           'all kernel paths; two pre-states that agree on the scenario\'s map entry and differ in every counter'))
    s = z3.Solver()
    s.set('timeout', 120000)
    c1 = {n: z3.BitVec('A.%s' % n, 64) for n in summ.COUNTERS}
    c2 = {n: z3.BitVec('B.%s' % n, 64) for n in summ.COUNTERS}
    for c in (c1, c2):
        for v in c.values():
            s.add(z3.ULT(v, bv(1 << 62)), z3.UGE(v, bv(1)))
    ev = H.ev
    s.add(ev.well_formed(H.ix))
    n1, P1, V1, cov1 = T.apply(c1, T.P, T.V, ev)
    n2, P2, V2, cov2 = T.apply(c2, T.P, T.V, ev)
    diff = z3.Or(*([(n1[n] - c1[n]) != (n2[n] - c2[n]) for n in summ.COUNTERS] + [P1 != P2, z3.And(P1, V1 != V2)]))
    s.add(cov1, cov2, diff)
    t0 = time.time()
    r = s.check()
    o.queries = 1
    chk.extra['solver_s_extra'] = chk.extra.get('solver_s_extra', 0.0) + time.time() - t0
    if r == z3.unsat:
        o.verdict = 'holds'
    elif r == z3.sat:
        o.verdict = 'violated'
        o.detail = 'delta depends on unrelated state'
        o.model = {str(d): str(s.model()[d]) for d in s.model().decls()[:30]}
    else:
        o.verdict = 'inconclusive'
        o.detail = 'solver: %s' % s.reason_unknown()
    return T


def sequence_obligations(chk, H, records, prop, attempts=2, steps=2):
    """BMC: one scenario, `attempts` attempts, <= steps+1 step-result events per attempt (bg + own)."""
    ix = H.ix
    T = Trans(H, records)
    per_attempt = 1 + (steps + 1) + 1 + 1      # BH failed | step results | AH failed | Finished
    L = attempts * per_attempt
    s = _Q(600000 if chk.tier == 'thorough' else 240000)
    N = z3.BitVec('cfg.N', 64)              # retry budget
    has_ret = z3.Bool('cfg.has_retries')
    n_own = z3.BitVec('cfg.n_own', 64)      # number of own steps of the scenario
    s.add(z3.ULE(N, bv(attempts - 1)), z3.ULE(n_own, bv(steps)))
    counters = {n: bv(0) for n in summ.COUNTERS}
    P, V = z3.BoolVal(False), bv(0)
    # automaton state
    att, phase, failed, own, in_own = bv(0), bv(0), z3.BoolVal(False), bv(0), z3.BoolVal(False)
    # facts about the attempt in progress (for the oracle)
    a_stepfail, a_skip, a_hookfail = z3.BoolVal(False), z3.BoolVal(False), z3.BoolVal(False)
    l_stepfail, l_skip, l_hookfail = a_stepfail, a_skip, a_hookfail   # of the last completed attempt
    done = z3.BoolVal(False)
    any_hook_fail_nonfinal = z3.BoolVal(False)
    any_retried_step = z3.BoolVal(False)
    evs = []
    covered_all = []
    for i in range(L):
        E = summ.SymEvent('E%d' % i)
        evs.append(E)
        act = z3.Bool('act%d' % i)
        s.add(E.well_formed(ix))
        s.add(act == z3.Not(done))                     # events until the scenario is done, then padding
        left = N - att
        s.add(z3.Implies(act, z3.And(E.ret == z3.If(has_ret, bv(1), bv(0)), E.cur == att, E.left == left)))
        s.add(E.has_last == z3.UGT(n_own, bv(0)))
        is_bh_fail = z3.And(E.hook_failed(ix), phase == bv(0))
        is_step = z3.And(E.is_step_ev(ix), E.step != bv(ix.Step['Started']))
        is_own = E.sc == bv(ix.Sc['Step'])
        can_finish = z3.Or(phase == bv(2), phase == bv(3), z3.And(z3.ULE(phase, bv(1)), own == n_own))
        is_ah_fail = z3.And(E.hook_failed(ix), phase != bv(0), phase != bv(3), can_finish)
        is_fin = z3.And(E.finished(ix), can_finish)
        step_ok = z3.And(is_step, z3.ULE(phase, bv(1)),
                         z3.Implies(z3.Not(is_own), z3.Not(in_own)),      # background steps come first
                         z3.Implies(is_own, z3.ULT(own, n_own)),          # at most n_own own steps
                         z3.Implies(z3.Not(is_own), z3.Not(E.eq_last)),
                         z3.Implies(is_own, E.eq_last == (own + 1 == n_own)))
        # BH failure may also be followed directly by AH failure: allow hook-failed in phase 0 to be either
        s.add(z3.Implies(act, z3.Or(is_bh_fail, step_ok, is_ah_fail, is_fin)))
        new, P1, V1, cov = T.apply(counters, P, V, E)
        covered_all.append(z3.Implies(act, cov))
        counters = {n: z3.If(act, new[n], counters[n]) for n in summ.COUNTERS}
        P, V = z3.If(act, P1, P), z3.If(act, V1, V)
        # automaton update
        stepfail = z3.And(step_ok, E.step == bv(ix.Step['Failed']))
        stepfail_runner = z3.And(stepfail, E.err != bv(ix.Err['NotFound']))
        stepskip = z3.And(step_ok, E.step == bv(ix.Step['Skipped']))
        steppass = z3.And(step_ok, E.step == bv(ix.Step['Passed']))
        hookfail = z3.Or(is_bh_fail, is_ah_fail)
        nfailed = z3.Or(failed, stepfail_runner, hookfail)
        retry = z3.And(is_fin, nfailed, has_ret, z3.UGT(left, bv(0)))
        any_hook_fail_nonfinal = z3.Or(any_hook_fail_nonfinal, z3.And(act, hookfail, has_ret, z3.UGT(left, bv(0))))
        any_retried_step = z3.Or(any_retried_step, z3.And(act, stepfail_runner, has_ret, z3.UGT(left, bv(0))))
        a_stepfail2 = z3.Or(a_stepfail, z3.And(act, stepfail))
        a_skip2 = z3.Or(a_skip, z3.And(act, stepskip))
        a_hookfail2 = z3.Or(a_hookfail, z3.And(act, hookfail))
        fin_now = z3.And(act, is_fin)
        l_stepfail = z3.If(fin_now, a_stepfail2, l_stepfail)
        l_skip = z3.If(fin_now, a_skip2, l_skip)
        l_hookfail = z3.If(fin_now, a_hookfail2, l_hookfail)
        done = z3.Or(done, z3.And(fin_now, z3.Not(retry)))
        nphase = z3.If(is_fin, bv(0),
                       z3.If(is_bh_fail, bv(2),
                             z3.If(is_ah_fail, bv(3),
                                   z3.If(z3.Or(stepfail, stepskip), bv(2), bv(1)))))
        phase = z3.If(act, nphase, phase)
        att = z3.If(z3.And(act, retry), att + 1, att)
        failed = z3.If(act, z3.If(is_fin, z3.BoolVal(False), nfailed), failed)
        own = z3.If(act, z3.If(is_fin, bv(0), z3.If(z3.And(steppass, is_own), own + 1, own)), own)
        in_own = z3.If(act, z3.If(is_fin, z3.BoolVal(False), z3.Or(in_own, z3.And(step_ok, is_own))), in_own)
        a_stepfail = z3.If(fin_now, z3.BoolVal(False), a_stepfail2)
        a_skip = z3.If(fin_now, z3.BoolVal(False), a_skip2)
        a_hookfail = z3.If(fin_now, z3.BoolVal(False), a_hookfail2)
    s.add(done)
    s.add(*covered_all)
    one = lambda c: z3.If(c, bv(1), bv(0))  # noqa
    failedF = z3.Or(l_stepfail, l_hookfail)
    skippedF = z3.And(l_skip, z3.Not(l_hookfail))
    passedF = z3.And(z3.Not(failedF), z3.Not(skippedF))
    good = z3.And(counters['sc_failed'] == one(failedF), counters['sc_skipped'] == one(skippedF),
                  counters['sc_passed'] == one(passedF), z3.ULE(counters['sc_retried'], bv(1)))
    bound = 'one scenario, <= %d attempts (retry budget <= %d), <= %d own steps + background steps, <= %d result events per attempt, from the initial summariser state' % (
        attempts, attempts - 1, steps, steps + 1)
    # vacuity witness: a complete 2-attempt sequence exists
    w = chk.add(Obligation('%s.seq.witness-complete-sequence' % prop, bound))
    w.kind = 'witness'
    t0 = time.time()
    r = s.check(att == bv(attempts - 1))
    w.queries = 1
    w.verdict = 'witness-ok' if r == z3.sat else 'witness-missing'
    w.detail = 'a contract-abiding sequence using all %d attempts exists: %s' % (attempts, r)

    def describe(m):
        seq = []
        for i, E in enumerate(evs):
            if not z3.is_true(m.eval(z3.Bool('act%d' % i), model_completion=True)):
                continue
            g = lambda t: m.eval(t, model_completion=True).as_long()  # noqa
            sc = g(E.sc)
            names = {v: k for k, v in ix.Sc.items()}
            d = {'ev': names.get(sc, sc), 'retries': None if g(E.ret) == 0 else {'current': g(E.cur), 'left': g(E.left)}}
            if names.get(sc) == 'Hook':
                d['hook'] = {v: k for k, v in ix.Hook.items()}[g(E.hook)]
            if names.get(sc) in ('Step', 'Background'):
                d['step'] = {v: k for k, v in ix.Step.items()}[g(E.step)]
                if d['step'] == 'Failed':
                    d['err'] = {v: k for k, v in ix.Err.items()}[g(E.err)]
                d['is_last_own_step'] = bool(z3.is_true(m.eval(z3.And(E.has_last, E.eq_last), model_completion=True)))
                d['looks_like_last_own_step'] = bool(z3.is_true(m.eval(z3.And(E.has_last, E.same_ty, E.same_text), model_completion=True)))
            seq.append(d)
        cnt = {n: m.eval(counters[n], model_completion=True).as_long() for n in summ.COUNTERS}
        return {'n_own_steps': m.eval(n_own, model_completion=True).as_long(), 'events': seq, 'predicted_counters': cnt}

    # roles of the known defects (conditions over the symbolic sequence)
    roles = [
        ('hook-failure-in-retried-attempt', any_hook_fail_nonfinal),
        ('hook-only-failure-after-retried-step', z3.And(z3.Not(any_hook_fail_nonfinal), any_retried_step, l_hookfail, z3.Not(l_stepfail), z3.Not(l_skip))),
        ('retried-then-passed-without-last-own-step', z3.And(z3.Not(any_hook_fail_nonfinal), any_retried_step, passedF, n_own == bv(0))),
    ]
    excl = []
    out = []
    for role, cond in roles + [('scenario-classification', z3.BoolVal(True))]:
        o = chk.add(Obligation('%s.seq.classified-once[%s]' % (prop, role), bound))
        s.push()
        s.add(z3.Not(good), cond, *[z3.Not(e) for e in excl])
        r = s.check()
        o.queries = 1
        if r == z3.unsat:
            o.verdict = 'holds'
        elif r == z3.sat:
            o.verdict = 'violated'
            o.role = role
            o.model = describe(s.model())
            o.detail = 'scenario counted %s' % {k: v for k, v in o.model['predicted_counters'].items() if k.startswith('sc_')}
        else:
            o.verdict = 'inconclusive'
            o.detail = 'solver: %s' % s.reason_unknown()
        s.pop()
        if o.verdict == 'violated':
            confirm_native(chk, o, prop, role)
        excl.append(cond)
        out.append(o)
    chk.extra['solver_s_extra'] = chk.extra.get('solver_s_extra', 0.0) + time.time() - t0
    chk.extra['bmc'] = {'positions': L, 'attempts': attempts, 'own_steps_max': steps, 'kernel_paths': len(T.recs)}
    return out


def to_script(cex):
    """counterexample (describe()) -> replay script for `mode summarize`."""
    lines = ['mode summarize']
    nbg, cur_bg, cur_own = 0, 0, 0
    body = []
    dups = set()
    for e in cex['events']:
        r = 'r=-' if e['retries'] is None else 'r=%d/%d' % (e['retries']['current'], e['retries']['left'])
        k = e['ev']
        if k == 'Finished':
            body.append('ev finished %s' % r)
            cur_bg, cur_own = 0, 0
        elif k == 'Started':
            body.append('ev started %s' % r)
        elif k == 'Hook':
            body.append('ev hook after %s %s' % (e['hook'].lower(), r))
        elif k in ('Background', 'Step'):
            kind = e['step'].lower()
            err = (' ' + e['err'].lower()) if kind == 'failed' else ''
            if err.strip() == 'ambiguousmatch':
                err = ' ambiguous'
            if k == 'Background':
                if e.get('looks_like_last_own_step') and not e.get('is_last_own_step'):
                    dups.add('bgdup %d' % cur_bg)
                body.append('ev bg %d %s%s %s' % (cur_bg, kind, err, r))
                cur_bg += 1
                nbg = max(nbg, cur_bg)
            else:
                if e.get('looks_like_last_own_step') and not e.get('is_last_own_step'):
                    dups.add('dup %d' % cur_own)
                body.append('ev step %d %s%s %s' % (cur_own, kind, err, r))
                cur_own += 1
    lines.append('bg %d' % nbg)
    lines.append('own %d' % cex['n_own_steps'])
    return '\n'.join(lines + sorted(dups) + body) + '\n'


def confirm_native(chk, o, prop, role):
    """Replay the counterexample against the real Summarize (dev and release profile)."""
    import os
    from checks import replay
    d = os.path.join(common.EVID, 'replay')
    os.makedirs(d, exist_ok=True)
    path = os.path.join(d, '%s-%s.script' % (prop, role))
    script = to_script(o.model)
    want = {k: v for k, v in o.model['predicted_counters'].items() if k.startswith(('sc_', 'st_')) or k in ('failed_hooks', 'parsing_errors')}
    ok_all = True
    for profile in (('dev', 'release') if chk.tier == 'thorough' else ('dev',)):
        res, out = replay.run_script(script, path, profile)
        chk.replays += 1
        if res is None or any(res.get(k) != v for k, v in want.items()):
            ok_all = False
            o.detail += ' | native replay (%s) DISAGREES: got %s' % (profile, res if res is not None else out[-300:])
    o.replay = path
    chk.replay_files.append(path)
    if ok_all:
        o.detail += ' | reproduced natively against the real Summarize: %s' % path
        o.model['native'] = 'reproduced'
    else:
        o.verdict = 'inconclusive'
