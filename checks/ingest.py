"""insert_features obligations - filled in below."""


def obligations(chk, prop):
    return []
