"""insert_features (the ingester half of the runner) polled to completion on its MIR (C03, C04, C08).

Parser stream: <= 3 items, each Ok(feature) or Err (symbolic), each ready after 0..1 extra polls.
Features::insert is replaced by a recorder (its own kernels: C05/C18 checks), count_scenarios / count_steps
are uninterpreted per feature.  Oracle: errors forwarded in order, exactly one ParsingFinished afterwards whose
counters equal what was consumed, every consumed feature inserted in order, Features::finish() called, and under
fail-fast nothing is consumed after the first error.
"""
import itertools

import z3

from checks import common, events
from checks.common import Obligation
from checks.fail_on_skipped import poll_to_completion
from mirsmt.values import Cell, Lazy, Adt, Ref, Obj, UNIT, bv
from mirsmt.interp import Inconclusive, PathEnd


@common.part
def obligations(chk, prop):
    prog = chk.prog
    ix = events.CukeIdx(prog)
    cands = [b for n, b in prog.bodies.items() if n.split('::')[-1] == 'insert_features']
    if len(cands) != 1:
        raise Inconclusive('insert_features: %d candidates' % len(cands))
    entry = cands[0]
    params = {n: int(p[1:]) - 1 for n, p in entry.debug.items() if p.startswith('_') and p[1:].isdigit() and int(p[1:]) <= len(entry.params)}
    need = ('into', 'features_stream', 'which_scenario', 'retries', 'sender')
    known = need + ('cli', 'fail_fast')
    if any(n not in params for n in need) or any(n not in known for n in params):
        raise Inconclusive('insert_features parameters %s' % sorted(params))
    from checks import run_prefix
    F = prog.tables.struct_fields('gherkin::Feature')
    PF = {v[0]: i for i, v in enumerate(prog.tables.enum_variants('event::Cucumber<W>'))}
    pf_fields = prog.tables.enum_variants('event::Cucumber<W>')[PF['ParsingFinished']][2]
    n_items = (1, 2, 3) if chk.tier == 'thorough' else (1, 2)
    obs = {}
    bound = 'every path of insert_features polled to completion; parser stream of %s items, each Ok/Err symbolic and ready after 0..1 extra polls; fail_fast symbolic; rules per feature 0..2' % (n_items,)

    def ob(name):
        if name not in obs:
            obs[name] = chk.add(Obligation('%s.insert_features.%s' % (prop, name), bound))
            obs[name].verdict = 'holds'
        return obs[name]
    np = [0]
    for n in n_items:
        for pend in itertools.product((0, 1), repeat=n):
            ex, M = chk.new_exec(loop_bound=4 * n + 8)
            # fail-fast may be given by the builder or on the command line: both symbolic; the values insert_features
            # really receives (`cli`, and `fail_fast` while it is a parameter) come from the real prefix of Basic::run
            bff, cff = z3.Bool('builder.fail_fast'), z3.Bool('cli.fail_fast')
            ff = z3.Or(bff, cff)
            res_d = [z3.BitVec('item%d.res' % i, 64) for i in range(n)]
            cs = [z3.BitVec('item%d.count_scenarios' % i, 64) for i in range(n)]
            st = [z3.BitVec('item%d.count_steps' % i, 64) for i in range(n)]

            def counts(which):
                def f(ex_, info, a, dty, which=which):
                    r = ex_.materialize(a[0])
                    v = ex_.read_path(r.cell, r.path) if isinstance(r, Ref) else r
                    nm = v.name if isinstance(v, Adt) else None
                    i = int(nm[4:]) if nm and nm.startswith('feat') else None
                    if i is None:
                        raise Inconclusive('count_%s on %r' % (which, v))
                    return (cs if which == 'scenarios' else st)[i]
                return f
            M.table['Ext::count_scenarios'] = counts('scenarios')
            M.table['Ext::count_steps'] = counts('steps')

            def insert_rec(ex_, info, a, dty, M=M):
                f = ex_.materialize(a[1])
                M.log(ex_, 'insert', feature=f.name if isinstance(f, Adt) else repr(f))
                return M.ready_future(('insert',), pending=ex_.env.get('insert_pending', 0))
            M.table['Features::insert'] = insert_rec

            def finish_rec(ex_, info, a, dty, M=M):
                M.log(ex_, 'finish')
                return UNIT
            M.table['Features::finish'] = finish_rec

            def run(ex_, n=n, pend=pend, M=M):
                ex_.env['insert_pending'] = 1 if sum(pend) else 0
                for d in res_d:
                    ex_.add(z3.ULT(d, bv(2)))
                for v in cs + st:
                    ex_.add(z3.ULT(v, bv(1 << 60)))
                items = []
                for i in range(n):
                    rules = Obj('vec', items=tuple(Lazy('gherkin::Rule', 'feat%d.rule%d' % (i, j)) for j in range(i % 3)), ty='Vec<Rule>')
                    feat = Adt('gherkin::Feature', {(None, F.index('rules')): rules}, None, 'feat%d' % i)
                    item = Adt('Result<gherkin::Feature, parser::Error>', {(0, 0): feat, (1, 0): Lazy('parser::Error', 'err%d' % i)}, res_d[i])
                    items.append((pend[i], item))
                args = [None] * len(entry.params)
                args[params['into']] = Lazy('runner::basic::Features', 'into')
                args[params['features_stream']] = M.pstream(items)
                args[params['which_scenario']] = Lazy('F', 'which')
                args[params['retries']] = Lazy('RetryOptionsFn', 'retries')
                args[params['sender']] = Lazy('UnboundedSender', 'sender')
                real = run_prefix.real_args(chk, ex_, M, builder={'fail_fast': bff}, cli={'fail_fast': cff})['insert_features']
                for nm in ('cli', 'fail_fast'):
                    if nm in params:
                        args[params[nm]] = real[params[nm]]
                co = ex_.call_body(entry, args)
                polls, _ = poll_to_completion(ex_, M, co, 4 * n + 6)
                return {'log': list(ex_.env.get('log', [])), 'polls': polls}

            def on_end(ex_, rec, n=n, pend=pend, M=M):
                kind, res, pc, dec = rec
                np[0] += 1
                if kind != 'ok':
                    o = ob('terminates')
                    o.verdict = 'inconclusive' if kind in ('unreachable',) else 'violated'
                    if kind == 'loopbound':
                        o.detail = 'not Ready after the stream ended: %s' % (res,)
                    else:
                        o.detail = '%s: %s' % (kind, res)
                    return
                log = res['log']
                # which items must have been consumed: computed for every value of fail_fast the path allows
                ff_vals = [v for v in (True, False) if ex_.check(ff if v else z3.Not(ff))]
                errs = []
                for i in range(n):
                    e_t, e_f = ex_.check(res_d[i] == bv(1)), ex_.check(res_d[i] != bv(1))
                    errs.append(None if (e_t and e_f) else e_t)
                plans = []
                for fv in ff_vals:
                    consumed, stop = [], False
                    for i in range(n):
                        if stop:
                            break
                        if errs[i] is None:
                            consumed = None      # item never looked at: only fine if it is beyond the stop point
                            break
                        consumed.append((i, errs[i]))
                        if errs[i] and fv:
                            stop = True
                    plans.append((consumed, stop))
                if any(p[0] is None for p in plans) or any(p != plans[0] for p in plans):
                    o = ob('fail-fast-stops-ingesting-after-the-first-error')
                    o.paths += 1
                    o.verdict = 'violated'
                    o.detail = 'behaviour does not depend on fail_fast / on an item where it must (plans %s)' % (plans,)
                    o.model = {'items': n, 'pending': list(pend), 'fail_fast_values_on_path': ff_vals, 'item_is_error': errs,
                               'inserted': [e['feature'] for e in log if e['kind'] == 'insert'], 'sent': len([e for e in log if e['kind'] == 'sent'])}
                    return
                consumed, stop = plans[0]
                sent = [e for e in log if e['kind'] == 'sent']
                inserts = [e['feature'] for e in log if e['kind'] == 'insert']
                o = ob('every-consumed-feature-inserted-in-order')
                o.paths += 1
                want_ins = ['feat%d' % i for i, e in consumed if not e]
                if inserts != want_ins:
                    o.verdict = 'violated'
                    o.detail = 'inserted %s, consumed features %s' % (inserts, want_ins)
                    o.model = {'items': n, 'pending': list(pend), 'inserted': inserts, 'expected': want_ins}
                o = ob('errors-forwarded-in-order-then-one-ParsingFinished-last')
                o.paths += 1
                want_errs = ['err%d' % i for i, e in consumed if e]
                got_errs = []
                okshape = len(sent) == len(want_errs) + 1
                pfv = None
                for k, e in enumerate(sent):
                    v = ex_.materialize(e['value'])
                    d = z3.simplify(M.discr(ex_, v)).as_long()
                    if d == 1:
                        p = ex_.field_of(v, 1, 0, 'parser::Error')
                        got_errs.append(p.name if isinstance(p, Lazy) else repr(p))
                        okshape = okshape and k < len(sent) - 1
                    else:
                        evv = ex_.materialize(ex_.field_of(v, 0, 0, 'event::Event<C>'))
                        cu = ex_.materialize(ex_.field_of(evv, None, ix.EventValue, 'event::Cucumber<W>'))
                        okshape = okshape and k == len(sent) - 1 and z3.simplify(M.discr(ex_, cu)).as_long() == PF['ParsingFinished']
                        pfv = cu
                if not okshape or got_errs != want_errs:
                    o.verdict = 'violated'
                    o.detail = 'sent %d items, errors %s; expected errors %s then ParsingFinished' % (len(sent), got_errs, want_errs)
                    o.model = {'items': n, 'sent': len(sent), 'errors': got_errs, 'expected_errors': want_errs}
                    return
                if pfv is not None:
                    get = lambda nm: ex_.materialize(ex_.field_of(pfv, PF['ParsingFinished'], pf_fields.index(nm), 'usize'), 'usize')  # noqa
                    oks = [i for i, e in consumed if not e]
                    want = {'features': bv(len(oks)), 'rules': bv(sum(i % 3 for i in oks)),
                            'scenarios': sum([cs[i] for i in oks], bv(0)), 'steps': sum([st[i] for i in oks], bv(0)),
                            'parser_errors': bv(len(want_errs))}
                    claim = z3.And(*[get(k) == v for k, v in want.items()])
                    o2 = ob('ParsingFinished-counters-equal-what-was-received')
                    o2.paths += 1
                    o2.queries += 1
                    if ex_.check(z3.Not(claim)):
                        o2.verdict = 'violated'
                        m = ex_.solver.model()
                        o2.model = {k: str(m.eval(get(k), model_completion=True)) for k in want}
                        o2.model['consumed'] = consumed
                        o2.detail = 'ParsingFinished counters differ from the items consumed'
                o3 = ob('finish-called-once-at-the-end')
                o3.paths += 1
                fin = [k for k, e in enumerate(log) if e['kind'] == 'finish']
                if len(fin) != 1 or any(e['kind'] in ('sent', 'insert') for e in log[fin[0]:]):
                    o3.verdict = 'violated'
                    o3.detail = 'Features::finish() calls: %d' % len(fin)
                o4 = ob('fail-fast-stops-ingesting-after-the-first-error')
                o4.paths += 1
                polled = len([e for e in log if e['kind'] == 'stream_polled'])
                # items after the stop point must not have been polled for: polls <= sum over consumed of (pending+1) (+1 for the end)
                maxpolls = sum(pend[i] + 1 for i, _ in consumed) + (0 if stop else 1)
                if polled > maxpolls:
                    o4.verdict = 'violated'
                    o4.detail = 'parser stream polled %d times, at most %d expected' % (polled, maxpolls)
            ex.explore(run, on_end)
    bad = [o for o in obs.values() if o.verdict == 'violated']
    if bad:
        confirm(chk, bad, prop)
    w = chk.add(Obligation('%s.insert_features.witness' % prop, 'exploration'))
    w.kind = 'witness'
    w.verdict = 'witness-ok' if np[0] >= 10 and 'ParsingFinished-counters-equal-what-was-received' in obs else 'witness-missing'
    w.detail = '%d paths' % np[0]
    chk.assumptions.append('insert_features: Features::insert replaced by a recorder that completes after 0..1 polls; count_scenarios/count_steps uninterpreted per feature; the receiving end of the channel stays open')
    return list(obs.values())


def confirm(chk, bad, prop):
    """Native replay through the REAL runner: parser streams mixing features and errors (eager and lazy), with and
    without fail-fast; forwarded errors, ParsingFinished counters and the set of started features are compared
    with the specification."""
    import os
    import re
    from checks import replay
    d = os.path.join(common.EVID, 'replay')
    os.makedirs(d, exist_ok=True)
    devs, fails, n = [], [], 0

    def feat(i, late):
        return ['feature late=%d' % late, '| Feature: f%d' % i, '|   Scenario: a%d' % i, '|     Given x%d' % i, '|     Given y%d' % i,
                '|   Rule: r%d' % i, '|     Scenario: b%d' % i, '|       Given z%d' % i]
    for layout in ('FEF', 'EFF', 'FFE', 'EEF', 'FEEF'):
        for ff in (0, 1):
            for late in (0,):   # lazy parser streams are exercised by C04 (they hit the idle-spin defect)
                lines = ['builder max_concurrent=2' + (' fail_fast=1' if ff else '')]
                for i, c in enumerate(layout):
                    lines += feat(i, late) if c == 'F' else ['parse_error late=%d' % late]
                name = '%s-ff%d-late%d' % (layout, ff, late)
                path = os.path.join(d, '%s-ingest-%s.script' % (prop, name))
                res, out = replay.run_script('\n'.join(['mode runner'] + lines) + '\n', path, timeout=60)
                chk.replays += 1
                n += 1
                if res is not None and res.get('timeout'):
                    # the stream never ended: with an eager in-memory parser every run of this grid ends within milliseconds
                    devs.append(('%s: the real runner did not end its event stream (watchdog) - no ParsingFinished / run-Finished' % name, path))
                    chk.replay_files.append(path)
                    continue
                if res is None:
                    fails.append((name, out[-200:]))
                    continue
                evs = [ln[7:].rsplit(' t=', 1)[0] for ln in out.splitlines() if ln.startswith('LOG EV ')]
                consumed = []
                for i, c in enumerate(layout):
                    consumed.append((i, c))
                    if c == 'E' and ff:
                        break
                nf = len([1 for _, c in consumed if c == 'F'])
                ne = len([1 for _, c in consumed if c == 'E'])
                want_pf = 'parsing_finished[f=%d,r=%d,sc=%d,st=%d,err=%d]' % (nf, nf, 2 * nf, 3 * nf, ne)
                pf = [e for e in evs if e.startswith('parsing_finished')]
                started = sorted(set(re.findall(r'feature\[(f\d)\]:started', '\n'.join(evs))))
                want_started = sorted('f%d' % i for i, c in consumed if c == 'F')
                # under fail-fast a parser error also stops dispatching: started features may be fewer, never others
                ok = pf == [want_pf] and evs.count('err') == ne and (started == want_started or (ff and ne and set(started) <= set(want_started)))
                if not ok:
                    devs.append(('%s: ParsingFinished %s (specification %s), errors forwarded %d (%d), features started %s (%s)' % (
                        name, pf, want_pf, evs.count('err'), ne, started, want_started), path))
                    chk.replay_files.append(path)
                else:
                    os.remove(path)
    for o in bad:
        if devs:
            o.replay = devs[0][1]
            o.detail += ' | reproduced natively through the real runner (%d of %d runs deviate): %s' % (len(devs), n, devs[0][0])
        elif fails:
            o.verdict = 'inconclusive'
            o.detail += ' | native replay failed: %s' % (fails[0],)
        else:
            o.verdict = 'inconclusive'
            o.detail += ' | %d native runs through the real runner follow the specification - counterexample not reproduced' % n
