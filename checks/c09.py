"""C09 - decided on one scenario attempt of the real run_scenario coroutine (see checks/attempt.py)."""
from checks import common, attempt_driver


def body(chk):
    attempt_driver.run(chk, 'C09')
    attempt_driver.run_pair(chk, 'C09')      # two attempts in flight: no World crosses over from one to the other
    # across the scheduler: every started attempt reaches its end (after hook, World hand-over) also when fail-fast trips
    from checks import sched_worlds
    sched_worlds.run(chk, 'C09', selected=lambda n, w: w.fail_fast)


if __name__ == '__main__':
    common.main('C09', body)
