"""C09 - decided on one scenario attempt of the real run_scenario coroutine (see checks/attempt.py)."""
from checks import common, attempt_driver


def body(chk):
    attempt_driver.run(chk, 'C09')


if __name__ == '__main__':
    common.main('C09', body)
