"""Symbolic execution of the real scheduler loop `execute` (runner/basic.rs) across polls (stage M3).

Real MIR interpreted: execute::{closure#0} (the whole loop), Features::{get, is_finished, insert_retried_scenario,
insert_scenarios}, FinishedRulesAndFeatures::*, Executor::{new, send_event, send_all_events, scenario_finished},
future::{then_yield, YieldThenReturn, YieldNow, SelectWithBiasedFirst}, RetryOptions::next_try ...
Abstraction knob (listed in evidence): Executor::run_scenario is replaced by a future that logs Started, stays
Pending for a per-attempt number of polls chosen by the harness, then fails or passes (symbolic Boolean per attempt)
and performs the tail of the real run_scenario by calling the real callees (next_try, insert_retried_scenario,
scenario_finished).  Optionally the real insert_features coroutine is joined with it, fed by a lazy parser stream.
"""
import itertools

import re

import z3

from checks import common, events, sched
from checks.common import Obligation
from mirsmt.values import Cell, Lazy, Adt, Ref, Obj, UNIT, bv
from mirsmt.interp import Inconclusive, PathEnd


class Scen:
    def __init__(self, name, ty='C', feature=0, rule=None, budget=None, delay=False, durs=(0,), fails=None, nsteps=1):
        self.name, self.ty, self.feature, self.rule = name, ty, feature, rule
        self.nsteps = nsteps                         # steps the scenario has in its source (0: a step-less draft scenario)
        self.budget, self.delay = budget, delay      # retry budget (None = no retry options), delay configured?
        self.durs = durs                             # polls the attempt k stays Pending
        self.fails = fails                           # None = symbolic per attempt, or tuple of bools
        self.pid = bv(0x1000 + abs(hash(name)) % 0x7000)


class World:
    """one configuration: scenarios pre-queued (parser finished) or delivered by a lazy parser"""

    def __init__(self, scens, limit, fail_fast=False, parser=None, sleep_polls=1, empty_rule_features=(), runs=1):
        self.runs = runs          # how many runs are done one after the other in the same process (statics persist)
        self.scens, self.limit, self.fail_fast, self.parser = scens, limit, fail_fast, parser
        self.empty_rule_features = tuple(empty_rule_features)   # features that consist of one rule without scenarios (all filtered out)
        self.sleep_polls = sleep_polls      # how many polls of execute() the sleeper thread of a retry delay stays asleep


def features_extra_fields(prog, fv):
    """fields of `Features` beyond the storage and the finished flag (a change may add bookkeeping): initialised like
    `Default` does for shared atomics; anything else cannot be initialised faithfully -> inconclusive"""
    from mirsmt import tables as T
    fl = prog.tables.struct_fields('runner::basic::Features')
    ft = T.field_types(prog.tables, 'Features', 'runner/basic.rs') or {}
    for i, n in enumerate(fl):
        if (None, i) in fv.fields:
            continue
        ty = ft.get(n, '')
        m = re.fullmatch(r'Arc<\s*(?:atomic::)?(Atomic(?:Usize|U64|U32|Bool|Isize|I64))\s*>', ty)
        if not m:
            raise Inconclusive('runner::basic::Features has a field `%s: %s` this harness cannot initialise' % (n, ty))
        init = z3.BoolVal(False) if m.group(1) == 'AtomicBool' else bv(0)
        fv = fv.with_field((None, i), Ref(Cell(Adt(m.group(1), {(None, 0): init}), name='features.' + n), (), pid=bv(0x60 + i)))
    return fv


def find_fn(prog, last):
    c = [b for n, b in prog.bodies.items() if n.split('::')[-1] == last]
    if len(c) != 1:
        raise Inconclusive('%s: %d bodies' % (last, len(c)))
    return c[0]


def simulate(chk, world, max_polls=40, loop_bound=14, sleep_polls=1):
    """-> list of (kind, result dict | msg, pc) over all paths"""
    prog = chk.prog
    ix = events.CukeIdx(prog)
    six = sched.SIdx(prog)
    ex, M = chk.new_exec(loop_bound=loop_bound, max_paths=4000)
    if any(s.delay for s in world.scens):
        ex.fresh_solver = 'QF_BV'
    M.opaque_bodies |= {'ScenarioId::new'}
    execute = find_fn(prog, 'execute')
    ep = {n: int(p[1:]) - 1 for n, p in execute.debug.items() if p.startswith('_') and p[1:].isdigit() and int(p[1:]) <= len(execute.params)}
    run_sc = [b for (st, m), lst in prog.by_method.items() if st == 'Executor' and m == 'run_scenario' for tr, b in lst]
    if len(run_sc) != 1:
        raise Inconclusive('Executor::run_scenario: %d' % len(run_sc))
    rp = {n: int(p[1:]) - 1 for n, p in run_sc[0].debug.items() if p.startswith('_') and p[1:].isdigit() and int(p[1:]) <= len(run_sc[0].params)}
    next_try = common.find_method(prog, 'RetryOptions', 'next_try')
    insert_retried = sched._find_method(prog, 'Features', 'insert_retried_scenario')
    # how an attempt tells the scheduler that it ended: through Executor::scenario_finished (a notification channel) - or, when
    # there is no such method, as the value its future returns (id, feature, rule, failed, retried)
    sc_finished = ([b for (st, m), lst in prog.by_method.items() if st == 'Executor' and m == 'scenario_finished' for tr, b in lst] or [None])[0]
    EX = prog.tables.struct_fields('runner::basic::Executor<W>')
    by_pid = {}
    failv = {}
    for s in world.scens:
        by_pid[str(s.pid)] = s
        n_att = (s.budget or 0) + 1
        failv[s.name] = [z3.Bool('fail(%s,%d)' % (s.name, k)) for k in range(n_att)]

    def scen_future(ex_, body, args):
        executor, scn, retries = args[rp['self']], args[rp['scenario']], args[rp['retries']]
        ty = args[rp['scenario_ty']] if 'scenario_ty' in rp else None        # (a change may stop passing the type along)
        feat, rule, sid = args[rp['feature']], args[rp['rule']], args[rp['id']]
        s = by_pid.get(str(z3.simplify(M.pid(ex_, scn))))
        if s is None:
            c_, p_ = ex_.deref(scn)
            tgt = ex_.read_path(c_, p_)
            nm = (tgt.name if isinstance(tgt, (Adt, Lazy)) else '') or ''
            s = {x.name: x for x in world.scens}.get(nm.split('.')[0])
        if s is None:
            raise Inconclusive('run_scenario on an unknown scenario')
        fpid = str(z3.simplify(M.pid(ex_, feat)))
        rv_ = ex_.materialize(rule)
        rpid = str(z3.simplify(M.pid(ex_, ex_.field_of(rv_, 1, 0, 'event::Source<gherkin::Rule>')))) if z3.simplify(M.discr(ex_, rv_)).as_long() == 1 else None
        ro = ex_.materialize(retries)
        rd = z3.simplify(M.discr(ex_, ro))
        attempt = 0
        if rd.as_long() == 1:
            rr = ex_.materialize(ex_.field_of(ex_.materialize(ex_.field_of(ro, 1, 0, 'RetryOptions')), None, six.RO['retries'], 'event::Retries'))
            cur = z3.simplify(ex_.materialize(ex_.field_of(rr, None, six.R['current'], 'usize'), 'usize'))
            left = z3.simplify(ex_.materialize(ex_.field_of(rr, None, six.R['left'], 'usize'), 'usize'))
            attempt = cur.as_long()
            M.log(ex_, 'dispatch', sc=s.name, attempt=attempt, left=left.as_long(), ty=z3.simplify(M.discr(ex_, ty)).as_long() if ty is not None else None)
        else:
            M.log(ex_, 'dispatch', sc=s.name, attempt=0, left=None, ty=z3.simplify(M.discr(ex_, ty)).as_long() if ty is not None else None)
        dur = s.durs[min(attempt, len(s.durs) - 1)]

        def poll(ex2, cell, path, v, cx, dty):
            st = v.d
            if st['stage'] == 0:
                run = ex2.env.setdefault('running', [])
                M.log(ex2, 'start', sc=s.name, attempt=attempt, running=list(run), clock=M.clock(ex2), f=fpid, r=rpid)
                run.append(s.name)
                v = v.set(stage=1)
                ex2.write_path(cell, path, v)
            if v.d['left'] > 0:
                ex2.write_path(cell, path, v.set(left=v.d['left'] - 1))
                return M.poll_pending(dty)
            if s.fails is not None:
                failed = bool(s.fails[min(attempt, len(s.fails) - 1)])
            else:
                failed = ex2.branch(failv[s.name][min(attempt, len(failv[s.name]) - 1)])
            retried = False
            if failed and rd.as_long() == 1:
                nt = ex2.materialize(ex2.call_body(next_try, [ex2.field_of(ro, 1, 0, 'RetryOptions')]))
                if ex2.branch(M.discr(ex2, nt) == bv(1)):
                    retried = True
                    storage = Ref(*(lambda c_p: (c_p[0], c_p[1] + (('f', None, EX.index('storage'), 'Features'),)))(ex2.deref(executor)))
                    have = {'self': storage, 'feature': feat, 'rule': rule, 'scenario': scn, 'scenario_ty': ty, 'retries': nt, 'next_try': nt}
                    ir_args = []
                    for i_, (loc_, pty_) in enumerate(insert_retried.params):
                        pn = [n_ for n_, p_ in insert_retried.debug.items() if p_ == '_%d' % (i_ + 1)]
                        if pty_.endswith('Instant'):
                            # an instant handed in by run_scenario: which one the real run_scenario passes is decided
                            # by the attempt-level harness (checks/attempt.py); here the attempt is abstract and
                            # ends at the current reading of the clock
                            ir_args.append(M.tick(ex2))
                            continue
                        if not pn or pn[0] not in have or have[pn[0]] is None:
                            raise Inconclusive('insert_retried_scenario parameter %s' % (pn or [i_],))
                        val_ = have[pn[0]]
                        if pn[0] in ('retries', 'next_try') and not pty_.strip().startswith(('Option<', 'std::option::Option<')):
                            val_ = ex2.field_of(nt, 1, 0, 'RetryOptions')       # the callee takes the options themselves
                        ir_args.append(val_)
                    co = ex2.call_body(insert_retried, ir_args)
                    from checks.fail_on_skipped import poll_to_completion
                    poll_to_completion(ex2, M, co, 3)
            ex2.env['running'].remove(s.name)
            M.log(ex2, 'finish', sc=s.name, attempt=attempt, failed=failed, retried=retried, f=fpid, r=rpid, clock=M.clock(ex2))
            ex2.write_path(cell, path, v.set(stage=2))
            if sc_finished is None:
                return M.poll_ready(dty, Adt('(ScenarioId, Source<Feature>, Option<Source<Rule>>, bool, bool)', {
                    (None, 0): sid, (None, 1): feat, (None, 2): rule, (None, 3): z3.BoolVal(failed), (None, 4): z3.BoolVal(retried)}))
            ex2.call_body(sc_finished, [executor, sid, feat, rule, z3.BoolVal(failed), z3.BoolVal(retried)])
            return M.poll_ready(dty, UNIT)
        return Obj('pyfut', poll=poll, stage=0, left=dur, what=('scenario', s.name, attempt))
    M.body_hooks[run_sc[0].name] = scen_future

    get_body = sched._find_method(prog, 'Features', 'get')

    def get_logged(ex_, body, args):
        lim = ex_.materialize(args[1])
        d = z3.simplify(M.discr(ex_, lim))
        M.log(ex_, 'get', limit=None if d.as_long() == 0 else z3.simplify(ex_.field_of(lim, 1, 0, 'usize')).as_long())
        from mirsmt.interp import Frame
        return Frame(ex_, body, args).run()
    M.body_hooks[get_body.name] = get_logged

    def count_scen(ex_, info, a, dty):
        r = ex_.materialize(a[0])
        nm = r.cell.name if isinstance(r, Ref) else None
        if (not nm or not nm.startswith('feat')) and isinstance(r, Ref):
            tgt = ex_.read_path(r.cell, r.path)
            nm = tgt.name if isinstance(tgt, (Adt, Lazy)) else None
        if not nm or not nm.startswith('feat'):
            raise Inconclusive('count_scenarios on %r' % (r,))
        return bv(len([s for s in world.scens if s.feature == int(nm[4:])]))
    orig_cs = M.table.get('Ext::count_scenarios')

    def count_scen_real_first(ex_, info, a, dty):
        # features built by the ingester are concrete: the REAL count_scenarios runs on them; only an unconstrained
        # feature falls back to the world's number
        r = ex_.materialize(a[0])
        tgt = ex_.read_path(r.cell, r.path) if isinstance(r, Ref) else r
        tgt = ex_.materialize(tgt)
        if isinstance(tgt, Adt) and any(isinstance(ex_.materialize(v), Obj) for v in tgt.fields.values()):
            b = ex_.prog.resolve(info)
            if b is not None:
                return ex_.call_body(b, a)
        return count_scen(ex_, info, a, dty)
    M.table['Ext::count_scenarios'] = count_scen_real_first
    rule_sc = prog.tables.struct_fields('gherkin::Rule').index('scenarios')

    def run(ex_):
        res_ = one_run(ex_)
        for _ in range(getattr(world, 'runs', 1) - 1):
            if not res_['done']:
                break
            ex_.models.log(ex_, 'next_run')
            res_ = one_run(ex_)
        return res_

    def one_run(ex_):
        for ri in set(s.rule for s in world.scens if s.rule is not None):
            ex_.add(z3.BitVec('rule%d.%d.len' % (ri, rule_sc), 64) == bv(len([s for s in world.scens if s.rule == ri])))
        ex_.env['sleep_polls'] = max(sleep_polls, getattr(world, 'sleep_polls', 1))
        ex_.env['time_bound_bits'] = 40
        ex_.add(z3.ULT(z3.BitVec('delay', 64), bv(1 << 40)))
        ex_.env['map_order'] = 'insertion'
        serial, conc = [], []
        # worlds without a lazy parser get an EAGER one (every feature ready at the first poll): the storage is then filled
        # by the real insert_features / Features::insert, so whatever bookkeeping insert keeps is consistent
        parser = world.parser if world.parser is not None else [(0, fi) for fi in sorted(set(s_.feature for s_ in world.scens))]
        for s in world.scens:
            if parser is not None:
                continue
            q = sched.QEntry(s.name)
            q.pid, q.ret, q.cur, q.left = s.pid, bv(0 if s.budget is None else 1), bv(0), bv(s.budget or 0)
            q.after, q.inst, q.dur = bv(1 if s.delay else 0), bv(0), z3.BitVec('delay', 64)
            (serial if s.ty == 'S' else conc).append((q, s))

        def entry_value(q, s):
            v = q.value(six)
            f = events.source('gherkin::Feature', bv(0x100 + s.feature), 'feat%d' % s.feature)
            r = Adt('Option<event::Source<gherkin::Rule>>', {(1, 0): events.source('gherkin::Rule', bv(0x200 + (s.rule or 0)), 'rule%d' % (s.rule or 0))},
                    0 if s.rule is None else 1)
            return v.with_field((None, 1), f).with_field((None, 2), r)
        ents = []
        if serial:
            ents.append((Adt('runner::basic::ScenarioType', {}, six.Ty['Serial']), Obj('vec', items=tuple(entry_value(q, s) for q, s in serial), ty='Vec')))
        if conc:
            ents.append((Adt('runner::basic::ScenarioType', {}, six.Ty['Concurrent']), Obj('vec', items=tuple(entry_value(q, s) for q, s in conc), ty='Vec')))
        m = M.new_assoc('runner::basic::ScenarioType', 'Vec<%s>' % sched.ENTRY_TY, ents)
        mutex_cell = Cell(Adt('Mutex<Scenarios>', {(None, 0): m}), name='storage')
        fin_cell = Cell(Adt('AtomicBool', {(None, 0): z3.BoolVal(parser is None)}), name='finished')
        fv = Adt('runner::basic::Features', {(None, six.F['scenarios']): Ref(mutex_cell, (), pid=bv(0x51)),
                                             (None, six.F['finished']): Ref(fin_cell, (), pid=bv(0x52))})
        fv = features_extra_fields(prog, fv)
        # the option values `execute` / `insert_features` really receive: computed by the real prefix of Basic::run
        # from the builder settings of this world (fail-fast and the limit given by the builder, nothing on the CLI)
        from checks import run_prefix
        real = run_prefix.real_args(chk, ex_, M, builder={
            'fail_fast': z3.BoolVal(world.fail_fast),
            'max_concurrent_scenarios': Adt('Option<usize>', {(1, 0): bv(world.limit or 0)}, 0 if world.limit is None else 1)})
        known = ('features', 'max_concurrent_scenarios', 'collection', 'event_sender', 'before_hook', 'after_hook', 'fail_fast', 'cli')
        if any(n not in known for n in ep) or any(n not in ep for n in known[:6] if n != 'max_concurrent_scenarios'):
            raise Inconclusive('execute parameters %s' % sorted(ep))
        args = [None] * len(execute.params)
        for nm in ('max_concurrent_scenarios', 'fail_fast', 'cli'):
            if nm in ep:
                args[ep[nm]] = real['execute'][ep[nm]]
        args[ep['features']] = fv
        args[ep['collection']] = Lazy('step::Collection<W>', 'collection')
        args[ep['event_sender']] = Lazy('UnboundedSender', 'event_sender')
        args[ep['before_hook']] = Lazy('Option<Before>', 'before')
        args[ep['after_hook']] = Lazy('Option<After>', 'after')
        co = ex_.call_body(execute, args)
        cocell = Cell(co, name='execute')
        pin = Adt('Pin<&mut coroutine>', {(None, 0): Ref(cocell, ())})
        cx = Ref(Cell(Lazy('Context', 'cx')), ())
        body = ex_.prog.poll_body(co.ty, ex_.coro_origin.get(co.ty))
        ing = None
        if parser is not None:
            ing = make_ingester(ex_, M, prog, world, fv, real['insert_features'], parser)
        polls, done, exe_done = 0, False, False
        while polls < max_polls:
            polls += 1
            if exe_done and (ing is None or ing['done']):
                done = True
                break
            if ing is not None and not ing['done']:
                # futures::join polls the ingester first, then execute, on every poll
                try:
                    ri = ex_.call_body(ing['body'], [ing['pin'], cx])
                except PathEnd as e:
                    if e.kind == 'loopbound':
                        return {'log': list(ex_.env.get('log', [])), 'polls': polls, 'done': False, 'spin': 'insert_features: ' + e.msg, 'hook': ex_.env.get('panic_hook')}
                    raise
                if ex_.branch(M.discr(ex_, ri) == bv(0)):
                    ing['done'] = True
                    M.log(ex_, 'ingester_done')
            if exe_done:
                continue        # futures::join keeps polling the ingester alone once execute has completed
            M.log(ex_, 'poll_execute', n=polls)
            try:
                r = ex_.call_body(body, [pin, cx])
            except PathEnd as e:
                if e.kind == 'loopbound':
                    return {'log': list(ex_.env.get('log', [])), 'polls': polls, 'done': False, 'spin': e.msg, 'hook': ex_.env.get('panic_hook')}
                raise
            if ex_.branch(M.discr(ex_, r) == bv(0)):
                exe_done = True
                M.log(ex_, 'execute_done')
                if ing is None or ing['done']:
                    done = True
                    break
        return {'log': list(ex_.env.get('log', [])), 'polls': polls, 'done': done, 'spin': None, 'hook': ex_.env.get('panic_hook', 'original'),
                'storage': mutex_cell.v, 'M': M, 'ex': ex_}
    out = []

    def on_end(ex_, rec):
        kind, res, pc, dec = rec
        if kind == 'ok':
            res['events'] = describe_log(ex_, M, ix, res['log'])
            # symbolic oracle: a delayed retry starts no earlier than `delay` after the failed attempt ended (model clock)
            res['sym'] = {}
            delay = z3.BitVec('delay', 64)
            errs = []
            for s_ in world.scens:
                if not s_.delay:
                    continue
                st = {e[2]: e for e in res['events'] if e[0] == 'start' and e[1] == s_.name}
                fi = {e[2]: e for e in res['events'] if e[0] == 'finish' and e[1] == s_.name}
                for k_ in sorted(st):
                    if k_ > 0 and (k_ - 1) in fi:
                        ts, tf = st[k_][6], fi[k_ - 1][7]
                        claim = z3.And(z3.UGE(ts, tf), z3.UGE(ts - tf, delay))
                        if ex_.check(z3.Not(claim)):
                            m_ = ex_.last_solver.model()
                            errs.append('%s#%d started %s ticks after attempt %d ended, delay %s' % (s_.name, k_, m_.eval(ts - tf, model_completion=True), k_ - 1, m_.eval(delay, model_completion=True)))
            res['sym']['retry-not-before-delay'] = '; '.join(errs) if errs else None
            res.pop('M', None)
            res.pop('ex', None)
        out.append((kind, res, pc))
    ex.explore(run, on_end)
    return out, ex


def make_ingester(ex, M, prog, world, fv, real, parser):
    """the real insert_features coroutine over a lazy parser stream of concrete-shaped features"""
    from checks import tagsets
    insf = find_fn(prog, 'insert_features')
    ip = {n: int(p[1:]) - 1 for n, p in insf.debug.items() if p.startswith('_') and p[1:].isdigit() and int(p[1:]) <= len(insf.params)}
    F = prog.tables.struct_fields('gherkin::Feature')
    R = prog.tables.struct_fields('gherkin::Rule')
    six = sched.SIdx(prog)
    items = []
    for late, fi in parser:
        if fi == 'end':
            items.append((late, M.STREAM_END))      # the stream ends `late` polls after its last item
            continue
        tops = [s for s in world.scens if s.feature == fi and s.rule is None]
        rules = sorted(set(s.rule for s in world.scens if s.feature == fi and s.rule is not None))
        if fi in getattr(world, 'empty_rule_features', ()):
            rules = [9]

        def scv(s):
            return tagsets.gherkin_node(prog, 'gherkin::Scenario', s.name, [], {
                'steps': Obj('vec', items=tuple(Lazy('gherkin::Step', '%s.step%d' % (s.name, k_)) for k_ in range(getattr(s, 'nsteps', 1))), ty='Vec<Step>')})
        rv = [tagsets.gherkin_node(prog, 'gherkin::Rule', 'rule%d' % ri, [], {
            'scenarios': Obj('vec', items=tuple(scv(s) for s in world.scens if s.feature == fi and s.rule == ri), ty='Vec<Scenario>')}) for ri in rules]
        feat = tagsets.gherkin_node(prog, 'gherkin::Feature', 'feat%d' % fi, [], {
            'scenarios': Obj('vec', items=tuple(scv(s) for s in tops), ty='Vec<Scenario>'), 'rules': Obj('vec', items=tuple(rv), ty='Vec<Rule>')})
        items.append((late, Adt('Result<gherkin::Feature, parser::Error>', {(0, 0): feat}, 0)))
    spec = {s.name: s for s in world.scens}

    def hook(ex_, f, args, dty, info):
        def pointee_name(v):
            for _ in range(8):
                v = ex_.materialize(v)
                if isinstance(v, Ref):
                    v = ex_.read_path(v.cell, v.path)
                    continue
                if isinstance(v, Adt) and v.name is None and (None, 0) in v.fields and isinstance(ex_.materialize(v.fields[(None, 0)]), Ref):
                    v = v.fields[(None, 0)]
                    continue
                break
            return v.name if isinstance(v, (Adt, Lazy)) else None
        sc = spec.get((pointee_name(args[2]) or '').split('.')[0])
        if sc is None:
            raise Inconclusive('classifier / retry resolver called on an unknown scenario')
        if len(args) == 3:
            return Adt('runner::basic::ScenarioType', {}, six.Ty['Serial' if sc.ty == 'S' else 'Concurrent'])
        if sc.budget is None:
            return Adt('Option<RetryOptions>', {}, 0)
        ro = Adt('runner::basic::RetryOptions', {
            (None, six.RO['retries']): Adt('event::Retries', {(None, six.R['current']): bv(0), (None, six.R['left']): bv(sc.budget)}),
            (None, six.RO['after']): Adt('Option<std::time::Duration>', {(1, 0): z3.BitVec('delay', 64)}, 1 if sc.delay else 0)})
        return Adt('Option<RetryOptions>', {(1, 0): ro}, 1)
    M.opaque_fn_hook = hook
    M.table['Ext::count_steps'] = lambda ex_, info, a, dty: bv(1)
    args = [None] * len(insf.params)
    args[ip['into']] = fv
    args[ip['features_stream']] = M.pstream(items)
    args[ip['which_scenario']] = Lazy('F', 'which')
    args[ip['retries']] = Ref(Cell(Lazy('dyn Fn', 'retry_fn'), name='retry_fn'), (), pid=bv(0x77))
    args[ip['sender']] = Lazy('UnboundedSender', 'event_sender')
    known = ('into', 'features_stream', 'which_scenario', 'retries', 'sender', 'cli', 'fail_fast')
    if any(n not in known for n in ip):
        raise Inconclusive('insert_features parameters %s' % sorted(ip))
    for nm in ('cli', 'fail_fast'):
        if nm in ip:
            args[ip[nm]] = real[ip[nm]]
    co = ex.call_body(insf, args)
    cell = Cell(co, name='insert_features')
    return {'body': ex.prog.poll_body(co.ty, ex.coro_origin.get(co.ty)), 'pin': Adt('Pin<&mut coroutine>', {(None, 0): Ref(cell, ())}), 'done': False}


def describe_log(ex, M, ix, log):
    """timeline of plain tuples: ('start', sc, attempt, running-before) / ('finish', sc, attempt, failed, retried) /
    ('bracket', 'feature'|'rule', 'Started'|'Finished', f, r) / ('run', 'Started'|'Finished') / ('get', limit) / ('poll', n) ..."""
    from checks.c03 import describe_event
    tl = []
    for e in log:
        k = e['kind']
        if k == 'start':
            tl.append(('start', e['sc'], e['attempt'], tuple(e['running']), e.get('f'), e.get('r'), e.get('clock')))
        elif k == 'finish':
            tl.append(('finish', e['sc'], e['attempt'], e['failed'], e['retried'], e.get('f'), e.get('r'), e.get('clock')))
        elif k == 'dispatch':
            tl.append(('dispatch', e['sc'], e['attempt'], e['left'], e['ty']))
        elif k == 'get':
            tl.append(('get', e['limit']))
        elif k == 'poll_execute':
            tl.append(('poll', e['n']))
        elif k in ('sleeper_thread_spawned', 'woke_up_after_sleep', 'sleeping', 'take_hook', 'set_hook'):
            tl.append((k, e.get('now') or e.get('was')))
        elif k == 'sent' and not str(e['channel']).startswith('chan'):
            v = ex.materialize(e['value'])
            if z3.simplify(M.discr(ex, v)).as_long() != 0:
                tl.append(('error',))
                continue
            evv = ex.materialize(ex.field_of(v, 0, 0, 'event::Event<C>'))
            cu = ex.materialize(ex.field_of(evv, None, ix.EventValue, 'event::Cucumber<W>'))
            d = z3.simplify(M.discr(ex, cu)).as_long()
            inv = {vv: kk for kk, vv in ix.Top.items()}
            if inv[d] in ('Started', 'Finished'):
                tl.append(('run', inv[d]))
            elif inv[d] == 'Feature':
                de = describe_event(ex, M, ix, cu)
                tl.append(('bracket',) + tuple(de) if de else ('event', 'scenario'))
            elif inv[d] == 'ParsingFinished':
                vs = ex.prog.tables.enum_variants('event::Cucumber<W>')
                names = vs[ix.Top['ParsingFinished']][2]
                cnt = {}
                for nm in ('features', 'parser_errors'):
                    t_ = z3.simplify(ex.materialize(ex.field_of(cu, ix.Top['ParsingFinished'], names.index(nm), 'usize'), 'usize'))
                    cnt[nm] = t_.as_long() if z3.is_bv_value(t_) else None
                tl.append(('event', 'ParsingFinished', cnt['features'], cnt['parser_errors']))
            else:
                tl.append(('event', inv[d]))
    return tl


# ------------------------------------------------------------------------------------------------ oracles

def oracles(world, res):
    """-> dict name -> error string | None, evaluated on one completed path (plain Python over the timeline)."""
    tl = res['events']
    out = {}
    names = [s.name for s in world.scens]
    spec = {s.name: s for s in world.scens}
    starts = [e for e in tl if e[0] == 'start']
    finishes = [e for e in tl if e[0] == 'finish']
    # C04
    out['terminates'] = None if res['done'] else ('execute spins inside one poll: %s' % res['spin'] if res['spin'] else 'execute not finished after %d polls' % res['polls'])
    final_fail = [i for i, e in enumerate(tl) if e[0] == 'finish' and e[3] and not e[4]]
    if res['done']:
        started = set(e[1] for e in starts)
        if not (world.fail_fast and final_fail):
            missing = [n for n in names if n not in started]
            out['every-scenario-runs'] = 'never started: %s' % missing if missing else None
        extra = [n for n in started if n not in names]
        out['nothing-else-runs'] = 'started unknown %s' % extra if extra else None
        unfinished = [(e[1], e[2]) for e in starts if not any(f[1] == e[1] and f[2] == e[2] for f in finishes)]
        out['every-started-attempt-finishes'] = 'unfinished attempts %s' % unfinished if unfinished else None
    # C06
    if world.limit is not None:
        worst = max([len(e[3]) + 1 for e in starts] or [0])
        out['in-flight<=limit'] = 'up to %d attempts in flight with limit %d' % (worst, world.limit) if worst > world.limit else None
        # the limit is also reached: once an attempt completes while a scenario is still queued and a slot is free, the
        # runner starts something before another attempt that still needs >= 3 more polls completes (head-of-line blocking
        # or waiting for the whole batch would be visible here).  Only worlds of concurrent scenarios that are all in the
        # storage from the beginning and run without fail-fast or delays are judged.
        if all(s.ty == 'C' and not s.delay for s in world.scens) and world.parser is None and not world.fail_fast:
            sf = [e for e in tl if e[0] in ('start', 'finish')]
            bad = []
            for i, e in enumerate(sf):
                if e[0] != 'finish':
                    continue
                before = sf[:i + 1]
                inflight = [(x[1], x[2]) for x in before if x[0] == 'start' and not any(y[0] == 'finish' and y[1:3] == x[1:3] for y in before)]
                queued = [n for n in names if not any(x[0] == 'start' and x[1] == n for x in before)]
                if not queued or not inflight or len(inflight) >= world.limit:
                    continue
                mine = spec[e[1]].durs[min(e[2], len(spec[e[1]].durs) - 1)]
                my_start = [k for k, x in enumerate(sf) if x[0] == 'start' and x[1:3] == e[1:3]][0]
                for (zn, za) in inflight:
                    zs = [k for k, x in enumerate(sf) if x[0] == 'start' and x[1:3] == (zn, za)][0]
                    same_group = all(x[0] == 'start' for x in sf[min(zs, my_start):max(zs, my_start) + 1])
                    zd = spec[zn].durs[min(za, len(spec[zn].durs) - 1)]
                    if not same_group or zd - mine < 3:
                        continue
                    zf = [k for k, x in enumerate(sf) if x[0] == 'finish' and x[1:3] == (zn, za)]
                    nxt = [k for k, x in enumerate(sf) if x[0] == 'start' and k > i]
                    if zf and (not nxt or nxt[0] > zf[0]):
                        bad.append('%s#%d completed with %s still queued and %d of %d slots in use, but nothing was started until %s#%d (which needed %d more polls) completed'
                                   % (e[1], e[2], queued, len(inflight), world.limit, zn, za, zd - mine))
            out['free-slots-refilled-after-each-completion'] = '; '.join(bad) if bad else None
    # C07
    bad = []
    for e in starts:
        me = spec[e[1]]
        if me.ty == 'S' and e[3]:
            bad.append('serial %s#%d started while %s running' % (e[1], e[2], list(e[3])))
        if any(spec[o].ty == 'S' for o in e[3]):
            bad.append('%s#%d started while serial %s running' % (e[1], e[2], [o for o in e[3] if spec[o].ty == 'S']))
    out['serial-isolation'] = '; '.join(bad) if bad else None
    # a Serial attempt is dispatched alone: the dispatches between two `get` calls form one batch
    batch, bad = [], []
    for e in tl + [('get', None)]:
        if e[0] == 'get':
            if len(batch) > 1 and any(spec[n].ty == 'S' for n in batch):
                bad.append('batch %s contains a serial scenario' % batch)
            batch = []
        elif e[0] == 'dispatch':
            batch.append(e[1])
    out['serial-dispatched-alone-in-its-batch'] = '; '.join(bad) if bad else None
    # C05 sequencing
    bad = []
    for n in names:
        att = [e for e in tl if e[0] in ('start', 'finish') and e[1] == n]
        seq = [(e[0], e[2]) for e in att]
        want = []
        k = 0
        for e in att:
            if e[0] == 'finish':
                pass
        exp = []
        for i in range(0, len(seq), 2):
            exp += [('start', i // 2), ('finish', i // 2)]
        if seq != exp[:len(seq)]:
            bad.append('%s: attempts overlap or are mis-numbered: %s' % (n, seq))
        fin = [e for e in att if e[0] == 'finish']
        budget = spec[n].budget
        for j, f in enumerate(fin):
            should_retry = f[3] and budget is not None and j < budget
            if f[4] != should_retry:
                bad.append('%s#%d: failed=%s budget=%s retried=%s' % (n, j, f[3], budget, f[4]))
            has_next = any(e[0] == 'start' and e[2] == j + 1 for e in att)
            if res['done'] and has_next != f[4] and not (world.fail_fast and final_fail):
                bad.append('%s#%d: retried=%s but next attempt started=%s' % (n, j, f[4], has_next))
        if len(fin) > (budget or 0) + 1:
            bad.append('%s: %d attempts with budget %s' % (n, len(fin), budget))
    for e in tl:
        if e[0] == 'dispatch':
            b = spec[e[1]].budget
            if (e[3] is None) != (b is None) or (b is not None and e[3] != b - e[2]):
                bad.append('%s#%d dispatched with left=%s, budget %s' % (e[1], e[2], e[3], b))
    out['retry-sequencing'] = '; '.join(bad) if bad else None
    if 'sym' in res:
        out.update(res['sym'])
    # while a delayed retry waits, scenarios that are ready keep being dispatched
    bad = []
    for n in names:
        if spec[n].delay and spec[n].ty == 'C':
            r1 = [i for i, e in enumerate(tl) if e[0] == 'start' and e[1] == n and e[2] == 1]
            if r1:
                for o_ in names:
                    if o_ != n and spec[o_].ty == 'C' and world.parser is None:
                        so = [i for i, e in enumerate(tl) if e[0] == 'start' and e[1] == o_]
                        if so and so[0] > r1[0] and (world.limit is None or world.limit >= 2):
                            bad.append('%s had to wait for the delayed retry of %s' % (o_, n))
    out['others-run-during-retry-delay'] = '; '.join(bad) if bad else None
    # execute() may block on the helper thread that sleeps out a retry delay only when nothing is in flight: an attempt
    # in flight is polled from the same loop, so blocking there freezes it for the whole delay
    bad = []
    for i, e in enumerate(tl):
        if e[0] == 'sleeper_thread_spawned':
            inflight = [(x[1], x[2]) for x in tl[:i] if x[0] == 'start' and not any(y[0] == 'finish' and y[1] == x[1] and y[2] == x[2] for y in tl[:i])]
            if inflight:
                bad.append('execute blocks on the retry-delay sleeper while %s in flight' % inflight)
    out['in-flight-attempts-progress-during-retry-delay'] = '; '.join(bad) if bad else None
    # C08
    if world.fail_fast and final_fail and res['done']:
        i0 = final_fail[0]
        gets_after = [i for i, e in enumerate(tl) if e[0] == 'get' and i > i0]
        late = []
        if gets_after:
            g0 = gets_after[0]
            # attempts dispatched together with the failing one were pushed before this get; anything started after it is new
            late = [e for i, e in enumerate(tl) if e[0] == 'dispatch' and i > g0]
            wrong = [tl[i] for i in gets_after if tl[i][1] != 0]
            if wrong:
                late.append(('get-with-slots', wrong[0]))
        out['fail-fast-stops-dispatching'] = 'after the final failure of %s: %s' % (tl[i0][1], late) if late else None
    if world.fail_fast and not final_fail and res['done']:
        missing = [n for n in names if n not in set(e[1] for e in starts)]
        out['fail-fast-without-failure-runs-everything'] = 'never started: %s' % missing if missing else None
    # C03 framing over brackets
    if res['done']:
        out['brackets'] = check_framing(tl, spec)
        if world.parser is not None:
            # the parser stream of these worlds has no errors: every feature it hands over is counted in ParsingFinished
            pf = [e for e in tl if e[:2] == ('event', 'ParsingFinished')]
            handed = len([1 for _, fi in world.parser if fi != 'end'])
            if len(pf) == 1 and len(pf[0]) >= 4 and pf[0][2] is not None and (pf[0][2], pf[0][3]) != (handed, 0) and out['brackets'] is None:
                out['brackets'] = 'ParsingFinished reports %s features / %s parser errors, the parser handed over %d features and no error' % (pf[0][2], pf[0][3], handed)
    # C10 (hook automaton)
    if res['done']:
        out['panic-hook-restored'] = None if res['hook'] == 'original' else 'panic hook left %s' % res['hook']
        sil = None
        for e in tl:
            if e[0] == 'set_hook':
                sil = e[1]
            if e[0] == 'start' and sil != 'silenced':
                out['panic-hook-silenced-while-running'] = 'scenario %s started with hook %s' % (e[1], sil)
        out.setdefault('panic-hook-silenced-while-running', None)
    return out


def check_framing(tl, spec):
    evs = [e for e in tl if e[0] in ('run', 'bracket', 'start', 'finish')]
    if not evs or evs[0] != ('run', 'Started'):
        return 'first event is not run-Started: %s' % (evs[:1],)
    if evs[-1] != ('run', 'Finished'):
        return 'last event is not run-Finished'
    sent = [e for e in tl if e[0] in ('run', 'bracket', 'event', 'error')]
    if sent and sent[-1] != ('run', 'Finished'):
        return 'run-Finished is not the last item of the stream: %s follows it' % (sent[-1],)
    if len([e for e in sent if e[:2] == ('event', 'ParsingFinished')]) > 1:
        return 'more than one ParsingFinished'
    if len([e for e in evs if e[0] == 'run']) != 2:
        return 'run brackets not exactly once'
    open_f, open_r, closed = {}, {}, set()
    for e in evs[1:-1]:
        if e[0] in ('start', 'finish'):
            sp = spec[e[1]]
            fp, rp = str(0x100 + sp.feature), (str(0x200 + sp.rule) if sp.rule is not None else None)
            if e[0] == 'start' and len(e) >= 7:
                fp, rp = e[4], e[5]
            if e[0] == 'finish' and len(e) >= 8:
                fp, rp = e[5], e[6]
            fk = (fp,)
            if fk not in open_f:
                return 'scenario %s event outside its feature bracket' % e[1]
            open_f[fk] += 1
            if rp is not None:
                rk = (fp, rp)
                if rk not in open_r:
                    return 'scenario %s event outside its rule bracket' % e[1]
                open_r[rk] += 1
        if e[0] == 'bracket':
            _, lvl, kind, f, r = e
            key = (f,) if lvl == 'feature' else (f, r)
            tbl = open_f if lvl == 'feature' else open_r
            if kind == 'Started':
                if key in tbl or key in closed:
                    return '%s %s started twice' % (lvl, key)
                if lvl == 'rule' and (f,) not in open_f:
                    return 'rule %s started outside its feature bracket' % (key,)
                tbl[key] = 0
            else:
                if key not in tbl:
                    return '%s %s finished without being open' % (lvl, key)
                if lvl == 'feature' and any(k[0] == f for k in open_r):
                    return 'feature %s finished while a rule is open' % f
                if tbl[key] == 0:
                    return '%s %s bracket without scenarios' % (lvl, key)
                del tbl[key]
                closed.add(key)
    if open_f or open_r:
        return 'brackets left open: %s %s' % (sorted(open_f), sorted(open_r))
    return None


# ------------------------------------------------------------------------------------------------ native replay

def world_script(world, res, scale=1, custom_classifier=False):
    """runner-mode replay script for a world and the outcomes of one simulated path"""
    fails = {}
    for e in res['events']:
        if e[0] == 'finish':
            fails.setdefault(e[1], {})[e[2]] = e[3]
    lines = ['builder max_concurrent=%s%s%s' % ('none' if world.limit is None else world.limit, ' fail_fast=1' if world.fail_fast else '',
                                             ' which=name_st' if custom_classifier == 'name' else ' which=exclusive' if custom_classifier else '')]
    feats = sorted(set(s.feature for s in world.scens))
    beh = []
    late_of = dict((fi, late) for late, fi in (world.parser or []))
    if world.parser:
        feats = [fi for _, fi in world.parser if fi != 'end']
    for fi in feats:
        lines += ['feature late=%d' % (late_of.get(fi, 0) * scale), '| Feature: f%d' % fi]
        tops = [s for s in world.scens if s.feature == fi and s.rule is None]
        rules = sorted(set(s.rule for s in world.scens if s.feature == fi and s.rule is not None))
        if fi in getattr(world, 'empty_rule_features', ()):
            rules = [9]

        def emit(s, ind):
            tags = []
            if s.ty == 'S':
                if custom_classifier != 'name':         # (the name classifier needs no tag at all: `s` and `t` are serial)
                    tags.append('@exclusive' if custom_classifier else '@serial')
            if s.budget is not None:
                tags.append('@retry(%d)%s' % (s.budget, '.after(300ms)' if s.delay else ''))
            if tags:
                lines.append('| %s%s' % (ind, ' '.join(tags)))
            lines.append('| %sScenario: %s' % (ind, s.name))
            if getattr(s, 'nsteps', 1) > 0:
                lines.append('| %s  Given st%s' % (ind, s.name))
            fl = fails.get(s.name, {})
            nfail = 0
            while fl.get(nfail):
                nfail += 1
            d = s.durs[0] * scale
            allfail = nfail > (s.budget or 0)
            # last resort scale: attempts that take many polls also take real time (longer than the 300 ms retry delay)
            busy = ' busy_ms=700' if scale >= 25 and s.durs[0] >= 3 and any(x.delay for x in world.scens) else ''
            beh.append('step st%s yields=%d%s %s' % (s.name, d, busy, 'always_fail' if allfail else 'fail_first=%d' % nfail))
        for s in tops:
            emit(s, '  ')
        for ri in rules:
            lines.append('|   Rule: r%d' % ri)
            for s in [x for x in world.scens if x.feature == fi and x.rule == ri]:
                emit(s, '    ')
    if 'end' in late_of:
        lines.append('parser_end late=%d' % (late_of['end'] * scale))
    if getattr(world, 'runs', 1) > 1:
        lines.append('runs %d' % world.runs)
    return lines + beh


def native_timeline(out):
    """driver output -> timeline in the simulation's vocabulary (start / finish with running sets)"""
    import re
    tl, running, att_failed = [], [], {}
    for ln in out.splitlines():
        if not ln.startswith('LOG EV '):
            continue
        e = ln[7:].rsplit(' t=', 1)[0]
        m = re.search(r'scenario\[(.*?)\]:(.*) r=(\S+)$', e)
        if e == 'started':
            tl.append(('run', 'Started'))
        elif e == 'finished':
            tl.append(('run', 'Finished'))
        elif e.startswith('parsing_finished'):
            mpf = re.match(r'parsing_finished\[f=(\d+),.*err=(\d+)\]', e)
            tl.append(('event', 'ParsingFinished', int(mpf.group(1)) if mpf else None, int(mpf.group(2)) if mpf else None))
        elif e == 'err':
            tl.append(('error',))
        elif m:
            sc, what, r = m.group(1), m.group(2), m.group(3)
            att = 0 if r == '-' else int(r.split('/')[0])
            if what == 'started':
                tl.append(('start', sc, att, tuple(running)))
                running.append(sc)
            elif what == 'finished':
                if sc in running:
                    running.remove(sc)
                tl.append(('finish', sc, att, att_failed.get((sc, att), False), None))
            elif ':failed' in what:
                att_failed[(sc, att)] = True
        else:
            m2 = re.match(r'feature\[(f\d+)\]:(started|finished)$', e)
            m3 = re.match(r'feature\[(f\d+)\]:rule\[(r\d+)\]:(started|finished)$', e)
            if m2:
                tl.append(('bracket', 'feature', m2.group(2).capitalize(), str(0x100 + int(m2.group(1)[1:])), None))
            elif m3:
                tl.append(('bracket', 'rule', m3.group(3).capitalize(), str(0x100 + int(m3.group(1)[1:])), str(0x200 + int(m3.group(2)[1:]))))
    # retried := a later attempt of the same scenario started
    fixed = []
    for i, e in enumerate(tl):
        if e[0] == 'finish':
            nxt = any(x[0] == 'start' and x[1] == e[1] and x[2] == e[2] + 1 for x in tl[i:])
            fixed.append(('finish', e[1], e[2], e[3], nxt))
        else:
            fixed.append(e)
    return fixed


def native_oracle(world, name, tl, done):
    res = {'events': tl, 'done': done, 'spin': None, 'polls': 0, 'hook': 'original'}
    # natively there is no 'get' marker: fail-fast is judged on dispatches that START after the final failure was finished
    if name == 'fail-fast-stops-dispatching':
        ff = [i for i, e in enumerate(tl) if e[0] == 'finish' and e[3] and not e[4]]
        if not ff:
            return None
        late = [e for i, e in enumerate(tl) if e[0] == 'start' and i > ff[0]]
        # Started is emitted at the first poll, in the loop turn that dispatched the attempt: a start after the
        # final failure's Finished event was dispatched after that failure was observable
        return 'after the final failure of %s, %s still started' % (tl[ff[0]][1], [e[1] for e in late]) if late else None
    if name in ('panic-hook-silenced-while-running', 'panic-hook-restored'):
        return None       # judged from the driver's HOOK lines (see confirm_native)
    if name == 'in-flight-attempts-progress-during-retry-delay':
        # natively the delay is 300 ms and a yield costs microseconds: an attempt that was in flight when the delayed
        # scenario failed finishes long before the retried attempt may start
        spec = {s.name: s for s in world.scens}
        bad = []
        for n, sp in spec.items():
            if not sp.delay:
                continue
            f0 = [i for i, e in enumerate(tl) if e[0] == 'finish' and e[1] == n and e[2] == 0]
            r1 = [i for i, e in enumerate(tl) if e[0] == 'start' and e[1] == n and e[2] == 1]
            if not f0 or not r1:
                continue
            for o_ in spec:
                so = [i for i, e in enumerate(tl) if e[0] == 'start' and e[1] == o_ and e[2] == 0]
                fo = [i for i, e in enumerate(tl) if e[0] == 'finish' and e[1] == o_ and e[2] == 0]
                if o_ != n and so and so[0] < f0[0] and (not fo or fo[0] > r1[0]):
                    bad.append('%s was in flight when %s failed and finished only after %s#1 started (300 ms later)' % (o_, n, n))
        return '; '.join(bad) if bad else None
    orc = oracles(world, res)
    return orc.get(name)


def confirm_native(chk, o, prop, name):
    """replay a violating world natively (a few duration scales) and judge the same oracle on the real event stream"""
    import os
    from checks import replay
    wname, world, res = o.world
    d = os.path.join(common.EVID, 'replay')
    os.makedirs(d, exist_ok=True)
    tried = []
    has_serial = any(s_.ty == 'S' for s_ in world.scens)
    variants = [(sc_, False) for sc_ in (1, 2, 5, 25)] + ([(sc_, True) for sc_ in (1, 5)] + [(sc_, 'name') for sc_ in (1, 5)] if has_serial else [])
    for scale, custom in variants:
        path = os.path.join(d, '%s-execute-%s-x%d%s.script' % (prop, name.replace('<', 'le').replace('=', ''), scale, '-name-classifier' if custom == 'name' else '-custom-classifier' if custom else ''))
        r, out = replay.run_script('\n'.join(['mode runner'] + world_script(world, res, scale, custom)) + '\n', path, timeout=60)
        chk.replays += 1
        if r is None:
            tried.append('x%d: driver failed' % scale)
            continue
        done = not r.get('timeout')
        if name == 'completes':
            err = 'a panic escaped the real run: %s' % out.strip().splitlines()[-1][:160] if (r.get('escaped') or not r.get('stream_ended', False)) and not r.get('timeout') else None
        elif name == 'terminates':
            err = None if done else 'the real runner did not end its event stream within the watchdog'
        elif name in ('panic-hook-silenced-while-running', 'panic-hook-restored'):
            import re as _re
            hk = [(int(a), int(b)) for a, b in _re.findall(r'LOG HOOK during_run=(\d+) probe_reached=(\d+)', out)]
            panics = len(_re.findall(r'LOG exit \w+ \[[^\]]*\] call=\d+ panic', out))
            err = None
            if name == 'panic-hook-silenced-while-running' and panics and any(d > 0 for d, _ in hk):
                err = 'panics of scripted steps reached the process panic hook during a run: per run %s' % [d for d, _ in hk]
            if name == 'panic-hook-restored' and any(p != 1 for _, p in hk):
                err = 'after a run a probe panic did not reach the hook installed before it: per run %s' % [p for _, p in hk]
        else:
            err = native_oracle(world, name, native_timeline(out), done)
        if err:
            chk.replay_files.append(path)
            o.replay = path
            o.detail += ' | reproduced natively through the real runner (yields x%d): %s' % (scale, err)
            return True
        tried.append('x%d: ok' % scale)
        os.remove(path)
    o.verdict = 'inconclusive'
    o.detail += ' | not reproduced natively (%s)' % ', '.join(tried)
    return False
