"""C06 - never more scenarios in flight than the concurrency limit."""
from checks import common, sched, run_prefix, builder_defaults, sched_worlds


def body(chk):
    builder_defaults.defaults(chk, 'C06')
    builder_defaults.setters(chk, 'C06', which=('max_concurrent_scenarios',))
    run_prefix.obligations(chk, 'C06', which=('concurrency',))
    sched.get_obligations(chk, 'C06')
    sched_worlds.run(chk, 'C06')
    # CLI options installed through Cucumber::with_cli() survive the builder methods called afterwards
    from checks import cucumber_builders
    cucumber_builders.obligations(chk, 'C06')
    # the limit set on the runner survives the runner's other builder methods (which_scenario / before / after rebuild it)
    from checks import runner_builders
    runner_builders.obligations(chk, 'C06', fields=('max_concurrent_scenarios',))


if __name__ == '__main__':
    common.main('C06', body)
