"""Scheduler storage kernels decided on their MIR: Features::get, insert_scenarios, is_finished (C05, C06, C07, C08).

The storage is the real `HashMap<ScenarioType, Vec<entry>>` behind the real `Arc<futures::lock::Mutex<..>>`
(modelled: association map, mutex that locks at once).  Queue shapes are enumerated (<= 2 entries per type quick,
3 thorough); everything inside an entry is symbolic: presence of retry options, of a delay, of a start instant,
the delay and the clock reading (`Instant::elapsed` is an arbitrary value per call).
"""
import itertools

import z3

from checks import common
from checks.common import Obligation
from checks.fail_on_skipped import poll_to_completion
from mirsmt.values import Cell, Lazy, Adt, Ref, Obj, UNIT, bv
from mirsmt.interp import Inconclusive, PathEnd

ENTRY_TY = '(ScenarioId, event::Source<gherkin::Feature>, Option<event::Source<gherkin::Rule>>, event::Source<gherkin::Scenario>, Option<RetryOptionsWithDeadline>)'


class SIdx:
    def __init__(self, prog):
        t = prog.tables

        def sf(ty, n):
            fl = t.struct_fields(ty)
            if not isinstance(fl, list) or n not in fl:
                raise Inconclusive('%s has no field %s' % (ty, n))
            return fl.index(n)
        self.F = {n: sf('runner::basic::Features', n) for n in ('scenarios', 'finished')}
        self.R = {n: sf('event::Retries', n) for n in ('current', 'left')}
        self.RD = {n: sf('runner::basic::RetryOptionsWithDeadline', n) for n in ('retries', 'after')}
        self.RO = {n: sf('runner::basic::RetryOptions', n) for n in ('retries', 'after')}
        vs = t.enum_variants('runner::basic::ScenarioType')
        if vs is None:
            raise Inconclusive('ScenarioType not found')
        self.Ty = {v[0]: i for i, v in enumerate(vs)}


class QEntry:
    """A queued scenario with symbolic retry state."""

    def __init__(self, tag):
        self.tag = tag
        self.pid = z3.BitVec('%s.pid' % tag, 64)
        self.ret = z3.BitVec('%s.ret' % tag, 64)        # Option<RetryOptionsWithDeadline>
        self.cur = z3.BitVec('%s.cur' % tag, 64)
        self.left = z3.BitVec('%s.left' % tag, 64)
        self.after = z3.BitVec('%s.after' % tag, 64)    # Option<(Duration, Option<Instant>)>
        self.dur = z3.BitVec('%s.dur' % tag, 64)
        self.inst = z3.BitVec('%s.inst_d' % tag, 64)    # Option<Instant>
        self.t0 = z3.BitVec('%s.t0' % tag, 64)

    def wf(self):
        return z3.And(z3.ULT(self.ret, bv(2)), z3.ULT(self.after, bv(2)), z3.ULT(self.inst, bv(2)))

    def has_deadline(self):
        return z3.And(self.ret == bv(1), self.after == bv(1), self.inst == bv(1))

    def value(self, ix):
        src = Adt('event::Source<gherkin::Scenario>', {(None, 0): Ref(Cell(Lazy('gherkin::Scenario', self.tag + '.scn'), name=self.tag + '.scn'), (), pid=self.pid)})
        tup = Adt('(Duration, Option<Instant>)', {(None, 0): self.dur, (None, 1): Adt('Option<std::time::Instant>', {(1, 0): self.t0}, self.inst)})
        rd = Adt('runner::basic::RetryOptionsWithDeadline', {
            (None, ix.RD['retries']): Adt('event::Retries', {(None, ix.R['current']): self.cur, (None, ix.R['left']): self.left}),
            (None, ix.RD['after']): Adt('Option<(Duration, Option<Instant>)>', {(1, 0): tup}, self.after)})
        return Adt(ENTRY_TY, {(None, 0): Lazy('ScenarioId', self.tag + '.id'), (None, 1): Lazy('event::Source<gherkin::Feature>', self.tag + '.feat'),
                              (None, 2): Lazy('Option<event::Source<gherkin::Rule>>', self.tag + '.rule'), (None, 3): src,
                              (None, 4): Adt('Option<RetryOptionsWithDeadline>', {(1, 0): rd}, self.ret)})


def features_value(ix, M, serial, conc, finished=None, with_keys=(True, True)):
    entries = []
    if with_keys[0]:
        entries.append((Adt('runner::basic::ScenarioType', {}, ix.Ty['Serial']), Obj('vec', items=tuple(e.value(ix) for e in serial), ty='Vec<entry>')))
    if with_keys[1]:
        entries.append((Adt('runner::basic::ScenarioType', {}, ix.Ty['Concurrent']), Obj('vec', items=tuple(e.value(ix) for e in conc), ty='Vec<entry>')))
    m = M.new_assoc('runner::basic::ScenarioType', 'Vec<%s>' % ENTRY_TY, entries)
    mutex_cell = Cell(Adt('Mutex<Scenarios>', {(None, 0): m}), name='storage')
    fin_cell = Cell(Adt('AtomicBool', {(None, 0): finished if finished is not None else z3.Bool('finished')}), name='finished')
    fv = Adt('runner::basic::Features', {(None, ix.F['scenarios']): Ref(mutex_cell, (), pid=bv(0x51)),
                                         (None, ix.F['finished']): Ref(fin_cell, (), pid=bv(0x52))})
    return fv, mutex_cell


def _find_method(prog, st, meth):
    c = [b for (s, m), lst in prog.by_method.items() if s == st and m == meth for tr, b in lst]
    if len(c) != 1:
        raise Inconclusive('%s::%s: %d candidates' % (st, meth, len(c)))
    return c[0]


@common.part
def get_obligations(chk, prop, focus=None):
    """Features::get from arbitrary queues."""
    ix = SIdx(chk.prog)
    entry = _find_method(chk.prog, 'Features', 'get')
    nmax = 3 if chk.tier == 'thorough' else 2
    obs = {}
    bound = 'every path of Features::get; queues of 0..%d Serial x 0..%d Concurrent entries; retry options / delay / start instant present or absent; delay and clock symbolic (64-bit); limit None | Some(0..%d)' % (nmax, nmax, nmax + 1)

    def ob(name):
        if name not in obs:
            obs[name] = chk.add(Obligation('%s.get.%s' % (prop, name), bound))
            obs[name].verdict = 'holds'
        return obs[name]
    npaths = [0]
    limits = [None] + list(range(0, nmax + 2))
    for ns, nc in itertools.product(range(nmax + 1), range(nmax + 1)):
        for lim in limits:
            ex, M = chk.new_exec(loop_bound=2 * nmax + 8)
            M.opaque_bodies |= {'ScenarioId::new'}
            serial = [QEntry('s%d' % i) for i in range(ns)]
            conc = [QEntry('c%d' % i) for i in range(nc)]

            def run(ex_, serial=serial, conc=conc, lim=lim, M=M):
                for e in serial + conc:
                    ex_.add(e.wf())
                fv, mcell = features_value(ix, M, serial, conc)
                cell = Cell(fv, name='features')
                limv = Adt('Option<usize>', {}, 0) if lim is None else Adt('Option<usize>', {(1, 0): bv(lim)}, 1)
                co = ex_.call_body(entry, [Ref(cell, ()), limv])
                polls, r = poll_to_completion(ex_, M, co, 4)
                out = ex_.field_of(ex_.materialize(r), 0, 0, '(Vec, Option<Duration>)')
                return {'out': ex_.materialize(out), 'storage': mcell.v, 'elapsed': list(ex_.env.get('elapsed', []))}

            def on_end(ex_, rec, serial=serial, conc=conc, lim=lim, M=M):
                kind, res, pc, dec = rec
                npaths[0] += 1
                if kind != 'ok':
                    o = ob('completes')
                    o.verdict = 'inconclusive' if kind in ('loopbound', 'unreachable') else 'violated'
                    o.detail = '%s: %s' % (kind, res)
                    return
                out = res['out']
                vec = ex_.materialize(ex_.field_of(out, None, 0, 'Vec'))
                mind = ex_.materialize(ex_.field_of(out, None, 1, 'Option<std::time::Duration>'))
                got = list(vec.items)
                # which clock reading belongs to which entry: Instant::elapsed(&t0) is logged with t0
                el = {}
                for (t0, e) in res['elapsed']:
                    el[str(t0)] = e
                allq = serial + conc

                def waiting(q):
                    e = el.get(str(q.t0))
                    if e is None:
                        return None
                    return z3.And(q.has_deadline(), z3.ULE(e, q.dur))
                terms = {}
                for q in allq:
                    terms.update({q.tag + '.ret': q.ret, q.tag + '.after': q.after, q.tag + '.inst': q.inst, q.tag + '.dur': q.dur})
                    if str(q.t0) in el:
                        terms[q.tag + '.elapsed'] = el[str(q.t0)]

                def refute(o, claim, extra=None):
                    o.paths += 1
                    o.queries += 1
                    if ex_.check(z3.Not(claim)):
                        if o.verdict != 'violated':
                            o.verdict = 'violated'
                            o.model = common.model_dict(ex_.solver.model(), terms)
                            o.model.update({'serial_queue': len(serial), 'concurrent_queue': len(conc), 'limit': lim, 'returned': len(got)})
                            if extra:
                                o.model.update(extra)
                            o.detail = 'counterexample queue state'
                # identify returned entries by scenario pointer identity
                def who(item):
                    p = M.pid(ex_, ex_.field_of(ex_.materialize(item), None, 3, 'event::Source<gherkin::Scenario>'))
                    for q in allq:
                        if not ex_.check(p != q.pid) and ex_.check(p == q.pid):
                            return q
                    return None
                ids = [who(it) for it in got]
                o = ob('returns-queued-entries-only')
                o.paths += 1
                if any(q is None for q in ids) or len(set(id(q) for q in ids)) != len(ids):
                    o.verdict = 'violated'
                    o.detail = 'returned something that was not queued (or twice)'
                    return
                # C06: never more than the limit; none when the limit is 0
                if lim is not None:
                    o = ob('at-most-limit-entries')
                    o.paths += 1
                    if len(got) > lim:
                        o.verdict = 'violated'
                        o.detail = 'returned %d entries with limit %d' % (len(got), lim)
                        o.model = {'serial_queue': len(serial), 'concurrent_queue': len(conc), 'limit': lim, 'returned': len(got)}
                # C05: a returned entry's delay has elapsed (its deadline was evaluated and is over, or it has none)
                for q in ids:
                    w = waiting(q)
                    if w is None:
                        refute(ob('returned-entries-are-ready'), z3.Not(q.has_deadline()), {'entry': q.tag, 'deadline_not_evaluated': True})
                    else:
                        refute(ob('returned-entries-are-ready'), z3.Not(w), {'entry': q.tag})
                # C07: a Serial entry is returned alone and carries type Serial; concurrent ones carry Concurrent
                tys = [M.discr(ex_, ex_.field_of(ex_.materialize(it), None, 4, 'runner::basic::ScenarioType')) for it in got]
                for q, t in zip(ids, tys):
                    want = ix.Ty['Serial'] if q in serial else ix.Ty['Concurrent']
                    refute(ob('returned-type-matches-queue'), t == bv(want))
                if any(q in serial for q in ids):
                    o = ob('serial-entry-returned-alone')
                    o.paths += 1
                    if len(got) != 1:
                        o.verdict = 'violated'
                        o.detail = 'a Serial entry was returned together with %d others' % (len(got) - 1)
                # order preserved, queue front first; remaining storage = original minus returned, in order
                o = ob('fifo-order-and-storage-consistent')
                o.paths += 1
                st = res['storage']
                mm = ex_.field_of(st, None, 0, 'Scenarios')
                rem = {}
                for k, v in mm.entries:
                    kk = z3.simplify(M.discr(ex_, k)).as_long()
                    rem[kk] = [who_rem for who_rem in v.items]
                def pids(items):
                    return [str(z3.simplify(M.pid(ex_, ex_.field_of(ex_.materialize(x), None, 3, 'event::Source<gherkin::Scenario>')))) for x in items]
                for queue, key in ((serial, ix.Ty['Serial']), (conc, ix.Ty['Concurrent'])):
                    taken = [q for q in ids if q in queue]
                    if taken != [q for q in queue if q in taken]:
                        o.verdict = 'violated'
                        o.detail = 'returned entries are out of queue order'
                    want_rem = [str(q.pid) for q in queue if q not in taken]
                    if pids(rem.get(key, [])) != want_rem:
                        o.verdict = 'violated'
                        o.detail = 'storage after get: %s, expected %s' % (pids(rem.get(key, [])), want_rem)
                # a ready Serial entry wins over everything; otherwise the first `limit` ready Concurrent ones are all taken
                ws = [waiting(q) for q in serial]
                if not ids and lim != 0:
                    # nothing returned => every queued entry is waiting (its deadline evaluated and not over)
                    for q in allq:
                        w = waiting(q)
                        refute(ob('ready-entries-are-not-withheld'), w if w is not None else z3.BoolVal(False), {'entry': q.tag})
                    # and the minimum wait over all of them is reported
                    if allq:
                        lefts = [q.dur - el[str(q.t0)] for q in allq if str(q.t0) in el]
                        if len(lefts) == len(allq):
                            mn = lefts[0]
                            for x in lefts[1:]:
                                mn = z3.If(z3.ULT(x, mn), x, mn)
                            md = M.discr(ex_, mind)
                            okm = z3.And(md == bv(1), ex_.materialize(ex_.field_of(mind, 1, 0, 'std::time::Duration'), 'std::time::Duration') == mn) if ex_.check(md == bv(1)) else z3.BoolVal(False)
                            refute(ob('minimum-wait-reported-when-nothing-is-ready'), okm)
                    else:
                        refute(ob('minimum-wait-reported-when-nothing-is-ready'), M.discr(ex_, mind) == bv(0))
                if ids and all(q in conc for q in ids):
                    # concurrent batch: no Serial entry was ready; batch is maximal w.r.t. limit among ready ones that were examined
                    for q in serial:
                        w = waiting(q)
                        refute(ob('ready-serial-entry-has-priority'), w if w is not None else z3.BoolVal(False), {'entry': q.tag})
                    if lim is None or len(ids) < lim:
                        for q in conc:
                            if q not in ids:
                                w = waiting(q)
                                refute(ob('free-slots-are-filled-with-ready-entries'), w if w is not None else z3.BoolVal(False), {'entry': q.tag})
                if ids and ids[0] in serial:
                    # entries in front of it in the serial queue were waiting
                    for q in serial[:serial.index(ids[0])]:
                        w = waiting(q)
                        refute(ob('fifo-among-ready-serial-entries'), w if w is not None else z3.BoolVal(False), {'entry': q.tag})
                # retry options handed on unchanged
                for q, it in zip(ids, got):
                    ro = ex_.materialize(ex_.field_of(ex_.materialize(it), None, 5, 'Option<RetryOptions>'))
                    d = M.discr(ex_, ro)
                    c = [d == q.ret]
                    if ex_.check(d == bv(1)):
                        rv = ex_.materialize(ex_.field_of(ro, 1, 0, 'runner::basic::RetryOptions'))
                        rr = ex_.materialize(ex_.field_of(rv, None, ix.RO['retries'], 'event::Retries'))
                        c.append(z3.Implies(d == bv(1), z3.And(
                            ex_.materialize(ex_.field_of(rr, None, ix.R['current'], 'usize'), 'usize') == q.cur,
                            ex_.materialize(ex_.field_of(rr, None, ix.R['left'], 'usize'), 'usize') == q.left)))
                        av = ex_.materialize(ex_.field_of(rv, None, ix.RO['after'], 'Option<std::time::Duration>'))
                        ad = M.discr(ex_, av)
                        c.append(z3.Implies(d == bv(1), ad == q.after))
                        if ex_.check(ad == bv(1)):
                            c.append(z3.Implies(z3.And(d == bv(1), ad == bv(1)), ex_.materialize(ex_.field_of(av, 1, 0, 'std::time::Duration'), 'std::time::Duration') == q.dur))
                    refute(ob('retry-options-handed-on-unchanged'), z3.And(*c), {'entry': q.tag})
            ex.explore(run, on_end)
    bad = [o for o in obs.values() if o.verdict == 'violated']
    if bad:
        confirm_get(chk, bad, prop)
    w = chk.add(Obligation('%s.get.witness' % prop, 'exploration'))
    w.kind = 'witness'
    need = {'returned-entries-are-ready', 'serial-entry-returned-alone', 'minimum-wait-reported-when-nothing-is-ready', 'free-slots-are-filled-with-ready-entries'}
    w.verdict = 'witness-ok' if need <= set(obs) and npaths[0] > 50 else 'witness-missing'
    w.detail = '%d paths; exercised: %s' % (npaths[0], sorted(obs))
    chk.assumptions.append('Features::get: futures Mutex locks at once (no other holder while get runs - both users drop the guard before their next await); ScenarioId::new havoced')
    return list(obs.values())


def confirm_get(chk, bad, prop):
    """In-crate differential replay of Features::get on concrete queues (all shapes up to 2+2 entries, each entry
    ready / waiting / no-retry), compared with the specification."""
    import os
    from checks import incrate
    code = r'''
    use std::time::{Duration, Instant};
    fn entry(tag: &str, kind: u8) -> (ScenarioId, Source<gherkin::Feature>, Option<Source<gherkin::Rule>>, Source<gherkin::Scenario>, Option<RetryOptionsWithDeadline>) {
        let f = gherkin::Feature::parse(format!("Feature: f\n  Scenario: {tag}\n    Given x\n"), gherkin::GherkinEnv::default()).unwrap();
        let s = Source::new(f.scenarios[0].clone());
        let ret = match kind {
            0 => None,
            1 => Some(RetryOptionsWithDeadline { retries: Retries { current: 1, left: 1 }, after: Some((Duration::from_secs(3600), Some(Instant::now()))) }),
            2 => Some(RetryOptionsWithDeadline { retries: Retries { current: 1, left: 1 }, after: Some((Duration::from_millis(1), Instant::now().checked_sub(Duration::from_secs(2)))) }),
            _ => Some(RetryOptionsWithDeadline { retries: Retries { current: 0, left: 1 }, after: Some((Duration::from_secs(3600), None)) }),
        };
        (ScenarioId::new(), Source::new(f), None, s, ret)
    }
    #[test]
    fn verif_replay() {
        let kinds = [0u8, 1, 2, 3];
        let mut shapes: Vec<(Vec<u8>, Vec<u8>)> = vec![];
        let mut qs: Vec<Vec<u8>> = vec![vec![]];
        for a in kinds { qs.push(vec![a]); for b in kinds { qs.push(vec![a, b]); } }
        for s in &qs { for c in &qs { shapes.push((s.clone(), c.clone())); } }
        for (s, c) in shapes {
            for lim in [None, Some(0usize), Some(1), Some(2), Some(3)] {
                let feats = Features::default();
                futures::executor::block_on(async {
                    let mut g = feats.scenarios.lock().await;
                    if !s.is_empty() { g.insert(ScenarioType::Serial, s.iter().enumerate().map(|(i, k)| entry(&format!("s{i}"), *k)).collect()); }
                    if !c.is_empty() { g.insert(ScenarioType::Concurrent, c.iter().enumerate().map(|(i, k)| entry(&format!("c{i}"), *k)).collect()); }
                });
                let (got, min) = futures::executor::block_on(feats.get(lim));
                let names: Vec<String> = got.iter().map(|e| format!("{}:{}", e.3.name, if e.4 == ScenarioType::Serial { "S" } else { "C" })).collect();
                let rem = futures::executor::block_on(async {
                    let g = feats.scenarios.lock().await;
                    let f = |t| g.get(&t).map_or(String::new(), |v| v.iter().map(|e| e.3.name.clone()).collect::<Vec<_>>().join(","));
                    format!("{}|{}", f(ScenarioType::Serial), f(ScenarioType::Concurrent))
                });
                println!("RESULT s={} c={} lim={} got={} min={} rem={}", s.iter().map(|k| k.to_string()).collect::<String>() + "_", c.iter().map(|k| k.to_string()).collect::<String>() + "_", lim.map_or(-1i64, |l| l as i64), names.join(",") + "_", min.map_or(-1i64, |d| d.as_secs() as i64), rem);
            }
        }
    }
'''
    res, out = incrate.run('src/runner/basic.rs', code)
    chk.replays += 1
    devs = []
    for r in res:
        s = [int(ch) for ch in str(r['s']).rstrip('_')]
        c = [int(ch) for ch in str(r['c']).rstrip('_')]
        lim = None if r['lim'] == -1 else r['lim']
        ready = lambda k: k != 1  # noqa
        exp, exam_wait = [], False
        if lim == 0:
            exp, min_exp = [], False
        else:
            sr = [i for i, k in enumerate(s) if ready(k)]
            if sr:
                exp = ['s%d:S' % sr[0]]
                exam_wait = any(not ready(k) for k in s[:sr[0]])
            else:
                exam_wait = len(s) > 0
                cnt = 0
                for i, k in enumerate(c):
                    if lim is not None and cnt >= lim:
                        break
                    if ready(k):
                        exp.append('c%d:C' % i)
                        cnt += 1
                    else:
                        exam_wait = True
            min_exp = exam_wait
        got = [x for x in str(r['got']).rstrip('_').split(',') if x]
        ok = got == exp and ((r['min'] >= 0) == min_exp)
        if not ok:
            devs.append((r, exp, min_exp))
    d = os.path.join(common.EVID, 'replay')
    os.makedirs(d, exist_ok=True)
    path = os.path.join(d, '%s-features-get.txt' % prop)
    for o in bad:
        if not res:
            o.verdict = 'inconclusive'
            o.detail += ' | in-crate replay did not run: %s' % out[-300:]
        elif devs:
            with open(path, 'w') as f:
                f.write('queue entry kinds: 0 = no retry options, 1 = retry waiting (1h delay just started), 2 = retry whose delay is over, 3 = first attempt with a configured delay (no start instant)\n')
                for r, exp, me in devs[:40]:
                    f.write('real %s ; specification: got=%s min_reported=%s\n' % (r, exp, me))
            o.replay = path
            if path not in chk.replay_files:
                chk.replay_files.append(path)
            o.detail += ' | reproduced natively (in-crate differential replay of the real Features::get, %d queue states, %d deviate), e.g. real %s vs specification %s' % (len(res), len(devs), devs[0][0], devs[0][1])
        else:
            o.verdict = 'inconclusive'
            o.detail += ' | in-crate replay of %d queue states follows the specification - counterexample not reproduced' % len(res)


@common.part
def insert_scenarios_obligations(chk, prop):
    """Features::insert_scenarios: nothing lost or duplicated, old entries keep their order, first attempts
    (no retry options or current == 0) get no deadline, retried ones get `now` as start and go to the queue front."""
    ix = SIdx(chk.prog)
    entry = _find_method(chk.prog, 'Features', 'insert_scenarios')
    obs = {}
    shapes = [(0, 1, 0, 1), (1, 1, 1, 1), (0, 2, 0, 1), (1, 2, 1, 0), (1, 0, 0, 1), (1, 0, 1, 1)] if chk.tier != 'thorough' else \
        [(a, b, c, d) for a in (0, 1) for b in (0, 1, 2) for c in (0, 1) for d in (0, 1) if a + b > 0]
    bound = 'every path of Features::insert_scenarios; inserted (Serial, Concurrent) / already queued (Serial, Concurrent) entry counts %s; retry options symbolic; both iteration orders of every hash map' % (shapes,)

    def ob(name):
        if name not in obs:
            obs[name] = chk.add(Obligation('%s.insert_scenarios.%s' % (prop, name), bound))
            obs[name].verdict = 'holds'
        return obs[name]
    npaths = [0]
    for (isr, ico, osr, oco) in shapes:
        ex, M = chk.new_exec(loop_bound=12)
        new_s = [QEntry('ns%d' % i) for i in range(isr)]
        new_c = [QEntry('nc%d' % i) for i in range(ico)]
        old_s = [QEntry('os%d' % i) for i in range(osr)]
        old_c = [QEntry('oc%d' % i) for i in range(oco)]

        def ins_value(q):
            src = Adt('event::Source<gherkin::Scenario>', {(None, 0): Ref(Cell(Lazy('gherkin::Scenario', q.tag + '.scn'), name=q.tag + '.scn'), (), pid=q.pid)})
            ro = Adt('runner::basic::RetryOptions', {
                (None, ix.RO['retries']): Adt('event::Retries', {(None, ix.R['current']): q.cur, (None, ix.R['left']): q.left}),
                (None, ix.RO['after']): Adt('Option<std::time::Duration>', {(1, 0): q.dur}, q.after)})
            return Adt('(ScenarioId, .., Option<RetryOptions>)', {(None, 0): Lazy('ScenarioId', q.tag + '.id'), (None, 1): Lazy('event::Source<gherkin::Feature>', q.tag + '.feat'),
                                                                (None, 2): Lazy('Option<event::Source<gherkin::Rule>>', q.tag + '.rule'), (None, 3): src,
                                                                (None, 4): Adt('Option<RetryOptions>', {(1, 0): ro}, q.ret)})

        def run(ex_, M=M, new_s=new_s, new_c=new_c, old_s=old_s, old_c=old_c):
            for q in new_s + new_c + old_s + old_c:
                ex_.add(q.wf())
            fv, mcell = features_value(ix, M, old_s, old_c, with_keys=(bool(old_s), bool(old_c)))
            cell = Cell(fv, name='features')
            ent = []
            if new_s:
                ent.append((Adt('runner::basic::ScenarioType', {}, ix.Ty['Serial']), Obj('vec', items=tuple(ins_value(q) for q in new_s), ty='Vec<..>')))
            if new_c:
                ent.append((Adt('runner::basic::ScenarioType', {}, ix.Ty['Concurrent']), Obj('vec', items=tuple(ins_value(q) for q in new_c), ty='Vec<..>')))
            arg = M.new_assoc('runner::basic::ScenarioType', 'Vec<..>', ent)
            args = [Ref(cell, ()), arg]
            given_now = []
            for (_l, pty) in entry.params[2:]:
                # a change may hand the base instant in instead of reading the clock inside: the caller's reading of
                # the clock at the call is what "now" means then
                if pty.endswith('Instant'):
                    given_now.append(M.tick(ex_))
                    args.append(given_now[-1])
                else:
                    args.append(common.default_by_type(M, pty, _l))
            co = ex_.call_body(entry, args)
            poll_to_completion(ex_, M, co, 4)
            return {'storage': mcell.v, 'now': given_now or list(ex_.env.get('now_calls', []))}

        def on_end(ex_, rec, M=M, new_s=new_s, new_c=new_c, old_s=old_s, old_c=old_c):
            kind, res, pc, dec = rec
            npaths[0] += 1
            if kind != 'ok':
                o = ob('completes')
                o.verdict = 'inconclusive' if kind in ('loopbound', 'unreachable') else 'violated'
                o.detail = '%s: %s' % (kind, res)
                return
            mm = ex_.field_of(res['storage'], None, 0, 'Scenarios')
            q = {}
            for k, v in mm.entries:
                q[z3.simplify(M.discr(ex_, k)).as_long()] = list(v.items)
            allq = {x.tag: x for x in new_s + new_c + old_s + old_c}

            def who(item):
                p = M.pid(ex_, ex_.field_of(ex_.materialize(item), None, 3, 'event::Source<gherkin::Scenario>'))
                for x in allq.values():
                    if ex_.check(p == x.pid) and not ex_.check(p != x.pid):
                        return x
                return None
            terms = {}
            for x in new_s + new_c:
                terms.update({x.tag + '.ret': x.ret, x.tag + '.current': x.cur, x.tag + '.after': x.after})

            def refute(o, claim, extra=None):
                o.paths += 1
                o.queries += 1
                if ex_.check(z3.Not(claim)):
                    if o.verdict != 'violated':
                        o.verdict = 'violated'
                        o.model = common.model_dict(ex_.solver.model(), terms)
                        o.model.update(extra or {})
                        o.detail = 'counterexample'
            for ty, news, olds in ((ix.Ty['Serial'], new_s, old_s), (ix.Ty['Concurrent'], new_c, old_c)):
                got = [who(it) for it in q.get(ty, [])]
                o = ob('nothing-lost-or-duplicated')
                o.paths += 1
                if None in got or sorted(x.tag for x in got) != sorted(x.tag for x in news + olds):
                    o.verdict = 'violated'
                    o.detail = 'queue %d holds %s, expected the entries %s' % (ty, [x.tag if x else None for x in got], [x.tag for x in news + olds])
                    o.model = {'queue': ty, 'holds': [x.tag if x else None for x in got]}
                    continue
                o = ob('already-queued-entries-keep-their-order')
                o.paths += 1
                if [x for x in got if x in olds] != olds:
                    o.verdict = 'violated'
                    o.detail = 'old entries reordered'
                # retried entries (current > 0) are in front of old entries; first attempts behind unless a Serial batch came in
                for x in news:
                    it = q[ty][got.index(x)]
                    rd = ex_.materialize(ex_.field_of(ex_.materialize(it), None, 4, 'Option<RetryOptionsWithDeadline>'))
                    d = M.discr(ex_, rd)
                    retried = z3.And(x.ret == bv(1), x.cur != bv(0))
                    c = [d == x.ret]
                    if ex_.check(d == bv(1)):
                        rv = ex_.materialize(ex_.field_of(rd, 1, 0, 'RetryOptionsWithDeadline'))
                        rr = ex_.materialize(ex_.field_of(rv, None, ix.RD['retries'], 'event::Retries'))
                        c.append(z3.And(ex_.materialize(ex_.field_of(rr, None, ix.R['current'], 'usize'), 'usize') == x.cur,
                                        ex_.materialize(ex_.field_of(rr, None, ix.R['left'], 'usize'), 'usize') == x.left))
                        av = ex_.materialize(ex_.field_of(rv, None, ix.RD['after'], 'Option<(Duration, Option<Instant>)>'))
                        ad = M.discr(ex_, av)
                        c.append(ad == x.after)
                        if ex_.check(ad == bv(1)):
                            tup = ex_.materialize(ex_.field_of(av, 1, 0, '(Duration, Option<Instant>)'))
                            c.append(ex_.materialize(ex_.field_of(tup, None, 0, 'std::time::Duration'), 'std::time::Duration') == x.dur)
                            io = ex_.materialize(ex_.field_of(tup, None, 1, 'Option<std::time::Instant>'))
                            di = M.discr(ex_, io)
                            c.append(di == z3.If(retried, bv(1), bv(0)))
                            if ex_.check(di == bv(1)) and res['now']:
                                c.append(z3.Implies(di == bv(1), ex_.materialize(ex_.field_of(io, 1, 0, 'std::time::Instant'), 'std::time::Instant') == res['now'][0]))
                    refute(ob('deadline-only-for-retried-entries-starting-now'), z3.And(*c), {'entry': x.tag})
                    pos = got.index(x)
                    before_old = all(got.index(y) > pos for y in olds)
                    serial_batch = z3.Or(*[z3.Not(z3.And(y.ret == bv(1), y.cur != bv(0))) for y in new_s]) if new_s else z3.BoolVal(False)
                    if olds:
                        # retried => in front of everything that was queued; first attempt => behind, unless a fresh Serial batch arrived
                        refute(ob('retried-entries-go-to-the-queue-front'), z3.Implies(retried, z3.BoolVal(before_old)), {'entry': x.tag})
                        refute(ob('first-attempts-queue-behind-unless-a-serial-batch-arrives'),
                               z3.Implies(z3.Not(retried), z3.BoolVal(before_old) == serial_batch), {'entry': x.tag})
        ex.explore(run, on_end)
    bad = [o for o in obs.values() if o.verdict == 'violated']
    if bad:
        confirm_insert_scenarios(chk, bad, prop)
    w = chk.add(Obligation('%s.insert_scenarios.witness' % prop, 'exploration'))
    w.kind = 'witness'
    w.verdict = 'witness-ok' if npaths[0] >= 8 and 'deadline-only-for-retried-entries-starting-now' in obs else 'witness-missing'
    w.detail = '%d paths; exercised %s' % (npaths[0], sorted(obs))
    return list(obs.values())


def confirm_insert_scenarios(chk, bad, prop):
    """In-crate differential replay of the real Features::insert_scenarios on concrete batches."""
    import os
    from checks import incrate
    code = r'''
    use std::time::{Duration, Instant};
    fn sc(tag: &str) -> (Source<gherkin::Feature>, Source<gherkin::Scenario>) {
        let f = gherkin::Feature::parse(format!("Feature: f\n  Scenario: {tag}\n    Given x\n"), gherkin::GherkinEnv::default()).unwrap();
        let s = Source::new(f.scenarios[0].clone());
        (Source::new(f), s)
    }
    #[test]
    fn verif_replay() {
        // kinds of inserted entries: 0 = no retry options, 1 = first attempt with delay configured, 2 = retried (current 1) with delay, 3 = retried without delay
        let kinds = [0u8, 1, 2, 3];
        let mut batches: Vec<Vec<u8>> = vec![vec![]];
        for a in kinds { batches.push(vec![a]); for b in kinds { batches.push(vec![a, b]); } }
        for ns in &batches { if ns.len() > 1 { continue; }
        for nc in &batches {
            if ns.is_empty() && nc.is_empty() { continue; }
            for (os, oc) in [(0usize, 0usize), (0, 1), (1, 0), (1, 2)] {
                let feats = Features::default();
                futures::executor::block_on(async {
                    let mut g = feats.scenarios.lock().await;
                    if os > 0 { g.insert(ScenarioType::Serial, (0..os).map(|i| { let (f, s) = sc(&format!("os{i}")); (ScenarioId::new(), f, None, s, None) }).collect()); }
                    if oc > 0 { g.insert(ScenarioType::Concurrent, (0..oc).map(|i| { let (f, s) = sc(&format!("oc{i}")); (ScenarioId::new(), f, None, s, None) }).collect()); }
                });
                let mk = |pfx: &str, ks: &Vec<u8>| ks.iter().enumerate().map(|(i, k)| {
                    let (f, s) = sc(&format!("{pfx}{i}"));
                    let ret = match k {
                        0 => None,
                        1 => Some(RetryOptions { retries: Retries { current: 0, left: 2 }, after: Some(Duration::from_secs(5)) }),
                        2 => Some(RetryOptions { retries: Retries { current: 1, left: 1 }, after: Some(Duration::from_secs(5)) }),
                        _ => Some(RetryOptions { retries: Retries { current: 1, left: 1 }, after: None }),
                    };
                    (ScenarioId::new(), f, None, s, ret)
                }).collect::<Vec<_>>();
                let mut ins = HashMap::new();
                if !ns.is_empty() { ins.insert(ScenarioType::Serial, mk("ns", ns)); }
                if !nc.is_empty() { ins.insert(ScenarioType::Concurrent, mk("nc", nc)); }
                futures::executor::block_on(feats.insert_scenarios(ins));
                let dump = futures::executor::block_on(async {
                    let g = feats.scenarios.lock().await;
                    let f = |t| g.get(&t).map_or(String::new(), |v| v.iter().map(|e| format!("{}:{}", e.3.name, match &e.4 { None => "n", Some(r) => match r.after { None => "r", Some((_, None)) => "d", Some((_, Some(_))) => "D" } })).collect::<Vec<_>>().join(","));
                    format!("S={}_ C={}_", f(ScenarioType::Serial), f(ScenarioType::Concurrent))
                });
                println!("RESULT ns={}_ nc={}_ os={} oc={} {}", ns.iter().map(|k| k.to_string()).collect::<String>(), nc.iter().map(|k| k.to_string()).collect::<String>(), os, oc, dump);
            }
        }}
    }
'''
    res, out = incrate.run('src/runner/basic.rs', code)
    chk.replays += 1
    devs = []
    mark = {0: 'n', 1: 'd', 2: 'D', 3: 'r'}
    for r in res:
        ns = [int(c) for c in str(r['ns']).rstrip('_')]
        nc = [int(c) for c in str(r['nc']).rstrip('_')]
        serial_fresh = any(k in (0, 1) for k in ns)
        want = {}
        for pfx, ks, old in (('S', ns, ['os%d:n' % i for i in range(r['os'])]), ('C', nc, ['oc%d:n' % i for i in range(r['oc'])])):
            nm = 'ns' if pfx == 'S' else 'nc'
            retried = ['%s%d:%s' % (nm, i, mark[k]) for i, k in enumerate(ks) if k in (2, 3)]
            fresh = ['%s%d:%s' % (nm, i, mark[k]) for i, k in enumerate(ks) if k in (0, 1)]
            q = list(reversed(retried)) + old
            q = (fresh + q) if serial_fresh else (q + fresh)
            want[pfx] = q
        got = {p: [x for x in str(r[p]).rstrip('_').split(',') if x] for p in ('S', 'C')}
        if got != want:
            devs.append((r, want))
    d = os.path.join(common.EVID, 'replay')
    os.makedirs(d, exist_ok=True)
    path = os.path.join(d, '%s-insert-scenarios.txt' % prop)
    for o in bad:
        if not res:
            o.verdict = 'inconclusive'
            o.detail += ' | in-crate replay did not run: %s' % out[-300:]
        elif devs:
            with open(path, 'w') as f:
                f.write('inserted entry kinds: 0 = no retry options, 1 = first attempt with a delay configured, 2 = retried with delay, 3 = retried without delay; marks: n none, r retry options, d delay without start instant, D delay with start instant\n')
                for r, w in devs[:40]:
                    f.write('real %s ; specification %s\n' % (r, w))
            o.replay = path
            if path not in chk.replay_files:
                chk.replay_files.append(path)
            o.detail += ' | reproduced natively (in-crate differential replay of the real insert_scenarios, %d batches, %d deviate), e.g. real %s vs specification %s' % (len(res), len(devs), devs[0][0], devs[0][1])
        else:
            o.verdict = 'inconclusive'
            o.detail += ' | in-crate replay of %d batches follows the specification - counterexample not reproduced' % len(res)
