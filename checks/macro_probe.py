"""What the step attributes generate for a fallible step function (C10, C02): an `Err` returned by the user's function must
make the generated wrapper panic, so that the runner's `catch_unwind` turns it into `Step::Failed` - for every way of
spelling the return type.

The proc macro itself (syn / quote token manipulation) is not symbolically executable here.  Instead the REAL macro is run
by the compiler on a probe crate (/verif/macroprobe: one step function per spelling of a fallible return type - `Result<..>`,
`std::result::Result<..>`, `io::Result<..>`, a type alias, an alias in another module, `async fn`s - and one returning `()`),
and the compiler's MIR of the generated wrapper (the `func: |world, ctx| Box::pin(async move { .. })` of the inventory
entry) is executed symbolically: the user function is replaced by "returns Ok or Err" (a solver-visible choice); Err must
end in a panic inside the wrapper's future, Ok / `()` must complete it.  One harness per probe function (= per concrete
instantiation of the macro): what the macro does for spellings that are not in the probe is outside the claim.
"""
import fcntl
import hashlib
import os
import re
import subprocess
import time

import z3

from checks import common
from checks.common import Obligation
from mirsmt import frontend, mirparse, interp, models
from mirsmt.values import Cell, Lazy, Adt, Ref, Obj, UNIT, bv
from mirsmt.interp import Inconclusive, PathEnd

PROBE = os.path.join(os.path.dirname(os.path.dirname(os.path.abspath(__file__))), 'macroprobe')


def probe_mir():
    """MIR text of the probe crate compiled against the current tree (cached by tree hash + probe source)."""
    cache = frontend.CACHE
    os.makedirs(cache, exist_ok=True)
    lib = open(os.path.join(PROBE, 'src', 'lib.rs')).read()
    key = hashlib.sha256((frontend.tree_hash(frontend.REPO) + lib).encode()).hexdigest()[:24]
    out = os.path.join(cache, 'probe-mir-%s.txt' % key)
    if os.path.exists(out) and os.path.getsize(out) > 1000:
        return open(out).read(), {'cached': True}
    lock = open(os.path.join(cache, 'probe.lock'), 'w')
    fcntl.flock(lock, fcntl.LOCK_EX)
    try:
        src = os.path.join(cache, 'probe-src')
        crate = os.path.join(cache, 'probe-crate')
        tgt = os.path.join(cache, 'probe-target')
        os.makedirs(src, exist_ok=True)
        subprocess.run(['rsync', '-a', '--delete', '--exclude', 'target', '--exclude', '.git', '--exclude', 'book',
                        frontend.REPO.rstrip('/') + '/', src + '/'], check=True)
        os.makedirs(os.path.join(crate, 'src'), exist_ok=True)
        open(os.path.join(crate, 'src', 'lib.rs'), 'w').write(lib)
        open(os.path.join(crate, 'Cargo.toml'), 'w').write(open(os.path.join(PROBE, 'Cargo.toml.in')).read().replace('@SRC@', src))
        lk = os.path.join(crate, 'Cargo.lock')
        if not os.path.exists(lk):
            import shutil
            shutil.copy(os.path.join(src, 'Cargo.lock'), lk)
        env = dict(os.environ)
        env['CARGO_NET_OFFLINE'] = 'true'
        env.pop('RUSTFLAGS', None)
        t0 = time.time()
        cmd = ['cargo', '+nightly', 'rustc', '--offline', '--lib', '--target-dir', tgt, '--', '-Zunpretty=mir',
               '-C', 'debug-assertions=off', '-C', 'overflow-checks=on', '--cap-lints', 'warn']
        p = subprocess.run(cmd, cwd=crate, env=env, stdout=subprocess.PIPE, stderr=subprocess.PIPE, text=True)
        if p.returncode != 0 or len(p.stdout) < 1000:
            raise Inconclusive('MIR dump of the macro probe crate failed: %s' % p.stderr[-600:])
        tmp = out + '.tmp%d' % os.getpid()
        open(tmp, 'w').write(p.stdout)
        os.replace(tmp, out)
        for f in sorted((f for f in os.listdir(cache) if f.startswith('probe-mir-')), key=lambda f: os.path.getmtime(os.path.join(cache, f)))[:-4]:
            os.remove(os.path.join(cache, f))
        return p.stdout, {'cached': False, 'compile_s': round(time.time() - t0, 1), 'cmd': ' '.join(cmd)}
    finally:
        fcntl.flock(lock, fcntl.LOCK_UN)
        lock.close()


def disambiguate_closures(text):
    """Every closure the macro generates has the macro call's span, so all of them print as the same type
    `{closure@src/lib.rs:L:C: L:C}`.  rustc numbers the closures (and async blocks) of an item in source order, and the
    generated code is straight-line: the k-th closure / coroutine aggregate built in item X is X::{closure#k}.  The closure
    type at the aggregate and in the child's self parameter is rewritten to a unique text."""
    lines = text.split('\n')
    items = []          # (start, end, name, header)
    i = 0
    while i < len(lines):
        ln = lines[i]
        m = re.match(r'(?:fn|static|const) (.+?)(?:\(| ?: )', ln) if ln[:3] in ('fn ', 'sta', 'con') else None
        if m and ln.rstrip().endswith('{'):
            j = i + 1
            while j < len(lines) and lines[j] != '}':
                j += 1
            items.append((i, j, m.group(1).strip(), ln))
            i = j + 1
        else:
            i += 1
    agg = re.compile(r'(?:= |const ZeroSized: )\{(closure|coroutine)@(src/lib\.rs:\d+:\d+: \d+:\d+)[^}]*\}')
    by_name = {}
    used = {}
    for it in items:
        by_name.setdefault(it[2], []).append(it)
    for (a, b, name, header) in items:
        name = re.sub(r'::promoted\[\d+\]$', '', name)       # a promoted constant of X builds X's closures
        k = 0
        for li in range(a + 1, b):
            if re.match(r'\s+bb\d+ \(cleanup\)', lines[li]):
                pass
            m = agg.search(lines[li])
            if not m:
                continue
            kind, span = m.group(1), m.group(2)
            idx, k = k, k + 1
            if kind != 'closure':
                continue
            child = [c for c in by_name.get('%s::{closure#%d}' % (name, idx), []) if span in c[3]]
            if len(child) > 1:
                # several items of one name (the `const _` assertions an `expr =` attribute adds): the n-th of them that
                # builds its closure #idx owns the n-th child body of that name (rustc prints both in source order)
                nth = used.get((name, idx, span), 0)
                used[(name, idx, span)] = nth + 1
                child = child[nth:nth + 1]
            if len(child) != 1:
                raise Inconclusive('macro probe: closure #%d of %s: %d child bodies' % (idx, name, len(child)))
            new_ty = '{closure@%s @@%s::{closure#%d}}' % (span, name.replace('{', '(').replace('}', ')'), idx)
            lines[li] = lines[li].replace('{closure@%s}' % span, new_ty, 1 if '= {closure@' in lines[li] else -1)
            ca = child[0][0]
            head = lines[ca]
            # the self parameter of the child: first occurrence of the closure type in its header
            lines[ca] = head.replace('{closure@%s}' % span, new_ty, 1)
    return '\n'.join(lines)


def load_probe(chk):
    text, meta = probe_mir()
    text = disambiguate_closures(text)
    saved = dict(mirparse.STATIC_ALLOCS)
    try:
        raw = mirparse.parse_mir(text)
    finally:
        mirparse.STATIC_ALLOCS.clear()
        mirparse.STATIC_ALLOCS.update(saved)
    # every attribute expands into a `const _` with the same item names: make the names unique by the source span
    bodies = {}
    for name, bl in raw.items():
        for b in bl:
            span = None
            for (_l, pty) in b.params[:1]:
                mm = re.search(r'@(src/lib\.rs:\d+:\d+: \d+:\d+)', pty)
                span = mm.group(1) if mm else None
            nm = name if span is None else '%s|%s' % (span, name)        # (keeps the `{closure#k}` ending the program index looks at)
            b.name = nm if nm not in bodies else '%s#%d' % (nm, len(bodies))
            bodies.setdefault(b.name, []).append(b)
    return interp.Program(bodies, chk.prog.tables), meta, text



def initial_future(pb, world_ref, ctx_step, ctx_matches, ctx_whole):
    """The unresumed state of the async block the wrapper boxes: its captures, placed by the field indices the poll body's
    debug info gives them (the creating closure only moves them in; rustc's MIR printer drops operands of that aggregate
    when a variable is captured by parts, so the aggregate text cannot be used)."""
    fields = {}
    for nm, place in pb.debug.items():
        m = re.match(r'\(\(\*_\d+\)\.(\d+): ', place)
        if not m:
            continue
        v = {'__cucumber_world': world_ref, '__cucumber_ctx': ctx_whole, '__cucumber_ctx__step': ctx_step, '__cucumber_ctx__matches': ctx_matches}.get(nm)
        if v is None:
            raise Inconclusive('macro probe: unknown capture %s of the generated async block' % nm)
        fields[(None, int(m.group(1)))] = v
    span = re.search(r'@(src/lib\.rs:\d+:\d+: \d+:\d+)', pb.params[0][1]).group(1)
    return Adt('{coroutine@%s}' % span, fields, 0, None)


@common.part
def obligations(chk, prop):
    prog2, meta, text = load_probe(chk)
    user = {}            # user fn name -> (poll body of the generated async block, parent closure body, is_async, returns_unit)
    for name, b in prog2.bodies.items():
        if not (b.params and b.params[0][1].startswith('Pin<&mut {async block@src/lib.rs')):
            continue
        src = '\n'.join(b.text if isinstance(b.text, list) else [str(b.text)])
        mm = re.search(r'= (ret_\w+)\(', src)
        if not mm:
            continue
        span = re.search(r'@(src/lib\.rs:\d+:\d+: \d+:\d+)', b.params[0][1]).group(1)
        parent = [p for n2, p in prog2.bodies.items() if '{coroutine@%s' % span in '\n'.join(p.text) and p is not b]
        ub = prog2.bodies.get(mm.group(1))
        if len(parent) != 1 or ub is None:
            continue
        user[mm.group(1)] = (b, parent[0], 'async fn body' in (ub.ret_type or ''), (ub.ret_type or '').strip() == '()', ub)
    o = chk.add(Obligation('%s.step-attribute-wrapper.an-Err-from-the-step-function-panics-in-the-wrapper' % prop,
                           'the MIR of the wrapper the real #[given] generates for each of the %d probe functions (%s); the user function returns Ok / Err (symbolic choice)'
                           % (len(user), ', '.join(sorted(user)))))
    o.verdict = 'holds'
    bad = []
    for fname, (pb, parent, is_async, unit, ub) in sorted(user.items()):
        M = models.Models(prog2)
        ex = interp.Exec(prog2, M, loop_bound=6)
        chk.execs.append(ex)
        is_err = z3.Bool('%s returns Err' % fname)

        def user_fn(ex_, body, args, unit=unit, is_async=is_async, is_err=is_err, M=M, fname=fname):
            if unit:
                val = UNIT
            else:
                err = ex_.branch(is_err)
                ex_.env['returned_err'] = err
                val = Adt('Result<(), E>', {(0, 0): UNIT, (1, 0): Obj('symstr', name='the error of %s' % fname)}, bv(1 if err else 0))
            if is_async:
                return M.user_future(fname, 0, 'ok', value=val)
            return val
        M.body_hooks[ub.name] = user_fn

        def unwrap_or_else(ex_, info, a, dty, prog2=prog2):
            r = ex_.materialize(a[0])
            if z3.simplify(M.discr(ex_, r)).as_long() == 0:
                return ex_.field_of(r, 0, 0, '?')
            clo = ex_.materialize(a[1])
            cands = [b_ for b_ in prog2.bodies.values() if len(b_.params) == 2 and b_.params[0][1].strip() == clo.ty.strip()]
            if len(cands) != 1:
                raise Inconclusive('unwrap_or_else closure of %s: %d candidates' % (clo.ty, len(cands)))
            return ex_.call_body(cands[0], [clo, ex_.field_of(r, 1, 0, '?')])
        M.table['Result::unwrap_or_else'] = unwrap_or_else

        def run(ex_, pb=pb, parent=parent, M=M):
            w = Cell(Lazy('W', 'world'), name='world')
            co = initial_future(pb, Ref(w, ()), Lazy('gherkin::Step', 'ctx.step'), Lazy('Vec<..>', 'ctx.matches'), Lazy('cucumber::step::Context', 'ctx'))
            pin = Adt('Pin<&mut coroutine>', {(None, 0): Ref(Cell(co, name='wrapper future'), ())})
            cx = Ref(Cell(Lazy('Context', 'cx')), ())
            for _ in range(4):
                r = ex_.call_body(pb, [pin, cx])
                if ex_.branch(M.discr(ex_, r) == bv(0)):
                    return {'done': True, 'err': ex_.env.get('returned_err')}
            return {'done': False, 'err': ex_.env.get('returned_err')}

        def on_end(ex_, rec, fname=fname, unit=unit):
            kind, res, pc, dec = rec
            o.paths += 1
            if kind == 'panic':
                # the wrapper's future panicked: only an Err of the user function may do that
                if unit or not ex_.env.get('returned_err'):
                    bad.append((fname, 'the wrapper panics although the step function did not fail: %s' % (res,)))
                return
            if kind != 'ok':
                if o.verdict == 'holds':
                    o.verdict = 'inconclusive'
                    o.detail = '%s: %s: %s' % (fname, kind, res)
                return
            if res['err']:
                bad.append((fname, 'the step function returned Err, the wrapper\'s future completed normally (the error is discarded: the step is reported Passed)'))
            elif not res['done']:
                bad.append((fname, 'the wrapper\'s future did not complete'))
        ex.explore(run, on_end)
    if bad and o.verdict != 'inconclusive':
        o.verdict = 'violated'
        o.detail = '; '.join('%s: %s' % b_ for b_ in bad[:3])
        o.model = {'functions': sorted(set(b_[0] for b_ in bad))}
        confirm(chk, o, prop, sorted(set(b_[0] for b_ in bad)))
    w = chk.add(Obligation('%s.step-attribute-wrapper.witness' % prop, 'exploration'))
    w.kind = 'witness'
    w.verdict = 'witness-ok' if len(user) >= 6 and o.paths >= len(user) else 'witness-missing'
    w.detail = '%d probe functions, %d paths' % (len(user), o.paths)
    chk.assumptions.append('step attributes: decided on the MIR of what the real macro generates for the probe functions in /verif/macroprobe (one harness per '
                           'return-type spelling); the macro\'s behaviour on other inputs, argument parsing and regex generation are outside (C19: not applicable)')
    return o


def confirm(chk, o, prop, fnames):
    """native: the same kinds of step functions registered through the real attributes in the driver, run through the real
    runner: every step whose function returns Err must be reported Failed"""
    from checks import replay
    d = os.path.join(common.EVID, 'replay')
    os.makedirs(d, exist_ok=True)
    path = os.path.join(d, '%s-step-attribute-wrapper.script' % prop)
    r, out = replay.run_script('mode macros\n', path, timeout=120)
    chk.replays += 1
    got = dict(re.findall(r'STEP (\w+) outcome=(\w+)', out))
    if not got:
        o.verdict = 'inconclusive'
        o.detail += ' | native replay failed: %s' % out[-300:]
        return
    dev = sorted(k for k, v in got.items() if (k == 'unit') != (v == 'passed'))
    if dev:
        chk.replay_files.append(path)
        o.replay = path
        o.detail += ' | reproduced natively through the real attributes and runner: steps whose functions return Err were reported %s' % {k: got[k] for k in dev}
    else:
        o.verdict = 'inconclusive'
        o.detail += ' | not reproduced natively (every Err-returning step function was reported Failed)'


# ------------------------------------------------------------------------------------------------ dispatch (C19)
# probe function -> the captures it declares (in order) and whether a `#[step]` argument follows them
# names: what the regex engine reports as the name of each capture group (index 0 = the whole match); `args`: for each
# argument the groups it is made of - the FIRST NON-EMPTY of them is what FromStr gets (a custom Parameter with several
# capturing groups: cucumber-expressions names those groups `__<parameter>_<group>`; observed natively, driver line NAMES)
DISPATCH = {
    'then_two_args': dict(types=['u64', 'String'], step=False),
    'given_step_arg': dict(types=['u64'], step=True),
    'when_async_arg': dict(types=['i32'], step=False),
    'expr_custom': dict(types=['Ordinal', 'u32', 'String'], step=False, names=[None, '__0_0', '__0_1', None, None], args=[[1, 2], [3], [4]]),
    'slice_args': dict(types=['u64', 'u64', 'u64'], step=False, slice=True),
    'named_groups': dict(types=['String', 'u32'], step=False, names=[None, 'user_name', 'user_age']),
}


def wrappers_all(prog2):
    """user fn name -> [(poll body of the generated async block, parent closure body, user fn body)], one per attribute"""
    out = {}
    for name, b in prog2.bodies.items():
        if not (b.params and b.params[0][1].startswith('Pin<&mut {async block@src/lib.rs')):
            continue
        src = '\n'.join(b.text)
        cands = [x for x in re.findall(r'= (\w+)\((?:copy|move) _\d+', src) if x in prog2.bodies]
        if not cands:
            continue
        span = re.search(r'@(src/lib\.rs:\d+:\d+: \d+:\d+)', b.params[0][1]).group(1)
        parent = [p for n2, p in prog2.bodies.items() if '{coroutine@%s' % span in '\n'.join(p.text) and p is not b]
        if len(parent) == 1:
            out.setdefault(cands[0], []).append((b, parent[0], prog2.bodies[cands[0]]))
    return out


def wrappers(prog2):
    """user fn name -> (poll body of the generated async block, parent closure body, user fn body) of its first attribute"""
    return {k: v[0] for k, v in wrappers_all(prog2).items()}


@common.part
def dispatch_obligations(chk, prop):
    """The wrapper hands the capture groups, parsed with FromStr, to the function in declaration order (then the step for a
    `#[step]` argument); a capture that does not parse makes the wrapper panic instead of calling the function."""
    prog2, meta, text = load_probe(chk)
    ws = wrappers(prog2)
    CX = chk.prog.tables.struct_fields('step::Context')
    o = chk.add(Obligation('%s.step-attribute-wrapper.captures-parsed-in-declaration-order-or-panic' % prop,
                           'the MIR of the wrapper the real attributes generate for %s; capture texts symbolic (unnamed groups), each FromStr::from_str succeeds or fails (symbolic choice)'
                           % ', '.join(sorted(DISPATCH))))
    o.verdict = 'holds'
    bad = []
    for fname, spec in sorted(DISPATCH.items()):
        if fname not in ws:
            raise Inconclusive('macro probe: no wrapper found for %s' % fname)
        pb, parent, ub = ws[fname]
        M = models.Models(prog2)
        ex = interp.Exec(prog2, M, loop_bound=12)
        chk.execs.append(ex)
        is_async = 'async fn body' in (ub.ret_type or '')
        n = len(spec['types'])

        def user_fn(ex_, body, args, M=M, is_async=is_async, ub=ub):
            ex_.env.setdefault('user_calls', []).append(list(args))
            rt = (ub.ret_type or '').strip()
            val = UNIT if (rt == '()' or 'Output = ()' in rt) else Adt('Result<(), E>', {(0, 0): UNIT}, bv(0))
            if is_async:
                return M.user_future('step fn', 0, 'ok', value=Adt('Result<(), E>', {(0, 0): UNIT}, bv(0)))
            return val
        M.body_hooks[ub.name] = user_fn

        def parse(ex_, info, a, dty, M=M):
            s_ = M.str_of(ex_, a[0]) if hasattr(M, 'str_of') else ex_.materialize(a[0])
            nm = s_.name if isinstance(s_, Obj) and s_.kind == 'symstr' else repr(s_)
            k_ = len(ex_.env.setdefault('parses', []))
            fails = ex_.branch(z3.Bool('from_str(%s)#%d fails' % (nm, k_)))
            ex_.env['parses'].append((nm, fails))
            return Adt(dty or 'Result<T, E>', {(0, 0): Obj('parsed', of=nm, k=k_), (1, 0): Obj('parse_error', of=nm)}, bv(1 if fails else 0))
        M.table['<impl>::parse'] = parse
        M.table['str::parse'] = parse
        M.table['Borrow::borrow'] = lambda ex_, info, a, dty: a[0]        # `impl<T> Borrow<T> for T`: the value itself

        names = spec.get('names') or [None] * (n + 1)
        groups_of = spec.get('args') or [[i + 1] for i in range(n)]
        multi = {g for gs in groups_of if len(gs) > 1 for g in gs}
        M.table['Vec::as_slice'] = lambda ex_, info, a, dty: a[0]        # the slice view of a Vec: the same storage

        def run(ex_, pb=pb, parent=parent, M=M, names=names, groups_of=groups_of, multi=multi):
            w = Cell(Lazy('W', 'world'), name='world')

            def cap_name(nm):
                if nm is None:
                    return Adt('Option<String>', {}, 0)
                return Adt('Option<String>', {(1, 0): Obj('str', text='"%s"' % nm)}, 1)
            matches = Obj('vec', items=tuple(Adt('(Option<String>, String)', {(None, 0): cap_name(nm), (None, 1): Obj('symstr', name='m%d' % i)})
                                             for i, nm in enumerate(names)), ty='Vec<(Option<String>, String)>')
            for i in range(len(names)):
                if i not in multi:
                    ex_.add(z3.Not(z3.Bool('is-empty(m%d)' % i)))        # capture texts are non-empty (an empty capture parses as "")
            for gs in groups_of:
                if len(gs) > 1:       # the groups of one parameter: any of them may be empty (did not take part), not all
                    ex_.add(z3.Or(*[z3.Not(z3.Bool('is-empty(m%d)' % g)) for g in gs]))
            ctx = Adt('cucumber::step::Context', {(None, CX.index('step')): Lazy('gherkin::Step', 'ctx.step'), (None, CX.index('matches')): matches})
            co = initial_future(pb, Ref(w, ()), ctx.fields[(None, CX.index('step'))], matches, ctx)
            pin = Adt('Pin<&mut coroutine>', {(None, 0): Ref(Cell(co, name='wrapper future'), ())})
            cx = Ref(Cell(Lazy('Context', 'cx')), ())
            for _ in range(4):
                r = ex_.call_body(pb, [pin, cx])
                if ex_.branch(M.discr(ex_, r) == bv(0)):
                    break
            return {'calls': ex_.env.get('user_calls', []), 'parses': ex_.env.get('parses', [])}

        def describe(ex_, v):
            v = ex_.materialize(v)
            for _ in range(4):
                if isinstance(v, Ref):
                    v = ex_.materialize(ex_.read_path(v.cell, v.path))
            if isinstance(v, Obj) and v.kind == 'parsed':
                return 'parse(%s)' % v.of
            if isinstance(v, Obj) and v.kind == 'vec':
                return [describe(ex_, x_) for x_ in v.items]
            if isinstance(v, (Lazy, Adt)) and getattr(v, 'name', None):
                return v.name
            return repr(v)[:40]

        def on_end(ex_, rec, fname=fname, spec=spec, n=n):
            kind, res, pc, dec = rec
            o.paths += 1
            parses = ex_.env.get('parses', [])
            failed = [p_ for p_ in parses if p_[1]]
            if kind == 'panic':
                if not failed:
                    bad.append((fname, 'the wrapper panics although every capture parsed: %s' % (res,)))
                return
            if kind != 'ok':
                if o.verdict == 'holds':
                    o.verdict = 'inconclusive'
                    o.detail = '%s: %s: %s' % (fname, kind, res)
                return
            if failed:
                bad.append((fname, 'capture %s did not parse, yet the wrapper completed (the function was %s)' % (failed[0][0], 'called' if res['calls'] else 'not called')))
                return
            got = [[describe(ex_, a_) for a_ in c_] for c_ in res['calls']]
            # which groups are empty on this path: decided by the path where the code looked, otherwise every way round
            und = [g for g in sorted(multi) if ex_.check(z3.Bool('is-empty(m%d)' % g)) and ex_.check(z3.Not(z3.Bool('is-empty(m%d)' % g)))]
            import itertools
            for vals in itertools.product((False, True), repeat=len(und)):
                cs = [z3.Bool('is-empty(m%d)' % g) == z3.BoolVal(v_) for g, v_ in zip(und, vals)]
                o.queries += 1
                if not ex_.check(*cs):
                    continue
                mdl = ex_.solver.model()
                empty = {g: z3.is_true(mdl.eval(z3.Bool('is-empty(m%d)' % g), model_completion=True)) for g in multi}
                srcs = ['parse(m%d)' % next(g for g in gs if not empty.get(g, False)) for gs in groups_of]
                want = ['world'] + ([srcs] if spec.get('slice') else srcs) + (['ctx.step'] if spec['step'] else [])
                if got != [want]:
                    bad.append((fname, 'the function was called with %s; the captures in declaration order%s are %s' % (
                        got, (' (groups %s empty)' % [g for g in multi if empty[g]]) if multi else '', want)))
                    break
        ex.explore(run, on_end)
    if bad and o.verdict != 'inconclusive':
        o.verdict = 'violated'
        o.detail = '; '.join('%s: %s' % b_ for b_ in bad[:3])
        o.model = {'functions': sorted(set(b_[0] for b_ in bad))}
        confirm_dispatch(chk, o, prop)
    w = chk.add(Obligation('%s.step-attribute-wrapper.dispatch-witness' % prop, 'exploration'))
    w.kind = 'witness'
    w.verdict = 'witness-ok' if o.paths >= 2 * len(DISPATCH) else 'witness-missing'
    w.detail = '%d paths' % o.paths
    return o


def confirm_dispatch(chk, o, prop):
    from checks import replay
    d = os.path.join(common.EVID, 'replay')
    os.makedirs(d, exist_ok=True)
    path = os.path.join(d, '%s-step-attribute-dispatch.script' % prop)
    r, out = replay.run_script('mode macros\n', path, timeout=120)
    chk.replays += 1
    got = dict(re.findall(r'DISPATCH (\w+) (.*)', out))
    want = {'then_two_args': 'outcome=passed args=7,seven', 'then_two_args_bad': 'outcome=failed args=-', 'given_step_arg': 'outcome=passed args=5,step arg 5',
            'when_async_arg': 'outcome=passed args=-3', 'expr_custom': 'outcome=passed args=2,5,shelf', 'expr_custom_bad': 'outcome=failed args=-',
            'slice_args': 'outcome=passed args=1,2,3', 'slice_args_bad': 'outcome=failed args=-', 'named_groups': 'outcome=passed args=bob,42'}
    if not got:
        o.verdict = 'inconclusive'
        o.detail += ' | native replay failed: %s' % out[-300:]
        return
    dev = {k: got.get(k) for k in want if got.get(k) != want[k]}
    if dev:
        chk.replay_files.append(path)
        o.replay = path
        o.detail += ' | reproduced natively through the real attributes and runner: %s (expected %s)' % (dev, {k: want[k] for k in dev})
    else:
        o.verdict = 'inconclusive'
        o.detail += ' | not reproduced natively (the functions received their captures in declaration order, an unparsable capture failed the step)'
