"""`<runner::Basic as Runner>::run`: the option values handed to insert_features / execute (C18, C06, C08).

The real sync body is executed symbolically up to the construction of the two futures; insert_features and
execute are intercepted (their arguments recorded), everything after them (stream plumbing) is havoced.
"""
import z3

from checks import common
from checks.common import Obligation
from mirsmt.values import Cell, Lazy, Adt, Ref, Obj, UNIT, bv
from mirsmt.interp import Inconclusive, PathEnd


def real_args(chk, ex_, M, builder=None, cli=None):
    """Execute the real prefix of `<runner::Basic as Runner>::run` on the current path with the given builder / CLI
    settings (field name -> value; everything else unconstrained) and return the argument lists the REAL code hands to
    `insert_features` and `execute`: {'insert_features': [...], 'execute': [...]} (positional, as at the call sites).
    Harnesses that drive those two functions take `cli`, `fail_fast`, `max_concurrent_scenarios` from here, so that a
    change of where the options are merged is followed instead of being assumed."""
    prog = chk.prog
    t = prog.tables
    cands = [b for (st, m), lst in prog.by_method.items() if st == 'Basic' and m == 'run' for tr, b in lst if tr == 'Runner']
    if len(cands) != 1:
        raise Inconclusive('<Basic as Runner>::run: %d candidates' % len(cands))
    BF = t.struct_fields('runner::basic::Basic<W>')
    CF = t.struct_fields('runner::basic::Cli')
    if not isinstance(BF, list) or not isinstance(CF, list):
        raise Inconclusive('Basic / Cli field tables')
    builder, cli = dict(builder or {}), dict(cli or {})
    for k in builder:
        if k not in BF:
            raise Inconclusive('runner::Basic has no field %s' % k)
    for k in cli:
        if k not in CF:
            raise Inconclusive('runner::basic::Cli has no field %s' % k)
    none = lambda ty: Adt(ty, {}, 0)  # noqa
    bdef = {'max_concurrent_scenarios': none('Option<usize>'), 'retries': none('Option<usize>'), 'retry_after': none('Option<Duration>'),
            'retry_filter': none('Option<TagOperation>'), 'fail_fast': z3.BoolVal(False)}
    cdef = {'concurrency': none('Option<usize>'), 'fail_fast': z3.BoolVal(False), 'retry': none('Option<usize>'),
            'retry_after': none('Option<Duration>'), 'retry_tag_filter': none('Option<TagOperation>')}
    fields = {(None, i): builder.get(n, bdef.get(n, Lazy('?', 'self.%s' % n))) for i, n in enumerate(BF)}
    cfields = {(None, i): cli.get(n, cdef.get(n, Lazy('?', 'cli.%s' % n))) for i, n in enumerate(CF)}
    selfv = Adt('runner::basic::Basic<W>', fields)
    cliv = Adt('runner::basic::Cli', cfields)
    saved = {k: M.table.get(k) for k in ('insert_features', 'execute', 'future::join', 'Clone::clone')}
    saved_opaque = set(M.opaque_bodies)
    got = {}

    def rec(name):
        def f(ex2, info, a, dty):
            got.setdefault(name, []).append(list(a))
            return Lazy(dty or '?', 'future.' + name)
        return f

    def stop(ex2, info, a, dty):
        raise PathEnd('stop', 'both futures constructed')
    M.table['insert_features'] = rec('insert_features')
    M.table['execute'] = rec('execute')
    M.table['future::join'] = stop
    M.table['Clone::clone'] = lambda ex2, info, a, dty: Lazy(dty or '?', 'clone')
    M.opaque_bodies |= {'Default::default', 'Clone::clone'}
    try:
        try:
            ex_.call_body(cands[0], [selfv, Lazy('S', 'features_stream'), cliv])
        except PathEnd as e:
            if e.kind != 'stop':
                raise
    finally:
        for k, v in saved.items():
            if v is None:
                M.table.pop(k, None)
            else:
                M.table[k] = v
        M.opaque_bodies.clear()
        M.opaque_bodies |= saved_opaque
    if len(got.get('insert_features', [])) != 1 or len(got.get('execute', [])) != 1:
        raise Inconclusive('<Basic as Runner>::run constructs insert_features %d times, execute %d times' % (len(got.get('insert_features', [])), len(got.get('execute', []))))
    return {'insert_features': got['insert_features'][0], 'execute': got['execute'][0]}


@common.part
def obligations(chk, prop, which=('retry', 'retry_after', 'retry_filter', 'concurrency', 'fail_fast')):
    prog = chk.prog
    t = prog.tables
    cands = [b for (st, m), lst in prog.by_method.items() if st == 'Basic' and m == 'run' for tr, b in lst if tr == 'Runner']
    if len(cands) != 1:
        raise Inconclusive('<Basic as Runner>::run: %d candidates' % len(cands))
    body = cands[0]
    BF = t.struct_fields('runner::basic::Basic<W>')
    CF = t.struct_fields('runner::basic::Cli')
    if not isinstance(BF, list) or not isinstance(CF, list):
        raise Inconclusive('Basic / Cli field tables')
    B = {n: BF.index(n) for n in ('max_concurrent_scenarios', 'retries', 'retry_after', 'retry_filter', 'fail_fast')}
    C = {n: CF.index(n) for n in ('concurrency', 'fail_fast', 'retry', 'retry_after', 'retry_tag_filter')}
    # positions of the intercepted calls' parameters, by NAME from the callee's own debug info
    def param_index(fn_suffix, name):
        b = prog.find(fn_suffix)
        place = b.debug.get(name)
        if place is None or not place.startswith('_'):
            raise Inconclusive('%s has no parameter %s' % (fn_suffix, name))
        return int(place[1:]) - 1
    bif = [bb for n, bb in prog.bodies.items() if n.split('::')[-1] == 'insert_features']
    bex = [bb for n, bb in prog.bodies.items() if n.split('::')[-1] == 'execute']
    if len(bif) != 1 or len(bex) != 1:
        raise Inconclusive('insert_features / execute bodies')
    def pidx(b, name):
        place = b.debug.get(name)
        if place is None or not place.startswith('_'):
            raise Inconclusive('%s has no parameter %s' % (b.name, name))
        return int(place[1:]) - 1
    def pidx_opt(b, name):
        place = b.debug.get(name)
        return int(place[1:]) - 1 if place is not None and place.startswith('_') and place[1:].isdigit() and int(place[1:]) <= len(b.params) else None
    # the carrier of a setting is the parameter of that name while it exists, else the field of the `cli` the callee gets
    I_CLI, I_FF = pidx(bif[0], 'cli'), pidx_opt(bif[0], 'fail_fast')
    E_CONC, E_FF, E_CLI = pidx_opt(bex[0], 'max_concurrent_scenarios'), pidx_opt(bex[0], 'fail_fast'), pidx_opt(bex[0], 'cli')

    ex, M = chk.new_exec(loop_bound=4)
    v = {}
    for n in ('b.conc', 'b.retries', 'b.after', 'b.filter', 'c.conc', 'c.retry', 'c.after', 'c.filter'):
        v[n + '.d'] = z3.BitVec(n + '.d', 64)
        v[n] = z3.BitVec(n, 64)
    bff, cff = z3.Bool('b.fail_fast'), z3.Bool('c.fail_fast')

    def opt(ty, key, payload=None):
        return Adt(ty, {(1, 0): payload if payload is not None else v[key]}, v[key + '.d'])

    def filt(key):
        # a TagOperation with an identity we can follow: boxed tag whose string is symbolic
        return Adt('gherkin::tagexpr::TagOperation', {(3, 0): Obj('symstr', name=key)}, 3, None)

    def rec(name):
        def f(ex_, info, a, dty):
            M.log(ex_, name, args=a)
            return Lazy(dty or '?', 'future.' + name)
        return f
    M.table['insert_features'] = rec('insert_features')
    M.table['execute'] = rec('execute')
    M.opaque_bodies |= {'Default::default', 'Clone::clone'}

    def after_calls(ex_, info, a, dty):
        raise PathEnd('stop', 'both futures constructed')
    M.table['future::join'] = after_calls
    M.table['Clone::clone'] = lambda ex_, info, a, dty: Lazy(dty or '?', 'clone')

    def run(ex_):
        ex_.add(z3.And(*[z3.ULT(v[k], bv(2)) for k in v if k.endswith('.d')]))
        fields = {(None, i): Lazy('?', 'self.%s' % n) for i, n in enumerate(BF)}
        fields[(None, B['max_concurrent_scenarios'])] = opt('Option<usize>', 'b.conc')
        fields[(None, B['retries'])] = opt('Option<usize>', 'b.retries')
        fields[(None, B['retry_after'])] = opt('Option<std::time::Duration>', 'b.after')
        fields[(None, B['retry_filter'])] = opt('Option<TagOperation>', 'b.filter', filt('b.filter'))
        fields[(None, B['fail_fast'])] = bff
        selfv = Adt('runner::basic::Basic<W>', fields)
        cli = Adt('runner::basic::Cli', {
            (None, C['concurrency']): opt('Option<usize>', 'c.conc'), (None, C['fail_fast']): cff,
            (None, C['retry']): opt('Option<usize>', 'c.retry'), (None, C['retry_after']): opt('Option<std::time::Duration>', 'c.after'),
            (None, C['retry_tag_filter']): opt('Option<TagOperation>', 'c.filter', filt('c.filter'))})
        try:
            ex_.call_body(body, [selfv, Lazy('S', 'features_stream'), cli])
        except PathEnd as e:
            if e.kind != 'stop':
                raise
        return list(ex_.env.get('log', []))

    obs = {}
    bound = 'every path of <Basic as Runner>::run up to the construction of insert_features/execute; all presence combinations and 64-bit values of CLI and builder settings'

    def ob(name):
        if name not in obs:
            obs[name] = chk.add(Obligation('%s.run.%s' % (prop, name), bound))
            obs[name].verdict = 'holds'
        return obs[name]
    np = [0]

    def on_end(ex_, rec_):
        kind, log, pc, dec = rec_
        np[0] += 1
        if kind != 'ok':
            o = ob('completes')
            o.verdict = 'inconclusive' if kind in ('loopbound', 'unreachable') else 'violated'
            o.detail = '%s: %s' % (kind, log)
            return
        ins = [e for e in log if e['kind'] == 'insert_features']
        exe = [e for e in log if e['kind'] == 'execute']
        if len(ins) != 1 or len(exe) != 1:
            o = ob('completes')
            o.verdict = 'inconclusive'
            o.detail = 'insert_features called %d times, execute %d times' % (len(ins), len(exe))
            return
        terms = dict(v)
        terms.update({'b.fail_fast': bff, 'c.fail_fast': cff})

        def refute(o, claim):
            o.paths += 1
            o.queries += 1
            if ex_.check(z3.Not(claim)):
                if o.verdict != 'violated':
                    o.verdict = 'violated'
                    o.model = common.model_dict(ex_.solver.model(), terms)
                    o.detail = 'counterexample'

        def opt_is(val, ckey, bkey, payload_eq):
            val = ex_.materialize(val)
            d = M.discr(ex_, val)
            want_d = z3.If(z3.Or(v[ckey + '.d'] == bv(1), v[bkey + '.d'] == bv(1)), bv(1), bv(0))
            c = [d == want_d]
            if ex_.check(d == bv(1)):
                c.append(z3.Implies(d == bv(1), payload_eq(ex_.field_of(val, 1, 0, '?'))))
            return z3.And(*c)
        cli_out = ex_.materialize(ins[0]['args'][I_CLI])
        scalar = lambda ck, bk: (lambda p: ex_.materialize(p, 'usize') == z3.If(v[ck + '.d'] == bv(1), v[ck], v[bk]))  # noqa

        def filt_eq(p):
            p = ex_.materialize(p)
            s = ex_.field_of(p, 3, 0, 'String')
            nm = s.name if isinstance(s, Obj) else None
            return z3.If(v['c.filter.d'] == bv(1), z3.BoolVal(nm == 'c.filter'), z3.BoolVal(nm == 'b.filter'))
        if 'retry' in which:
            refute(ob('retry=cli-else-builder'), opt_is(ex_.field_of(cli_out, None, C['retry'], 'Option<usize>'), 'c.retry', 'b.retries', scalar('c.retry', 'b.retries')))
        if 'retry_after' in which:
            refute(ob('retry_after=cli-else-builder'), opt_is(ex_.field_of(cli_out, None, C['retry_after'], 'Option<Duration>'), 'c.after', 'b.after', scalar('c.after', 'b.after')))
        if 'retry_filter' in which:
            refute(ob('retry_tag_filter=cli-else-builder'), opt_is(ex_.field_of(cli_out, None, C['retry_tag_filter'], 'Option<TagOperation>'), 'c.filter', 'b.filter', filt_eq))
        def carrier(call, pi, cli_i, field, ty):
            if pi is not None:
                return call['args'][pi]
            if cli_i is None:
                raise Inconclusive('no carrier for %s' % field)
            return ex_.field_of(ex_.materialize(call['args'][cli_i]), None, C[field], ty)
        if 'concurrency' in which:
            refute(ob('concurrency=cli-else-builder'), opt_is(carrier(exe[0], E_CONC, E_CLI, 'concurrency', 'Option<usize>'), 'c.conc', 'b.conc', scalar('c.conc', 'b.conc')))
        if 'fail_fast' in which:
            i_ff = ex_.materialize(carrier(ins[0], I_FF, I_CLI, 'fail_fast', 'bool'), 'bool')
            e_ff = ex_.materialize(carrier(exe[0], E_FF, E_CLI, 'fail_fast', 'bool'), 'bool')
            refute(ob('fail_fast=cli-or-builder'), z3.And(i_ff == z3.Or(cff, bff), e_ff == z3.Or(cff, bff)))
    ex.explore(run, on_end)
    bad = [o for o in obs.values() if o.verdict == 'violated']
    if bad:
        confirm(chk, bad, prop)
    w = chk.add(Obligation('%s.run.witness' % prop, 'exploration'))
    w.kind = 'witness'
    w.verdict = 'witness-ok' if np[0] >= 16 and obs else 'witness-missing'
    w.detail = '%d paths' % np[0]
    return list(obs.values())


def confirm(chk, bad, prop):
    """Native differential replay through the REAL runner (driver mode `runner`): for each setting, scripted runs
    with the value given by builder only / CLI only / both; the observed behaviour is compared with the specification."""
    import os
    import re
    from checks import replay
    d = os.path.join(common.EVID, 'replay')
    os.makedirs(d, exist_ok=True)
    feat3 = ['feature', '| Feature: f'] + sum([['|   Scenario: s%d' % i, '|     Given x%d' % i] for i in range(3)], [])

    def runit(name, lines):
        path = os.path.join(d, '%s-run-options-%s.script' % (prop, name))
        res, out = replay.run_script('\n'.join(['mode runner'] + lines) + '\n', path, timeout=60)
        chk.replays += 1
        return res, out, path
    devs = []
    fails = []

    def attempts(out, key):
        return len(re.findall(r'LOG enter step \[%s\]' % re.escape(key), out))
    for (b, c, want) in ((3, None, 3), (3, 1, 1), (None, 2, 2), (1, 3, 3)):
        lines = ['builder max_concurrent=%s' % ('none' if b is None else b)] + (['cli concurrency=%d' % c] if c else []) + feat3 + ['step x%d yields=4' % i for i in range(3)]
        res, out, path = runit('concurrency-b%s-c%s' % (b, c), lines)
        if res is None:
            fails.append(out[-200:])
        elif res.get('peak_user_code') != want:
            devs.append(('concurrency builder=%s cli=%s: peak scenarios in user code %s, specification %s' % (b, c, res.get('peak_user_code'), want), path))
    one = ['feature', '| Feature: f', '|   @a', '|   Scenario: s0', '|     Given x0']
    for (b, c, want) in ((2, None, 3), (2, 1, 2), (None, 1, 2), (None, None, 1)):
        lines = (['builder retries=%d' % b] if b else []) + (['cli retry=%d' % c] if c else []) + one + ['step x0 always_fail']
        res, out, path = runit('retry-b%s-c%s' % (b, c), lines)
        if res is None:
            fails.append(out[-200:])
        elif attempts(out, 'x0') != want:
            devs.append(('retry builder=%s cli=%s: %d attempts, specification %d' % (b, c, attempts(out, 'x0'), want), path))
    for (b, c, want) in ((1, 0, 1), (0, 1, 1), (0, 0, 3), (1, 1, 1)):
        lines = ['builder max_concurrent=1' + (' fail_fast=1' if b else '')] + (['cli fail_fast=1'] if c else []) + feat3 + ['step x0 always_fail']
        res, out, path = runit('failfast-b%s-c%s' % (b, c), lines)
        started = len(re.findall(r'LOG EV feature\[f\]:scenario\[s\d\]:started', out))
        if res is None:
            fails.append(out[-200:])
        elif started != want:
            devs.append(('fail_fast builder=%s cli=%s: %d scenarios started, specification %d' % (b, c, started, want), path))
    # each part falls back independently: one of --retry / --retry-after on the CLI, the other one on the builder
    lines = ['builder retries=2', 'cli retry_after_ms=1'] + one + ['step x0 always_fail']
    res, out, path = runit('retry-builder-count-cli-delay', lines)
    if res is None:
        fails.append(out[-200:])
    elif attempts(out, 'x0') != 3:
        devs.append(('retries=2 on the builder, --retry-after on the CLI: %d attempts, specification 3' % attempts(out, 'x0'), path))
    lines = ['builder retry_after_ms=400', 'cli retry=1'] + one + ['step x0 fail_first=1']
    res, out, path = runit('retry-cli-count-builder-delay', lines)
    ts = [int(x) for x in re.findall(r'LOG enter step \[x0\] call=\d+ .* t=(\d+)', out)]
    if res is None or len(ts) != 2:
        fails.append(out[-200:])
    elif (ts[1] - ts[0]) < 300:
        devs.append(('retry_after=400ms on the builder, --retry 1 on the CLI: gap %d ms, specification >= 400' % (ts[1] - ts[0]), path))
    # fail-fast given by the builder / the CLI also stops ingesting after a parser error
    for (b, c) in ((1, 0), (0, 1)):
        lines = ['builder max_concurrent=1' + (' fail_fast=1' if b else '')] + (['cli fail_fast=1'] if c else []) + \
                ['feature', '| Feature: f', '|   Scenario: s0', '|     Given x0', 'parse_error', 'feature', '| Feature: g', '|   Scenario: s1', '|     Given x1']
        res, out, path = runit('failfast-parser-error-b%s-c%s' % (b, c), lines)
        started = len(re.findall(r'LOG EV feature\[\w+\]:scenario\[s\d\]:started', out))
        if res is None:
            fails.append(out[-200:])
        elif started != 1:
            devs.append(('fail_fast builder=%s cli=%s with a parser error between two features: %d scenarios started, specification 1' % (b, c, started), path))
    for (b, c, want) in (('@a', None, 2), ('@a', '@b', 1), ('@b', '@a', 2), (None, '@a', 2)):
        lines = ['builder retries=1' + (' retry_filter=%s' % b if b else '')] + (['cli retry_filter=%s' % c] if c else []) + one + ['step x0 always_fail']
        res, out, path = runit('filter-b%s-c%s' % (b, c), lines)
        if res is None:
            fails.append(out[-200:])
        elif attempts(out, 'x0') != want:
            devs.append(('retry_filter builder=%s cli=%s: %d attempts, specification %d' % (b, c, attempts(out, 'x0'), want), path))
    for (b, c, slow) in ((400, None, True), (400, 1, False), (None, 400, True)):
        lines = ['builder retries=1' + (' retry_after_ms=%d' % b if b else '')] + (['cli retry_after_ms=%d' % c] if c else []) + one + ['step x0 fail_first=1']
        res, out, path = runit('after-b%s-c%s' % (b, c), lines)
        ts = [int(x) for x in re.findall(r'LOG enter step \[x0\] call=\d+ .* t=(\d+)', out)]
        if res is None or len(ts) != 2:
            fails.append(out[-200:])
        elif ((ts[1] - ts[0]) >= 300) != slow:
            devs.append(('retry_after builder=%s cli=%s: gap %d ms, specification %s' % (b, c, ts[1] - ts[0], '>= 400' if slow else '~0'), path))
    for o in bad:
        if fails and not devs:
            o.verdict = 'inconclusive'
            o.detail += ' | native replay failed: %s' % fails[0]
        elif devs:
            o.replay = devs[0][1]
            for _, p in devs:
                if p not in chk.replay_files:
                    chk.replay_files.append(p)
            o.detail += ' | reproduced natively through the real runner: %s' % '; '.join(x for x, _ in devs[:3])
        else:
            o.verdict = 'inconclusive'
            o.detail += ' | native replays through the real runner follow the specification - counterexample not reproduced'
