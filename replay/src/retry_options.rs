//! mode retry_options: evaluate the real (public) `RetryOptions::parse_from_tags` on scripted cases.
//!   case rule=0|1 stag=<tag|-> rtag=<tag|-> ftag=<tag|-> flaky=none|scenario|rule|feature cli=<-|k=v,k=v>
use std::time::Duration;

use cucumber::runner::basic::{Cli, RetryOptions};

use super::parse_feature;

pub fn run(lines: &[Vec<String>]) {
    for l in lines.iter().filter(|l| l[0] == "case") {
        let get = |k: &str| -> String {
            l.iter().find_map(|t| t.strip_prefix(&format!("{k}="))).unwrap_or("-").to_owned()
        };
        let in_rule = get("rule") == "1";
        let flaky = get("flaky");
        let tags = |lvl: &str, key: &str| -> String {
            let mut v = vec![];
            let t = get(key);
            if t != "-" {
                v.push(format!("@{t}"));
            }
            if flaky == lvl {
                v.push("@flaky".to_owned());
            }
            v.join(" ")
        };
        let mut text = String::new();
        let ft = tags("feature", "ftag");
        if !ft.is_empty() {
            text.push_str(&format!("{ft}\n"));
        }
        text.push_str("Feature: f\n");
        let ind = if in_rule { "    " } else { "  " };
        if in_rule {
            let rt = tags("rule", "rtag");
            if !rt.is_empty() {
                text.push_str(&format!("  {rt}\n"));
            }
            text.push_str("  Rule: r\n");
        }
        let st = tags("scenario", "stag");
        if !st.is_empty() {
            text.push_str(&format!("{ind}{st}\n"));
        }
        text.push_str(&format!("{ind}Scenario: s\n{ind}  Given x\n"));
        let feat = parse_feature(&text);
        let rule = in_rule.then(|| &feat.rules[0]);
        let scen = if in_rule { &feat.rules[0].scenarios[0] } else { &feat.scenarios[0] };
        let mut cli = Cli::default();
        for kv in get("cli").split(',') {
            if let Some((k, v)) = kv.split_once('=') {
                match k {
                    "retry" => cli.retry = Some(v.parse().unwrap()),
                    "after" => cli.retry_after = Some(Duration::from_secs(v.parse().unwrap())),
                    "filter" => cli.retry_tag_filter = Some(v.replace('_', " ").parse().expect("tag expr")),
                    _ => panic!("cli key {k}"),
                }
            }
        }
        match RetryOptions::parse_from_tags(&feat, rule, scen, &cli) {
            None => println!("CASE none"),
            Some(r) => println!(
                "CASE left={},after={}",
                r.retries.left,
                r.after.map_or("-".to_owned(), |d| d.as_secs().to_string())
            ),
        }
    }
    println!("RESULT done=true");
}
