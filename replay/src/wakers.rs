//! mode wakers: the real runner consumed by a poller that hands out a NEW waker at every poll, polls once more after
//! every `Pending` (a spurious poll - allowed) and then waits for the LATEST waker only (the `Future::poll` contract:
//! only the waker of the most recent poll has to be woken).  One scenario fails once and is retried after a delay while
//! nothing else is runnable.  Prints `WAKERS events=<n> finished=<bool> lost=<0|1>`.
use std::{
    sync::{
        atomic::{AtomicBool, AtomicUsize, Ordering},
        Arc,
    },
    task::{Context, Poll, Wake, Waker},
    time::{Duration, Instant},
};

use cucumber::{event, given, runner, Runner as _, World};
use futures::{stream, Stream as _};

use super::parse_feature;

#[derive(Debug, Default, World)]
pub struct WW;

static CALLS: AtomicUsize = AtomicUsize::new(0);

#[given("flaky once")]
fn flaky_once(_: &mut WW) {
    if CALLS.fetch_add(1, Ordering::SeqCst) == 0 {
        panic!("first attempt fails");
    }
}

struct Flag(AtomicBool);

impl Wake for Flag {
    fn wake(self: Arc<Self>) {
        self.0.store(true, Ordering::SeqCst);
    }
}

pub fn run() {
    let feat = parse_feature("Feature: f\n  Scenario: s\n    Given flaky once\n");
    let r = runner::Basic::<WW>::default()
        .max_concurrent_scenarios(Some(1))
        .retries(1)
        .retry_after(Duration::from_millis(300))
        .steps(WW::collection());
    let mut s = Box::pin(r.run(stream::iter(vec![Ok(feat)]), runner::basic::Cli::default()));
    let (mut events, mut finished, mut lost) = (0_usize, false, 0);
    let fresh = || {
        let f = Arc::new(Flag(AtomicBool::new(false)));
        (f.clone(), Waker::from(f))
    };
    'outer: loop {
        let (_, w) = fresh();
        let mut polled = s.as_mut().poll_next(&mut Context::from_waker(&w));
        if polled.is_pending() {
            // a spurious second poll with another waker; from now on only that one counts
            let (flag, w2) = fresh();
            polled = s.as_mut().poll_next(&mut Context::from_waker(&w2));
            if polled.is_pending() {
                let t0 = Instant::now();
                while !flag.0.load(Ordering::SeqCst) {
                    if t0.elapsed() > Duration::from_secs(5) {
                        lost = 1;
                        break 'outer;
                    }
                    std::thread::sleep(Duration::from_millis(1));
                }
                continue;
            }
        }
        match polled {
            Poll::Ready(Some(ev)) => {
                events += 1;
                if let Ok(ev) = ev {
                    if matches!(ev.into_inner(), event::Cucumber::Finished) {
                        finished = true;
                    }
                }
            }
            Poll::Ready(None) => break,
            Poll::Pending => unreachable!(),
        }
    }
    println!("WAKERS events={events} finished={finished} lost={lost} step_calls={}", CALLS.load(Ordering::SeqCst));
    println!("RESULT lost={lost} finished={finished} events={events}");
}
