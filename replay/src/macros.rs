//! mode macros: step functions registered through the REAL `#[given]` attribute, one per way of spelling a fallible
//! return type (the same menu as /verif/macroprobe), run through the real runner.  Prints `STEP <name> outcome=passed|failed|skipped`.
use cucumber::{event, given, runner, Runner as _, World};
use futures::{executor::block_on, stream, StreamExt as _};

use super::parse_feature;

#[derive(Debug, Default, World)]
pub struct MW;

pub type TestResult = Result<(), String>;
pub mod nested {
    pub type Fallible = std::result::Result<(), String>;
}

#[given("unit")]
fn ret_unit(_: &mut MW) {}

#[given("direct")]
fn ret_direct(_: &mut MW) -> Result<(), String> {
    Err("direct".to_owned())
}

#[given("std path")]
fn ret_std_path(_: &mut MW) -> std::result::Result<(), String> {
    Err("std path".to_owned())
}

#[given("io")]
fn ret_io(_: &mut MW) -> std::io::Result<()> {
    Err(std::io::Error::other("io"))
}

#[given("alias")]
fn ret_alias(_: &mut MW) -> TestResult {
    Err("alias".to_owned())
}

#[given("nested alias")]
fn ret_nested_alias(_: &mut MW) -> nested::Fallible {
    Err("nested alias".to_owned())
}

#[given("async alias")]
async fn ret_async_alias(_: &mut MW) -> TestResult {
    Err("async alias".to_owned())
}

#[given("async direct")]
async fn ret_async_direct(_: &mut MW) -> Result<(), String> {
    Err("async direct".to_owned())
}

pub fn run() {
    let texts = ["unit", "direct", "std path", "io", "alias", "nested alias", "async alias", "async direct"];
    let mut text = String::from("Feature: f\n");
    for t in texts {
        text.push_str(&format!("  Scenario: {t}\n    Given {t}\n"));
    }
    let feat = parse_feature(&text);
    let r = runner::Basic::<MW>::default().max_concurrent_scenarios(Some(1)).steps(MW::collection());
    let mut s = r.run(stream::iter(vec![Ok(feat)]), runner::basic::Cli::default());
    let mut n = 0;
    block_on(async {
        while let Some(ev) = s.next().await {
            let Ok(ev) = ev else { continue };
            if let event::Cucumber::Feature(_, event::Feature::Scenario(sc, rs)) = ev.into_inner() {
                if let event::Scenario::Step(_, st) = rs.event {
                    let outcome = match st {
                        event::Step::Passed(..) => "passed",
                        event::Step::Failed(..) => "failed",
                        event::Step::Skipped => "skipped",
                        _ => continue,
                    };
                    println!("STEP {} outcome={outcome}", sc.name.replace(' ', "_"));
                    n += 1;
                }
            }
        }
    });
    println!("RESULT steps={n}");
}
