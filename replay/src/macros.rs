//! mode macros: step functions registered through the REAL `#[given]` attribute, one per way of spelling a fallible
//! return type (the same menu as /verif/macroprobe), run through the real runner.  Prints `STEP <name> outcome=passed|failed|skipped`.
use cucumber::{event, given, runner, then, when, Runner as _, World};
use futures::{executor::block_on, stream, StreamExt as _};

use super::parse_feature;

#[derive(Debug, Default, World)]
pub struct MW;

pub type TestResult = Result<(), String>;
pub mod nested {
    pub type Fallible = std::result::Result<(), String>;
}

#[given("unit")]
fn ret_unit(_: &mut MW) {}

#[given("direct")]
fn ret_direct(_: &mut MW) -> Result<(), String> {
    Err("direct".to_owned())
}

#[given("std path")]
fn ret_std_path(_: &mut MW) -> std::result::Result<(), String> {
    Err("std path".to_owned())
}

#[given("io")]
fn ret_io(_: &mut MW) -> std::io::Result<()> {
    Err(std::io::Error::other("io"))
}

#[given("alias")]
fn ret_alias(_: &mut MW) -> TestResult {
    Err("alias".to_owned())
}

#[given("nested alias")]
fn ret_nested_alias(_: &mut MW) -> nested::Fallible {
    Err("nested alias".to_owned())
}

#[given("async alias")]
async fn ret_async_alias(_: &mut MW) -> TestResult {
    Err("async alias".to_owned())
}

#[given("async direct")]
async fn ret_async_direct(_: &mut MW) -> Result<(), String> {
    Err("async direct".to_owned())
}

// ---- dispatch (the same functions as /verif/macroprobe; what they receive is logged)
static ARGS: std::sync::Mutex<Vec<(String, String)>> = std::sync::Mutex::new(Vec::new());

fn note(f: &str, args: String) {
    ARGS.lock().unwrap().push((f.to_owned(), args));
}

#[then(regex = r"^then (\d+) and (\S+)$")]
fn then_two_args(_: &mut MW, n: u64, s: String) {
    note("then_two_args", format!("{n},{s}"));
}

#[given(regex = r"^step arg (\d+)$")]
fn given_step_arg(_: &mut MW, n: u64, #[step] st: &cucumber::gherkin::Step) {
    note("given_step_arg", format!("{n},{}", st.value));
}

#[when(regex = r"^async (-?\d+)$")]
async fn when_async_arg(_: &mut MW, n: i32) -> Result<(), String> {
    note("when_async_arg", format!("{n}"));
    Ok(())
}

#[when("when literal (with) meta.chars?")]
fn when_literal(_: &mut MW) {}

/// Ordinal number: both groups take part in every match; `FromStr` is to see the first non-empty one.
#[derive(Clone, Copy, Debug, cucumber::Parameter, PartialEq)]
#[param(name = "ordinal", regex = r"(\d+)(st|nd|rd|th)")]
pub struct Ordinal(pub u32);

impl std::str::FromStr for Ordinal {
    type Err = std::num::ParseIntError;

    fn from_str(s: &str) -> Result<Self, Self::Err> {
        s.parse().map(Self)
    }
}

#[given(expr = "pick the {ordinal} of {int} from {word}")]
fn expr_custom(_: &mut MW, which: Ordinal, total: u32, shelf: String) {
    note("expr_custom", format!("{},{total},{shelf}", which.0));
}

#[when(regex = r"^all of (\d+) (\d+) (\d+)$")]
fn slice_args(_: &mut MW, all: &[u64]) {
    note("slice_args", all.iter().map(ToString::to_string).collect::<Vec<_>>().join(","));
}

#[then(regex = r"^(?P<user_name>\S+) is (?P<user_age>\d+)$")]
fn named_groups(_: &mut MW, name: String, age: u32) {
    note("named_groups", format!("{name},{age}"));
}

#[given("twice")]
#[when("twice again")]
fn twice(_: &mut MW) {}

/// `World::collection()`: every attribute-registered step is found under its own keyword only, literal attributes match the
/// identical text only.
fn registration() {
    let c = MW::collection();
    // (label, keyword, text that matches, texts that must not match)
    let cases: [(&str, &str, &str, &[&str]); 11] = [
        ("named_groups", "Then", "bob is 42", &["bob is x"]),
        ("twice_given", "Given", "twice", &["twice again"]),
        ("twice_when", "When", "twice again", &["twice"]),
        ("expr_custom", "Given", "pick the 2nd of 5 from shelf", &["pick the 2 of 5 from shelf", "pick the 2nd of five from shelf", "pick the 2nd of 5 from top shelf"]),
        ("slice_args", "When", "all of 1 2 3", &["all of 1 2", "all of 1 2 x"]),
        ("unit", "Given", "unit", &["unit extra", "xunit", "uni"]),
        ("direct", "Given", "direct", &["directly"]),
        ("when_literal", "When", "when literal (with) meta.chars?", &["when literal with meta.chars?", "when literal (with) metaXchars?", "when literal (with) meta.char"]),
        ("then_two_args", "Then", "then 7 and seven", &["then x and seven"]),
        ("given_step_arg", "Given", "step arg 5", &["step arg"]),
        ("when_async_arg", "When", "async -3", &["async x"]),
    ];
    for (label, kw, text, never) in cases {
        let mut wrong = vec![];
        for k in ["Given", "When", "Then"] {
            let feat = parse_feature(&format!("Feature: f\n  Scenario: s\n    {k} {text}\n"));
            let found = c.find(&feat.scenarios[0].steps[0]);
            let n = match &found { Ok(Some(_)) => 1, Ok(None) => 0, Err(e) => e.possible_matches.len() };
            if (k == kw) != (n == 1) {
                wrong.push(format!("{k}:{n}"));
            }
            if k == kw {
                if let Ok(Some((_, _, _, ctx))) = &found {
                    // the capture groups the wrapper is handed: name (or -) of each, in order
                    let names: Vec<String> = ctx.matches.iter().map(|(n, _)| n.clone().unwrap_or_else(|| "-".to_owned())).collect();
                    println!("NAMES {label} {}", names.join(","));
                }
                if let Ok(Some((_, _, loc, _))) = &found {
                    if loc.map_or(true, |l| !l.path.ends_with("macros.rs")) {
                        wrong.push("location".to_owned());
                    }
                }
                for t in never {
                    let feat = parse_feature(&format!("Feature: f\n  Scenario: s\n    {k} {t}\n"));
                    if !matches!(c.find(&feat.scenarios[0].steps[0]), Ok(None)) {
                        wrong.push(format!("also-matches:{}", t.replace(' ', "_")));
                    }
                }
            }
        }
        println!("FIND {label} {}", if wrong.is_empty() { "ok".to_owned() } else { wrong.join(",") });
    }
}

fn dispatch() {
    let cases = [
        ("then_two_args", "Then then 7 and seven"),
        ("then_two_args_bad", "Then then 99999999999999999999999 and x"),
        ("given_step_arg", "Given step arg 5"),
        ("when_async_arg", "When async -3"),
        ("expr_custom", "Given pick the 2nd of 5 from shelf"),
        ("expr_custom_bad", "Given pick the 99999999999th of 5 from shelf"),
        ("slice_args", "When all of 1 2 3"),
        ("named_groups", "Then bob is 42"),
        ("slice_args_bad", "When all of 1 99999999999999999999999 3"),
    ];
    let mut text = String::from("Feature: f\n");
    for (name, st) in cases {
        text.push_str(&format!("  Scenario: {name}\n    {st}\n"));
    }
    let feat = parse_feature(&text);
    let r = runner::Basic::<MW>::default().max_concurrent_scenarios(Some(1)).steps(MW::collection());
    let mut s = r.run(stream::iter(vec![Ok(feat)]), runner::basic::Cli::default());
    let mut outcomes: Vec<(String, &str)> = vec![];
    block_on(async {
        while let Some(ev) = s.next().await {
            let Ok(ev) = ev else { continue };
            if let event::Cucumber::Feature(_, event::Feature::Scenario(sc, rs)) = ev.into_inner() {
                if let event::Scenario::Step(_, st) = rs.event {
                    let outcome = match st {
                        event::Step::Passed(..) => "passed",
                        event::Step::Failed(..) => "failed",
                        event::Step::Skipped => "skipped",
                        _ => continue,
                    };
                    outcomes.push((sc.name.clone(), outcome));
                }
            }
        }
    });
    let args = ARGS.lock().unwrap().clone();
    for (name, outcome) in outcomes {
        let f = name.trim_end_matches("_bad");
        // calls are logged in scenario order: the k-th logged call of `f` belongs to the k-th scenario using it that ran it
        let a = if outcome == "failed" { "-".to_owned() } else { args.iter().find(|(g, _)| g == f).map_or("-".to_owned(), |(_, a)| a.clone()) };
        println!("DISPATCH {name} outcome={outcome} args={a}");
    }
}

pub fn run() {
    registration();
    dispatch();
    let texts = ["unit", "direct", "std path", "io", "alias", "nested alias", "async alias", "async direct"];
    let mut text = String::from("Feature: f\n");
    for t in texts {
        text.push_str(&format!("  Scenario: {t}\n    Given {t}\n"));
    }
    let feat = parse_feature(&text);
    let r = runner::Basic::<MW>::default().max_concurrent_scenarios(Some(1)).steps(MW::collection());
    let mut s = r.run(stream::iter(vec![Ok(feat)]), runner::basic::Cli::default());
    let mut n = 0;
    block_on(async {
        while let Some(ev) = s.next().await {
            let Ok(ev) = ev else { continue };
            if let event::Cucumber::Feature(_, event::Feature::Scenario(sc, rs)) = ev.into_inner() {
                if let event::Scenario::Step(_, st) = rs.event {
                    let outcome = match st {
                        event::Step::Passed(..) => "passed",
                        event::Step::Failed(..) => "failed",
                        event::Step::Skipped => "skipped",
                        _ => continue,
                    };
                    println!("STEP {} outcome={outcome}", sc.name.replace(' ', "_"));
                    n += 1;
                }
            }
        }
    });
    println!("RESULT steps={n}");
}
