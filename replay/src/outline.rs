//! mode outline: parse the feature text given in the script (lines starting with `| `), run the real
//! `cucumber::feature::Ext::expand_examples` and print what came out, one fact per line:
//!   ERROR name=<placeholder>
//!   SCENARIO where=top|rule name=<..> line=<n> tags=<a,b,..>
//!   STEP value=<..>            (then optionally DOC <..> and CELL <row> <col> <..>)
//! Newlines inside values are printed as `\n`, spaces are kept (values run to the end of the line).
use cucumber::feature::Ext as _;

pub fn run(raw: &str) {
    let text: String = raw
        .lines()
        .filter_map(|l| l.strip_prefix("| ").or_else(|| (l == "|").then_some("")))
        .map(|l| format!("{l}\n"))
        .collect();
    let feat = super::parse_feature(&text);
    let esc = |s: &str| s.replace('\\', "\\\\").replace('\n', "\\n");
    match feat.expand_examples() {
        Err(e) => println!("ERROR name={}", e.name),
        Ok(f) => {
            let dump = |wher: &str, s: &gherkin::Scenario| {
                println!("SCENARIO where={wher} name={} line={} tags={}", esc(&s.name), s.position.line, s.tags.join(","));
                for st in &s.steps {
                    println!("STEP value={}", esc(&st.value));
                    if let Some(d) = &st.docstring {
                        println!("DOC {}", esc(d));
                    }
                    if let Some(t) = &st.table {
                        for (r, row) in t.rows.iter().enumerate() {
                            for (c, cell) in row.iter().enumerate() {
                                println!("CELL {r} {c} {}", esc(cell));
                            }
                        }
                    }
                }
            };
            for s in &f.scenarios {
                dump("top", s);
            }
            for r in &f.rules {
                for s in &r.scenarios {
                    dump("rule", s);
                }
            }
        }
    }
    println!("RESULT done=true");
}
