//! Native replay driver: turns a solver counterexample (a small line-based
//! script) into a run against the REAL cucumber crate built from /repo's
//! current tree, and prints what the real code did.
#![allow(clippy::all, unused)]

use std::{
    any::Any,
    convert::Infallible,
    env, fs,
    sync::{Arc, Mutex},
};

use cucumber::{
    cli,
    event::{self, Cucumber as Ev, Event, HookType, Retries, Source},
    parser, writer, Event as _E, World, Writer,
};
use futures::executor::block_on;

#[derive(Debug, Default)]
struct W;

impl World for W {
    type Error = Infallible;
    async fn new() -> Result<Self, Infallible> {
        Ok(W)
    }
}

mod filter;
mod find;
mod runner;
mod summarize;
mod stream;
mod outline;
mod getters;
mod builders;
mod macros;
mod wakers;
mod retry_options;

fn main() {
    let path = env::args().nth(1).or_else(|| env::var("CUKE_REPLAY_SCRIPT").ok()).expect("script path");
    let text = fs::read_to_string(&path).expect("read script");
    let lines: Vec<Vec<String>> = text
        .lines()
        .map(|l| l.split('#').next().unwrap().split_whitespace().map(String::from).collect::<Vec<_>>())
        .filter(|v: &Vec<String>| !v.is_empty())
        .collect();
    let mode = lines
        .iter()
        .find(|l| l[0] == "mode")
        .map(|l| l[1].clone())
        .expect("mode line");
    match mode.as_str() {
        "summarize" | "events" => summarize::run(&lines),
        "retry_options" => retry_options::run(&lines),
        "runner" => runner::run(lines.clone(), text.clone()),
        "filter" => filter::run(),
        "find" => find::run(),
        "stream" => stream::run(&lines),
        "outline" => outline::run(&text),
        "getters" => getters::run(&lines),
        "builders" => builders::run(&lines),
        "macros" => macros::run(),
        "wakers" => wakers::run(),
        m => panic!("unknown mode {m}"),
    }
}

/// Recording inner writer: non-transforming, normalized, zero stats.
#[derive(Clone, Debug, Default)]
pub struct Rec {
    pub log: Arc<Mutex<Vec<String>>>,
    /// what was written through `writer::Arbitrary` (the summary text)
    pub texts: Arc<Mutex<Vec<String>>>,
}

impl<Wl: World> Writer<Wl> for Rec {
    type Cli = cli::Empty;

    async fn handle_event(&mut self, ev: parser::Result<Event<Ev<Wl>>>, _: &Self::Cli) {
        let s = match ev {
            Err(_) => "err".to_owned(),
            Ok(e) => classify(&e.into_inner()),
        };
        self.log.lock().unwrap().push(s);
    }
}

impl<Wl: World> writer::Arbitrary<Wl, String> for Rec {
    async fn write(&mut self, val: String) {
        self.log.lock().unwrap().push(format!("write:{}", val.len()));
        self.texts.lock().unwrap().push(val);
    }
}

impl writer::NonTransforming for Rec {}
impl writer::Normalized for Rec {}

pub fn classify<Wl>(e: &Ev<Wl>) -> String {
    match e {
        Ev::Started => "started".into(),
        Ev::ParsingFinished { features, rules, scenarios, steps, parser_errors } => {
            format!("parsing_finished[f={features},r={rules},sc={scenarios},st={steps},err={parser_errors}]")
        }
        Ev::Finished => "finished".into(),
        Ev::Feature(f, fe) => format!("feature[{}]:{}", f.name, match fe {
            event::Feature::Started => "started".to_owned(),
            event::Feature::Finished => "finished".to_owned(),
            event::Feature::Rule(r, re) => format!("rule[{}]:{}", r.name, match re {
                event::Rule::Started => "started".to_owned(),
                event::Rule::Finished => "finished".to_owned(),
                event::Rule::Scenario(s, se) => format!("scenario[{}]:{}", s.name, sc(se)),
            }),
            event::Feature::Scenario(s, se) => format!("scenario[{}]:{}", s.name, sc(se)),
        }),
    }
}

fn sc<Wl>(e: &event::RetryableScenario<Wl>) -> String {
    let r = e.retries.map_or("-".to_owned(), |r| format!("{}/{}", r.current, r.left));
    let k = match &e.event {
        event::Scenario::Started => "started".to_owned(),
        event::Scenario::Finished => "finished".to_owned(),
        event::Scenario::Log(_) => "log".to_owned(),
        event::Scenario::Hook(t, h) => format!("hook:{t:?}:{}", match h {
            event::Hook::Started => "started",
            event::Hook::Passed => "passed",
            event::Hook::Failed(_, i) => return format!("hook:{t:?}:failed{} r={r}", payload_kind(i)),
        }),
        event::Scenario::Background(s, e) => format!("bg[{}]:{}", s.value, st(e)),
        event::Scenario::Step(s, e) => format!("step[{}]:{}", s.value, st(e)),
    };
    format!("{k} r={r}")
}

/// which concrete type the type-erased payload of a failure has
fn payload_kind(i: &event::Info) -> &'static str {
    if i.downcast_ref::<String>().is_some() || i.downcast_ref::<&'static str>().is_some() {
        ""
    } else if i.downcast_ref::<runner::CustomPayload>().is_some() {
        "+custom"
    } else {
        "+unknown-type"
    }
}

fn st<Wl>(e: &event::Step<Wl>) -> String {
    match e {
        event::Step::Started => "started".into(),
        event::Step::Skipped => "skipped".into(),
        event::Step::Passed(..) => "passed".into(),
        event::Step::Failed(_, _, _, err) => format!("failed:{}", match err {
            event::StepError::NotFound => "notfound",
            event::StepError::AmbiguousMatch(_) => "ambiguous",
            event::StepError::Panic(i) => return format!("failed:panic{}", payload_kind(i)),
        }),
    }
}

pub fn parse_feature(text: &str) -> gherkin::Feature {
    gherkin::Feature::parse(text, gherkin::GherkinEnv::default()).expect("feature parses")
}

pub fn retries(tok: &str) -> Option<Retries> {
    let t = tok.strip_prefix("r=").expect("r=");
    if t == "-" {
        return None;
    }
    let (c, l) = t.split_once('/').expect("c/l");
    Some(Retries { current: c.parse().unwrap(), left: l.parse().unwrap() })
}
