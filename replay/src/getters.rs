//! mode getters: the `writer::Stats` getters of every wrapper over stub writers with scripted statistics.
//!   left  <passed> <skipped> <failed> <retried> <parsing> <hooks>
//!   right <passed> <skipped> <failed> <retried> <parsing> <hooks>
//! prints `GET <wrapper> <getter> <value>`; wrappers: tee (left, right), or (left, right), and over `left` alone:
//! normalize, assert_normalized, fail_on_skipped, repeat_failed, discard_stats, discard_arbitrary
use cucumber::{cli, event, parser, writer, Event, World, Writer, WriterExt as _};

use super::W;

#[derive(Clone, Copy, Debug)]
struct St([usize; 6]);

impl<Wl: World> Writer<Wl> for St {
    type Cli = cli::Empty;
    async fn handle_event(&mut self, _: parser::Result<Event<event::Cucumber<Wl>>>, _: &Self::Cli) {}
}
impl<Wl: World, V: 'static> writer::Arbitrary<Wl, V> for St {
    async fn write(&mut self, _: V) {}
}
impl<Wl: World> writer::Stats<Wl> for St {
    fn passed_steps(&self) -> usize { self.0[0] }
    fn skipped_steps(&self) -> usize { self.0[1] }
    fn failed_steps(&self) -> usize { self.0[2] }
    fn retried_steps(&self) -> usize { self.0[3] }
    fn parsing_errors(&self) -> usize { self.0[4] }
    fn hook_errors(&self) -> usize { self.0[5] }
}
impl writer::NonTransforming for St {}
impl writer::Normalized for St {}

fn dump<Wr: writer::Stats<W>>(name: &str, w: &Wr) {
    println!("GET {name} passed_steps {}", w.passed_steps());
    println!("GET {name} skipped_steps {}", w.skipped_steps());
    println!("GET {name} failed_steps {}", w.failed_steps());
    println!("GET {name} retried_steps {}", w.retried_steps());
    println!("GET {name} parsing_errors {}", w.parsing_errors());
    println!("GET {name} hook_errors {}", w.hook_errors());
    println!("GET {name} execution_has_failed {}", w.execution_has_failed() as usize);
}

pub fn run(lines: &[Vec<String>]) {
    let get = |k: &str| -> St {
        let l = lines.iter().find(|l| l[0] == k).expect("left / right line");
        let mut a = [0usize; 6];
        for i in 0..6 {
            a[i] = l[i + 1].parse().unwrap();
        }
        St(a)
    };
    let (l, r) = (get("left"), get("right"));
    dump("tee", &writer::Tee::new(l, r));
    if l.0.iter().zip(r.0.iter()).all(|(a, b)| a.checked_add(*b).is_some()) {
        dump("or", &writer::Or::new(l, r, |_: &parser::Result<Event<event::Cucumber<W>>>, _: &cli::Compose<cli::Empty, cli::Empty>| true));
    }
    dump("normalize", &writer::Normalize::new(l));
    dump("assert_normalized", &writer::AssertNormalized::new(l));
    dump("fail_on_skipped", &writer::FailOnSkipped::new(l));
    dump("repeat", &writer::Repeat::failed(l));
    dump("discard_stats", &WriterExt_discard_stats(l));
    println!("RESULT done=true");
}

#[allow(non_snake_case)]
fn WriterExt_discard_stats(l: St) -> writer::discard::Stats<St> {
    writer::discard::Stats::wrap(l)
}
