//! mode builders: the REAL `Cucumber` with `--name wip` installed through `with_cli()`, then ONE builder method, then
//! `filter_run` with an accept-all closure through the real `runner::Basic`.  Prints `CASE <method> started=<names>`:
//! only the scenario named `wip` may start.  Run WITHOUT command-line arguments (script path in CUKE_REPLAY_SCRIPT): a
//! `Cucumber` that lost its options falls back to parsing the process command line.
use cucumber::{cli, parser, runner, step::Context, Cucumber, Parser, WriterExt as _};
use futures::{future::LocalBoxFuture, stream, FutureExt as _};

use super::{parse_feature, Rec, W};

struct MemParser(Vec<gherkin::Feature>);

impl Parser<()> for MemParser {
    type Cli = cli::Empty;
    type Output = stream::Iter<std::vec::IntoIter<parser::Result<gherkin::Feature>>>;
    fn parse(self, _: (), _: cli::Empty) -> Self::Output {
        stream::iter(self.0.into_iter().map(Ok).collect::<Vec<_>>())
    }
}

fn st(_: &mut W, _: Context) -> LocalBoxFuture<'_, ()> {
    async {}.boxed_local()
}

fn before_fn<'a>(_: &'a gherkin::Feature, _: Option<&'a gherkin::Rule>, _: &'a gherkin::Scenario, _: &'a mut W) -> LocalBoxFuture<'a, ()> {
    async {}.boxed_local()
}

fn after_fn<'a>(
    _: &'a gherkin::Feature,
    _: Option<&'a gherkin::Rule>,
    _: &'a gherkin::Scenario,
    _: &'a cucumber::event::ScenarioFinished,
    _: Option<&'a mut W>,
) -> LocalBoxFuture<'a, ()> {
    async {}.boxed_local()
}

type Base = Cucumber<W, MemParser, (), runner::Basic<W>, Rec, cli::Empty>;

fn mk(rec: Rec) -> Base {
    let feat = parse_feature("Feature: f\n  Scenario: wip\n    Given x\n  Scenario: other\n    Given x\n  Rule: r\n    Scenario: third\n      Given x\n");
    let opts = cli::Opts::<cli::Empty, runner::basic::Cli, cli::Empty, cli::Empty> {
        re_filter: Some(regex::Regex::new("wip").unwrap()),
        tags_filter: None,
        parser: cli::Empty,
        runner: runner::basic::Cli::default(),
        writer: cli::Empty,
        custom: cli::Empty,
    };
    let r = runner::Basic::<W>::default().given(regex::Regex::new("^x$").unwrap(), st);
    Cucumber::<W, _, (), _, _, cli::Empty>::custom(MemParser(vec![feat]), r, rec).with_cli(opts)
}

fn report(name: &str, rec: &Rec) {
    let mut names = vec![];
    for l in rec.log.lock().unwrap().iter() {
        if l.contains(":started") {
            if let Some(i) = l.rfind("scenario[") {
                let rest = &l[i + 9..];
                if let Some(j) = rest.find(']') {
                    if rest[j..].starts_with("]:started") {
                        names.push(rest[..j].to_owned());
                    }
                }
            }
        }
    }
    println!("CASE {name} started={}", names.join("+"));
}

macro_rules! case {
    ($name:expr, $f:expr) => {{
        let rec = Rec::default();
        let c = $f(mk(rec.clone()));
        let _w = futures::executor::block_on(c.filter_run((), |_, _, _| true));
        report($name, &rec);
    }};
}

pub fn run(lines: &[Vec<String>]) {
    case!("none", |c: Base| c);
    let mut n = 1;
    for l in lines.iter().filter(|l| l[0] == "method") {
        n += 1;
        match l[1].as_str() {
            "max_concurrent_scenarios" => case!("max_concurrent_scenarios", |c: Base| c.max_concurrent_scenarios(Some(2))),
            "retries" => case!("retries", |c: Base| c.retries(1)),
            "fail_fast" => case!("fail_fast", |c: Base| c.fail_fast()),
            "retry_after" => case!("retry_after", |c: Base| c.retry_after(std::time::Duration::from_millis(1))),
            "retry_filter" => case!("retry_filter", |c: Base| c.retry_filter("@flaky".parse::<gherkin::tagexpr::TagOperation>().unwrap())),
            "which_scenario" => case!("which_scenario", |c: Base| c.which_scenario(|_, _, _| runner::ScenarioType::Concurrent)),
            "retry_options" => case!("retry_options", |c: Base| c.retry_options(|_, _, _, _| None)),
            "before" => case!("before", |c: Base| c.before(before_fn)),
            "after" => case!("after", |c: Base| c.after(after_fn)),
            "steps" => case!("steps", |c: Base| c.steps(cucumber::step::Collection::new().given(None, regex::Regex::new("^x$").unwrap(), st))),
            "given" => case!("given", |c: Base| c.given(regex::Regex::new("^y$").unwrap(), st)),
            "when" => case!("when", |c: Base| c.when(regex::Regex::new("^y$").unwrap(), st)),
            "then" => case!("then", |c: Base| c.then(regex::Regex::new("^y$").unwrap(), st)),
            "repeat_skipped" => case!("repeat_skipped", |c: Base| c.repeat_skipped()),
            "repeat_failed" => case!("repeat_failed", |c: Base| c.repeat_failed()),
            "repeat_if" => case!("repeat_if", |c: Base| c.repeat_if(|_| false)),
            "fail_on_skipped" => case!("fail_on_skipped", |c: Base| c.fail_on_skipped()),
            "fail_on_skipped_with" => case!("fail_on_skipped_with", |c: Base| c.fail_on_skipped_with(|_, _, _| false)),
            m => println!("CASE {m} unsupported"),
        }
    }
    println!("RESULT cases={n}");
}
