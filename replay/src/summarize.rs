//! mode summarize | events: feed a scripted event sequence of ONE scenario to a real writer
//! pipeline (`wrapper summarize|fail_on_skipped|repeat_skipped|repeat_failed|none`, default
//! summarize) over a recording inner writer; print counters and what the inner writer received.
//!
//!   ftags a b / rtags a / stags a   tags on feature / rule / scenario (without @)
//!   bg <n>                     background steps of the feature
//!   own <n>                    own steps of the scenario
//!   dup <i> / bgdup <i>        own / background step i has the same keyword and text as the last own step
//!   rule 0|1                   scenario lives in a rule
//!   twin                       a second scenario `t` of the same feature (and rule) at the SAME position as the scripted
//!                              one (features built by hand carry whatever positions their builder gives them); its
//!                              events are the `tev ...` lines (same forms as `ev ...`)
//!   ev started|finished r=..
//!   ev hook before|after started|passed|failed r=..
//!   ev bg|step <idx> started|passed|skipped|failed [notfound|ambiguous|panic] r=..
//!   ev parse_error | feature_started | feature_finished | rule_started | rule_finished | other_rule_started | other_rule_finished
//!      | run_started | run_finished | parsing_finished   (`other_rule`: a second rule of the same feature)
use std::sync::Arc;

use cucumber::{
    cli,
    event::{self, Cucumber as Ev, Event, HookType, Source},
    parser, writer,
    writer::Stats as _,
    Writer, WriterExt as _,
};
use futures::executor::block_on;

use super::{parse_feature, retries, Rec, W};

pub fn run(lines: &[Vec<String>]) {
    let get = |k: &str| -> usize {
        lines.iter().find(|l| l[0] == k).map_or(0, |l| l[1].parse().unwrap())
    };
    let (nbg, nown, in_rule) = (get("bg"), get("own"), get("rule") == 1);
    let tags = |k: &str| -> String {
        lines.iter().find(|l| l[0] == k).map_or(String::new(), |l| {
            l[1..].iter().map(|t| format!("@{t}")).collect::<Vec<_>>().join(" ")
        })
    };
    let mut text = String::new();
    if !tags("ftags").is_empty() {
        text.push_str(&format!("{}\n", tags("ftags")));
    }
    text.push_str("Feature: f\n");
    // `dup <i>` / `bgdup <i>`: own / background step i has the same keyword and text as the LAST own step
    let dup = |k: &str, i: usize| lines.iter().any(|l| l[0] == k && l[1].parse::<usize>().ok() == Some(i));
    if nbg > 0 {
        text.push_str("  Background:\n");
        for i in 0..nbg {
            if dup("bgdup", i) && nown > 0 {
                text.push_str(&format!("    Given own {}\n", nown - 1));
            } else {
                text.push_str(&format!("    Given bg {i}\n"));
            }
        }
    }
    let ind = if in_rule { "    " } else { "  " };
    if in_rule {
        if !tags("rtags").is_empty() {
            text.push_str(&format!("  {}\n", tags("rtags")));
        }
        text.push_str("  Rule: r\n");
    }
    if !tags("stags").is_empty() {
        text.push_str(&format!("{ind}{}\n", tags("stags")));
    }
    text.push_str(&format!("{ind}Scenario: s\n"));
    for i in 0..nown {
        if dup("dup", i) {
            text.push_str(&format!("{ind}  Given own {}\n", nown - 1));
        } else {
            text.push_str(&format!("{ind}  Given own {i}\n"));
        }
    }
    // a second rule of the same feature, for bracket events that do not concern the scripted scenario
    // (its events are sent under the scripted feature's Source; the rule value itself comes from a separate parse)
    let other = parse_feature("Feature: f\n  Rule: other\n    Scenario: o\n      Given x\n");
    let other_rule = Source::new(other.rules[0].clone());
    let feat = parse_feature(&text);
    let feature = Source::new(feat.clone());
    let rule = in_rule.then(|| Source::new(feat.rules[0].clone()));
    let scen = Source::new(if in_rule { feat.rules[0].scenarios[0].clone() } else { feat.scenarios[0].clone() });
    let twin = Source::new({
        let mut t: gherkin::Scenario = (*scen).clone();
        t.name = "t".into();
        t
    });
    let bg_steps: Vec<_> = feat.background.iter().flat_map(|b| b.steps.iter().cloned()).collect();
    let own_steps: Vec<_> = scen.steps.clone();

    let rec = Rec::default();
    let cli = cli::Empty;
    let wrapper = lines.iter().find(|l| l[0] == "wrapper").map_or("summarize".to_owned(), |l| l[1].clone());
    let mut evs: Vec<parser::Result<Event<Ev<W>>>> = Vec::new();
    let caps = || regex::Regex::new("").unwrap().capture_locations();
    let info = || -> event::Info { Arc::new("boom".to_owned()) };

    for l in lines.iter().filter(|l| l[0] == "ev" || l[0] == "tev") {
        let scen = if l[0] == "tev" { twin.clone() } else { scen.clone() };
        let r = l.iter().find(|t| t.starts_with("r=")).map(|t| retries(t)).unwrap_or(None);
        let sc = |e: event::Scenario<W>| -> parser::Result<Event<Ev<W>>> {
            Ok(Event::new(Ev::scenario(feature.clone(), rule.clone(), scen.clone(), e.with_retries(r))))
        };
        let step_ev = |kind: &str, err: Option<&str>| -> event::Step<W> {
            match kind {
                "started" => event::Step::Started,
                "passed" => event::Step::Passed(caps(), None),
                "skipped" => event::Step::Skipped,
                "failed" => event::Step::Failed(None, None, None, match err.unwrap_or("panic") {
                    "notfound" => event::StepError::NotFound,
                    "ambiguous" => event::StepError::AmbiguousMatch(cucumber::step::AmbiguousMatchError { possible_matches: vec![] }),
                    "panic" => event::StepError::Panic(info()),
                    e => panic!("err kind {e} not scriptable"),
                }),
                k => panic!("step kind {k}"),
            }
        };
        let ev: parser::Result<Event<Ev<W>>> = match l[1].as_str() {
            "started" => sc(event::Scenario::Started),
            "finished" => sc(event::Scenario::Finished),
            "hook" => {
                let ty = if l[2] == "before" { HookType::Before } else { HookType::After };
                sc(event::Scenario::Hook(ty, match l[3].as_str() {
                    "started" => event::Hook::Started,
                    "passed" => event::Hook::Passed,
                    _ => event::Hook::Failed(None, info()),
                }))
            }
            "bg" => {
                let i: usize = l[2].parse().unwrap();
                let s = Source::new(bg_steps[i.min(bg_steps.len() - 1)].clone());
                sc(event::Scenario::Background(s, step_ev(&l[3], l.get(4).map(String::as_str))))
            }
            "step" => {
                let i: usize = l[2].parse().unwrap();
                let s = Source::new(own_steps[i].clone());
                sc(event::Scenario::Step(s, step_ev(&l[3], l.get(4).map(String::as_str))))
            }
            "parse_error" => Err(parser::Error::Parsing(Arc::new(gherkin::ParseFileError::Reading {
                path: "x".into(),
                source: std::io::Error::other("x"),
            }))),
            "feature_started" => Ok(Event::new(Ev::feature_started(feature.clone()))),
            "feature_finished" => Ok(Event::new(Ev::feature_finished(feature.clone()))),
            "rule_started" => Ok(Event::new(Ev::rule_started(feature.clone(), rule.clone().expect("rule")))),
            "rule_finished" => Ok(Event::new(Ev::rule_finished(feature.clone(), rule.clone().expect("rule")))),
            "other_rule_started" => Ok(Event::new(Ev::rule_started(feature.clone(), other_rule.clone()))),
            "other_rule_finished" => Ok(Event::new(Ev::rule_finished(feature.clone(), other_rule.clone()))),
            "run_started" => Ok(Event::new(Ev::Started)),
            "run_finished" => Ok(Event::new(Ev::Finished)),
            "parsing_finished" => Ok(Event::new(Ev::ParsingFinished {
                features: 1, rules: 0, scenarios: 1, steps: 0, parser_errors: 0,
            })),
            k => panic!("event kind {k}"),
        };
        evs.push(ev);
    }
    macro_rules! feed {
        ($w:expr) => {{
            let mut w = $w;
            for ev in evs.drain(..) {
                block_on(Writer::<W>::handle_event(&mut w, ev, &cli));
            }
            w
        }};
    }
    let dump = |rec: &Rec| {
        for l in rec.log.lock().unwrap().iter() {
            println!("LOG {l}");
        }
    };
    match wrapper.as_str() {
        "summarize" => {}
        "fail_on_skipped" => {
            let _w = feed!(writer::FailOnSkipped::new(rec.clone()));
            dump(&rec);
            println!("RESULT inner_events={}", rec.log.lock().unwrap().len());
            return;
        }
        "repeat_skipped" => {
            let _w = feed!(writer::Repeat::skipped(rec.clone()));
            dump(&rec);
            println!("RESULT inner_events={}", rec.log.lock().unwrap().len());
            return;
        }
        "repeat_all" => {
            // a custom filter that selects every item, the run-level events included
            let _w = feed!(writer::Repeat::new(rec.clone(), |_: &parser::Result<Event<Ev<W>>>| true));
            dump(&rec);
            println!("RESULT inner_events={}", rec.log.lock().unwrap().len());
            return;
        }
        "repeat_failed" => {
            let _w = feed!(writer::Repeat::failed(rec.clone()));
            dump(&rec);
            println!("RESULT inner_events={}", rec.log.lock().unwrap().len());
            return;
        }
        "tee" => {
            let (l, r) = (Rec::default(), Rec::default());
            let cli2 = cli::Compose { left: cli::Empty, right: cli::Empty };
            let mut w = writer::Tee::new(l.clone(), r.clone());
            for ev in evs.drain(..) {
                block_on(Writer::<W>::handle_event(&mut w, ev, &cli2));
            }
            for x in l.log.lock().unwrap().iter() {
                println!("LEFT {x}");
            }
            for x in r.log.lock().unwrap().iter() {
                println!("RIGHT {x}");
            }
            println!("RESULT left_events={} right_events={}", l.log.lock().unwrap().len(), r.log.lock().unwrap().len());
            return;
        }
        "or_true" | "or_false" => {
            let (l, r) = (Rec::default(), Rec::default());
            let cli2 = cli::Compose { left: cli::Empty, right: cli::Empty };
            let pick = wrapper == "or_true";
            let mut w = writer::Or::new(l.clone(), r.clone(), move |_: &parser::Result<Event<Ev<W>>>, _: &cli::Compose<cli::Empty, cli::Empty>| pick);
            for ev in evs.drain(..) {
                block_on(Writer::<W>::handle_event(&mut w, ev, &cli2));
            }
            println!("RESULT left_events={} right_events={}", l.log.lock().unwrap().len(), r.log.lock().unwrap().len());
            return;
        }
        "none" => {
            let _w = feed!(rec.clone());
            dump(&rec);
            println!("RESULT inner_events={}", rec.log.lock().unwrap().len());
            return;
        }
        w => panic!("unknown wrapper {w}"),
    }
    let w = feed!(writer::Summarize::new(rec.clone()));
    dump(&rec);
    let s = w.scenarios_stats();
    let t = w.steps_stats();
    let wr = rec.log.lock().unwrap().iter().filter(|l| l.starts_with("write:")).count();
    // features / rules have no getter: read them from the summary text that was written (-1: no such line)
    let text = rec.texts.lock().unwrap().join("\n");
    let count = |what: &str| -> i64 {
        regex::Regex::new(&format!(r"(\d+) {what}s?\b")).unwrap().captures(&text).map_or(-1, |c| c[1].parse().unwrap())
    };
    println!("SUMMARY features={} rules={}", count("feature"), count("rule"));
    println!(
        "RESULT sc_passed={} sc_skipped={} sc_failed={} sc_retried={} st_passed={} st_skipped={} st_failed={} st_retried={} g_passed={} g_skipped={} g_failed={} g_retried={} parsing_errors={} failed_hooks={} failed={} inner_events={} summary_writes={}",
        s.passed, s.skipped, s.failed, s.retried, t.passed, t.skipped, t.failed, t.retried,
        writer::Stats::<W>::passed_steps(&w), writer::Stats::<W>::skipped_steps(&w), writer::Stats::<W>::failed_steps(&w), writer::Stats::<W>::retried_steps(&w),
        writer::Stats::<W>::parsing_errors(&w), writer::Stats::<W>::hook_errors(&w),
        writer::Stats::<W>::execution_has_failed(&w),
        rec.log.lock().unwrap().len() - wr, wr,
    );
}
