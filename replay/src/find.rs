//! mode find: the public `step::Collection::find` on a grid of definitions (registered in every order) x step texts.
use cucumber::step::{Collection, Context, Location};
use futures::future::LocalBoxFuture;

use super::W;

fn f0(_: &mut W, _: Context) -> LocalBoxFuture<'_, ()> { Box::pin(async {}) }
fn f1(_: &mut W, _: Context) -> LocalBoxFuture<'_, ()> { Box::pin(async {}) }
fn f2(_: &mut W, _: Context) -> LocalBoxFuture<'_, ()> { Box::pin(async {}) }

pub fn run() {
    std::panic::set_hook(Box::new(|_| {}));
    let fns: [cucumber::step::Step<W>; 3] = [f0, f1, f2];
    // regexes written with '_' for ' ' so that the case line stays one token
    let menus: [[(&str, &str); 3]; 5] = [
        [("given", r"(?P<count>\d+)_cucumbers?"), ("when", r"(né)?_(\w+)_ü"), ("then", r"b(c)")],
        [("given", r"^foo_is_(\d+)"), ("given", r"^foo_is_(?P<n>\d+)_ambiguous$"), ("given", r"^foo_(is|was)_(\d+)?")],
        [("given", r"^foo_is_(\d+)$"), ("when", r"^foo_is_(\d+)$"), ("then", r"^(bar)?foo")],
        [("when", r"^a(b)?(c)?$"), ("when", r"^a(?P<x>b)?"), ("given", r"^a")],
        [("then", r"x"), ("then", r"y"), ("then", r"z")],
    ];
    let texts = ["foo_is_0_ambiguous", "foo_is_7", "foo_was_", "ab", "ac", "a", "xyz", "y", "nothing", "I_have_12_cucumbers", "é_né_zwölf_ü", "abc"];
    let kws = ["given", "when", "then"];
    let orders = [[0, 1, 2], [0, 2, 1], [1, 0, 2], [1, 2, 0], [2, 0, 1], [2, 1, 0]];
    let mut n = 0;
    for menu in menus {
        for order in orders {
            let mut c = Collection::<W>::new();
            for &i in &order {
                let (kw, rx) = menu[i];
                let re = regex::Regex::new(&rx.replace('_', " ")).unwrap();
                c = match kw {
                    "given" => c.given(None, re, fns[i]),
                    "when" => c.when(None, re, fns[i]),
                    _ => c.then(None, re, fns[i]),
                };
            }
            // every other registration order is looked up through a CLONE of the configured collection
            let c = if order[0] % 2 == 1 { c.clone() } else { c };
            for text in texts {
                for kw in kws {
                    let ty = match kw { "given" => "Given", "when" => "When", _ => "Then" };
                    let feat = super::parse_feature(&format!("Feature: f\n  Scenario: s\n    {ty} {}\n", text.replace('_', " ")));
                    let step = &feat.scenarios[0].steps[0];
                    let found = std::panic::catch_unwind(std::panic::AssertUnwindSafe(|| c.find(step)));
                    let Ok(found) = found else {
                        println!("CASE defs={} kw={kw} text={text} result=panicked", menu.iter().map(|(k, r)| format!("{k}:{r}")).collect::<Vec<_>>().join("~~"));
                        n += 1;
                        continue;
                    };
                    let result = match found {
                        Ok(None) => "none".to_owned(),
                        Err(e) => format!("ambiguous:{}", e.possible_matches.iter().map(|(r, _)| r.as_str().replace(' ', "_")).collect::<Vec<_>>().join(",")),
                        Ok(Some((f, _caps, _loc, ctx))) => {
                            let which = fns.iter().position(|g| std::ptr::fn_addr_eq(*g, *f)).unwrap();
                            format!("one:{}:{}", menu[which].1, ctx.matches.iter().map(|(n, v)| format!("{}={}", n.clone().unwrap_or("-".into()), v.replace(' ', "_"))).collect::<Vec<_>>().join(";"))
                        }
                    };
                    println!("CASE defs={} kw={kw} text={text} result={result}", menu.iter().map(|(k, r)| format!("{k}:{r}")).collect::<Vec<_>>().join("~~"));
                    n += 1;
                }
            }
        }
    }
    // the same regex text registered at two different places (e.g. a copy-pasted step definition): both are candidates
    let locs = [Some(Location { path: "a.rs", line: 10, column: 1 }), Some(Location { path: "b.rs", line: 42, column: 1 }), None];
    let menu: [(&str, &str); 3] = [("given", r"^dup$"), ("given", r"^dup$"), ("when", r"^dup$")];
    for order in orders {
        let mut c = Collection::<W>::new();
        for &i in &order {
            let (kw, rx) = menu[i];
            let re = regex::Regex::new(rx).unwrap();
            c = match kw {
                "given" => c.given(locs[i], re, fns[i]),
                "when" => c.when(locs[i], re, fns[i]),
                _ => c.then(locs[i], re, fns[i]),
            };
        }
        for text in ["dup", "other"] {
            for kw in kws {
                let ty = match kw { "given" => "Given", "when" => "When", _ => "Then" };
                let feat = super::parse_feature(&format!("Feature: f\n  Scenario: s\n    {ty} {text}\n"));
                let step = &feat.scenarios[0].steps[0];
                let found = std::panic::catch_unwind(std::panic::AssertUnwindSafe(|| c.find(step)));
                    let Ok(found) = found else {
                        println!("CASE defs={} kw={kw} text={text} result=panicked", menu.iter().map(|(k, r)| format!("{k}:{r}")).collect::<Vec<_>>().join("~~"));
                        n += 1;
                        continue;
                    };
                    let result = match found {
                    Ok(None) => "none".to_owned(),
                    Err(e) => format!("ambiguous:{}", e.possible_matches.iter().map(|(r, _)| r.as_str().to_owned()).collect::<Vec<_>>().join(",")),
                    Ok(Some((f, _caps, _loc, ctx))) => {
                        let which = fns.iter().position(|g| std::ptr::fn_addr_eq(*g, *f)).unwrap();
                        format!("one:{}:{}", menu[which].1, ctx.matches.iter().map(|(n, v)| format!("{}={}", n.clone().unwrap_or("-".into()), v)).collect::<Vec<_>>().join(";"))
                    }
                };
                println!("CASE defs={} kw={kw} text={text} result={result}", menu.iter().map(|(k, r)| format!("{k}:{r}")).collect::<Vec<_>>().join("~~"));
                n += 1;
            }
        }
    }
    // hand-registered look-alike definitions (no Location) that both match: on fresh collections (fresh hash seeds) the
    // candidates must always be listed in the same order
    let pairs: [(&str, &str); 6] = [
        (r"^foo (\d+)$", r"foo (\d+)"),
        (r"^foo (\d+)", r"foo (\d+)$"),
        (r"foo (\d+)", r"foo (\d+) ?"),
        (r"foo (\d+)", r"(?i)FOO (\d+)"),
        (r"foo (\d+)", r"foo  ?(\d+)"),
        (r"^foo 1$", r"^foo 1"),
    ];
    let feat = super::parse_feature("Feature: f\n  Scenario: s\n    Given foo 1\n");
    let step = &feat.scenarios[0].steps[0];
    for (k, (a, b)) in pairs.iter().enumerate() {
        let mut seen: Vec<String> = vec![];
        for round in 0..64 {
            let (x, y) = if round % 2 == 0 { (a, b) } else { (b, a) };
            let c = Collection::<W>::new()
                .given(None, regex::Regex::new(x).unwrap(), f0)
                .given(None, regex::Regex::new(y).unwrap(), f1);
            let listing = match c.find(step) {
                Err(e) => e.possible_matches.iter().map(|(r, _)| r.as_str().to_owned()).collect::<Vec<_>>().join(" , "),
                _ => "not-ambiguous".to_owned(),
            };
            if !seen.contains(&listing) {
                seen.push(listing);
            }
        }
        println!("TIE pair={k} distinct={} listings={}", seen.len(), seen.join(" | ").replace(' ', "_"));
    }
    // the same (keyword, regex, location) registered twice (adjacent or not, with and without a Location)
    let loc = cucumber::step::Location { path: "here.rs", line: 7, column: 3 };
    for (label, l) in [("no-location", None), ("same-location", Some(loc))] {
        for adjacent in [true, false] {
            let re = || regex::Regex::new(r"^foo (\d+)$").unwrap();
            let other = regex::Regex::new(r"^bar$").unwrap();
            let c = if adjacent {
                Collection::<W>::new().given(l, re(), f0).given(l, re(), f2).given(None, other, f1)
            } else {
                Collection::<W>::new().given(l, re(), f0).given(None, other, f1).given(l, re(), f2)
            };
            let result = match c.find(step) {
                Ok(None) => "none".to_owned(),
                Err(e) => format!("ambiguous:{}", e.possible_matches.len()),
                Ok(Some((_, _, _, ctx))) => format!("one:{}", ctx.matches.len()),
            };
            println!("DUPCASE {label}-{} result={result}", if adjacent { "adjacent" } else { "apart" });
        }
    }
    // definitions registered with regexes BUILT with non-default options (RegexBuilder): what is registered is what matches
    {
        let ci = regex::RegexBuilder::new(r"^foo (\d+)$").case_insensitive(true).build().unwrap();
        let lazy = regex::RegexBuilder::new(r"^bar (\d+)(\d*)$").swap_greed(true).build().unwrap();
        let c = Collection::<W>::new().given(None, ci, f0).given(None, lazy, f1);
        for (label, text, want) in [("case-insensitive", "FOO 7", "one:-=FOO 7;-=7"), ("swap-greed", "bar 123", "one:-=bar 123;-=1;-=23")] {
            let feat = super::parse_feature(&format!("Feature: f\n  Scenario: s\n    Given {text}\n"));
            let result = match c.find(&feat.scenarios[0].steps[0]) {
                Ok(None) => "none".to_owned(),
                Err(e) => format!("ambiguous:{}", e.possible_matches.len()),
                Ok(Some((_, _, _, ctx))) => format!("one:{}", ctx.matches.iter().map(|(n, v)| format!("{}={}", n.clone().unwrap_or("-".into()), v)).collect::<Vec<_>>().join(";")),
            };
            println!("BUILDERCASE {label} ok={} result={}", result == want, result.replace(' ', "_"));
        }
    }
    println!("RESULT cases={n}");
}
