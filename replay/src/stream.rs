//! mode stream: feed a scripted multi-feature event stream to a real writer pipeline
//! (`wrapper normalize`) over the recording inner writer; after every item print how many events
//! the inner writer has received (`AFTER <i> <n>`), at the end every received event (`LOG ..`).
//!
//!   item run_started | run_finished
//!   item feature_started|feature_finished <feature>
//!   item rule_started|rule_finished <feature> r
//!   item scenario <feature> r|- <scenario> started|finished r=<cur>/<left>|r=-
use std::collections::BTreeMap;

use cucumber::{
    cli,
    event::{self, Cucumber as Ev, Event, Source},
    parser, writer, Writer,
};
use futures::executor::block_on;

use super::{classify, parse_feature, retries, Rec, W};

pub fn run(lines: &[Vec<String>]) {
    // which scenarios live where
    let mut top: BTreeMap<String, Vec<String>> = BTreeMap::new();
    let mut in_rule: BTreeMap<String, Vec<String>> = BTreeMap::new();
    let mut feats: Vec<String> = vec![];
    for l in lines.iter().filter(|l| l[0] == "item") {
        if l.len() > 2 && !feats.contains(&l[2]) {
            feats.push(l[2].clone());
        }
        if l[1] == "scenario" {
            let m = if l[3] == "r" { &mut in_rule } else { &mut top };
            let v = m.entry(l[2].clone()).or_default();
            if !v.contains(&l[4]) {
                v.push(l[4].clone());
            }
        }
        if l[1].starts_with("rule_") {
            in_rule.entry(l[2].clone()).or_default();
        }
    }
    let mut fsrc = BTreeMap::new();
    let mut rsrc = BTreeMap::new();
    let mut ssrc = BTreeMap::new();
    // `same_content`: every feature is parsed from ONE text (the union of all scenarios): distinct features (distinct
    // `Source`s) whose gherkin values are equal - what a parser yields for the same file given twice
    let same = lines.iter().any(|l| l[0] == "same_content");
    if same {
        let all_top: Vec<String> = top.values().flatten().cloned().collect::<std::collections::BTreeSet<_>>().into_iter().collect();
        let all_rule: Vec<String> = in_rule.values().flatten().cloned().collect::<std::collections::BTreeSet<_>>().into_iter().collect();
        let has_rule = !in_rule.is_empty();
        for f in &feats {
            top.insert(f.clone(), all_top.clone());
            if has_rule {
                in_rule.insert(f.clone(), all_rule.clone());
            }
        }
    }
    for f in &feats {
        let mut text = format!("Feature: {}\n", if same { "same" } else { f.as_str() });
        for s in top.get(f).cloned().unwrap_or_default() {
            text.push_str(&format!("  Scenario: {s}\n    Given x\n"));
        }
        if let Some(v) = in_rule.get(f) {
            text.push_str("  Rule: r\n");
            for s in v {
                text.push_str(&format!("    Scenario: {s}\n      Given x\n"));
            }
        }
        let feat = parse_feature(&text);
        for s in &feat.scenarios {
            ssrc.insert((f.clone(), s.name.clone()), Source::new(s.clone()));
        }
        for r in &feat.rules {
            rsrc.insert(f.clone(), Source::new(r.clone()));
            for s in &r.scenarios {
                ssrc.insert((f.clone(), s.name.clone()), Source::new(s.clone()));
            }
        }
        fsrc.insert(f.clone(), Source::new(feat));
    }
    let rec = Rec::default();
    let evrec = EvRec::default();
    let wrapper = lines.iter().find(|l| l[0] == "wrapper").map_or("normalize".to_owned(), |l| l[1].clone());
    assert_eq!(wrapper, "normalize", "mode stream knows `wrapper normalize` only");
    let mut wr = writer::Normalize::new(Both(rec.clone(), evrec.clone()));
    let mut feed = |wr: &mut writer::Normalize<W, Both>, item: parser::Result<Event<Ev<W>>>, i: usize| {
        // a panic inside the writer under test is reported, not fatal for the driver
        let r = std::panic::catch_unwind(std::panic::AssertUnwindSafe(|| block_on(Writer::<W>::handle_event(wr, item, &cli::Empty))));
        if r.is_err() {
            println!("PANIC {i}");
        }
    };
    for (i, l) in lines.iter().filter(|l| l[0] == "item").enumerate() {
        if l[1] == "parse_error" {
            let item: parser::Result<Event<Ev<W>>> =
                Err(parser::Error::Parsing(std::sync::Arc::new(gherkin::ParseFileError::Reading {
                    path: "x".into(),
                    source: std::io::Error::other("x"),
                })));
            feed(&mut wr, item, i);
            println!("AFTER {i} {}", rec.log.lock().unwrap().len());
            continue;
        }
        let ev: Ev<W> = match l[1].as_str() {
            "parsing_finished" => Ev::ParsingFinished { features: 2, rules: 0, scenarios: 1, steps: 0, parser_errors: 1 },
            "run_started" => Ev::Started,
            "run_finished" => Ev::Finished,
            "feature_started" => Ev::feature_started(fsrc[&l[2]].clone()),
            "feature_finished" => Ev::feature_finished(fsrc[&l[2]].clone()),
            "rule_started" => Ev::rule_started(fsrc[&l[2]].clone(), rsrc[&l[2]].clone()),
            "rule_finished" => Ev::rule_finished(fsrc[&l[2]].clone(), rsrc[&l[2]].clone()),
            "scenario" => {
                let r = retries(&l[6]);
                let e: event::Scenario<W> = match l[5].as_str() {
                    "started" => event::Scenario::Started,
                    "finished" => event::Scenario::Finished,
                    "step" => {
                        let sc = &ssrc[&(l[2].clone(), l[4].clone())];
                        event::Scenario::Step(Source::new(sc.steps[0].clone()), event::Step::Started)
                    }
                    x => panic!("scenario event {x}"),
                };
                let rule = (l[3] == "r").then(|| rsrc[&l[2]].clone());
                Ev::scenario(fsrc[&l[2]].clone(), rule, ssrc[&(l[2].clone(), l[4].clone())].clone(), e.with_retries(r))
            }
            x => panic!("item {x}"),
        };
        let item: parser::Result<Event<Ev<W>>> = Ok(Event::new(ev));
        feed(&mut wr, item, i);
        println!("AFTER {i} {}", rec.log.lock().unwrap().len());
    }
    // features are named as the SCRIPT names them, found by pointer identity (their gherkin names may all be the same)
    let name_of = |f: &Source<gherkin::Feature>| -> String {
        fsrc.iter().find(|(_, v)| std::ptr::eq::<gherkin::Feature>(&***v, &**f)).map_or("?".to_owned(), |(k, _)| k.clone())
    };
    for (s, e) in rec.log.lock().unwrap().iter().zip(evrec.0.lock().unwrap().iter()) {
        let line = match e {
            Some(f) if s.starts_with("feature[") => {
                let rest = &s[s.find(']').unwrap()..];
                format!("feature[{}{rest}", name_of(f))
            }
            _ => s.clone(),
        };
        println!("LOG {line}");
    }
    println!("RESULT delivered={}", rec.log.lock().unwrap().len());
}


/// keeps the feature `Source` of every event it receives (`None` for run-level items and parser errors)
#[derive(Clone, Default)]
struct EvRec(std::sync::Arc<std::sync::Mutex<Vec<Option<Source<gherkin::Feature>>>>>);

/// the recording writer plus the identity recorder
#[derive(Clone)]
pub struct Both(Rec, EvRec);

impl Writer<W> for Both {
    type Cli = cli::Empty;

    async fn handle_event(&mut self, ev: parser::Result<Event<Ev<W>>>, c: &Self::Cli) {
        let f = match &ev {
            Ok(e) => match &**e {
                Ev::Feature(f, _) => Some(f.clone()),
                _ => None,
            },
            Err(_) => None,
        };
        self.1 .0.lock().unwrap().push(f);
        <Rec as Writer<W>>::handle_event(&mut self.0, ev, c).await;
    }
}

impl writer::NonTransforming for Both {}
impl writer::Normalized for Both {}
