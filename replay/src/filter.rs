//! mode filter: the REAL `Cucumber::filter_run` with an in-memory parser and a recording runner, on a grid of
//! features x filters.  Prints `CASE <feature-variant> <filter> kept=<names>`; the reference is computed by the caller.
use std::{cell::RefCell, rc::Rc};

use cucumber::{cli, event, parser, Cucumber, Event, Parser, Runner};
use futures::{stream, Stream, StreamExt as _};

use super::{parse_feature, Rec, W};

struct MemParser(Vec<gherkin::Feature>);

impl Parser<()> for MemParser {
    type Cli = cli::Empty;
    type Output = stream::Iter<std::vec::IntoIter<parser::Result<gherkin::Feature>>>;
    fn parse(self, _: (), _: cli::Empty) -> Self::Output {
        stream::iter(self.0.into_iter().map(Ok).collect::<Vec<_>>())
    }
}

#[derive(Clone, Default)]
struct RecRunner(Rc<RefCell<Vec<String>>>);

impl Runner<W> for RecRunner {
    type Cli = cli::Empty;
    type EventStream = stream::LocalBoxStream<'static, parser::Result<Event<event::Cucumber<W>>>>;
    fn run<S>(self, features: S, _: cli::Empty) -> Self::EventStream
    where
        S: Stream<Item = parser::Result<gherkin::Feature>> + 'static,
    {
        let log = self.0;
        features
            .filter_map(move |f| {
                if let Ok(f) = f {
                    for s in &f.scenarios {
                        log.borrow_mut().push(s.name.clone());
                    }
                    for r in &f.rules {
                        for s in &r.scenarios {
                            log.borrow_mut().push(s.name.clone());
                        }
                    }
                    log.borrow_mut().push(format!("#rules={}#bg={}#tags={}", f.rules.len(), f.background.is_some(), f.tags.join("+")));
                }
                async { None }
            })
            .boxed_local()
    }
}

pub fn run() {
    let ftags = ["", "@smoke"];
    let rtags = ["", "@smoke", "@x"];
    let filters: [(&str, Option<&str>, Option<&str>); 14] = [
        ("closure", None, None),
        ("name", Some("wip"), None),
        ("tags1", None, Some("@smoke")),
        ("tags2", None, Some("not @wip")),
        ("tags3", None, Some("@smoke and not @wip")),
        ("tags4", None, Some("@wip or @slow")),
        ("tags5", None, Some("not (@smoke or @wip)")),
        ("tags6", None, Some("not @slow")),
        ("tags7", None, Some("@x and not @slow")),
        ("tags8", None, Some("not (not @smoke)")),
        ("tags9", None, Some("not (@smoke and not @wip)")),
        ("tags10", None, Some("not (@wip or not @slow)")),
        ("tags11", None, Some("not ((not (@smoke or @wip)) and (not @slow))")),
        ("name+tags", Some("plain"), Some("@wip")),
    ];
    let mut n = 0;
    for ft in ftags {
        for rt in rtags {
            let text = format!(
                "{ft}\nFeature: f\n  Background:\n    Given bg\n  Scenario: t_plain\n    Given x\n  @wip\n  Scenario: t_wip\n    Given x\n  {rt}\n  Rule: r\n    Scenario: r_plain\n      Given x\n    @wip\n    Scenario: r_wip\n      Given x\n    @slow\n    Scenario: r_slow\n      Given x\n    @smoke\n    Scenario: r_smoke\n      Given x\n  Rule: r2\n    @wip\n    Scenario: q_wip\n      Given x\n    Scenario: q_plain\n      Given x\n"
            );
            let feat = parse_feature(&text);
            for (fname, re, tags) in filters {
                let runner = RecRunner::default();
                let opts = cli::Opts::<cli::Empty, cli::Empty, cli::Empty, cli::Empty> {
                    re_filter: re.map(|r| regex::Regex::new(r).unwrap()),
                    tags_filter: tags.map(|t| t.parse().unwrap()),
                    parser: cli::Empty,
                    runner: cli::Empty,
                    writer: cli::Empty,
                    custom: cli::Empty,
                };
                let c = Cucumber::<W, _, (), _, _, cli::Empty>::custom(MemParser(vec![feat.clone()]), runner.clone(), Rec::default())
                    .with_cli(opts);
                let _w = futures::executor::block_on(c.filter_run((), |_, _, s| s.name.ends_with("plain")));
                let kept = runner.0.borrow().join(",");
                println!("CASE ft={} rt={} filter={} kept={}", if ft.is_empty() { "-" } else { ft }, if rt.is_empty() { "-" } else { rt }, fname, kept);
                n += 1;
            }
        }
    }
    println!("RESULT cases={n}");
}
