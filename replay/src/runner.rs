//! mode runner: drive the REAL `runner::Basic` with scripted features, step / hook behaviours, a parser stream
//! that may be lazy, builder and CLI settings; print the event stream and a log of user-code entry/exit.
//!
//!   feature [late=<n>]            start a feature; it is delivered after n extra Pending polls of the parser stream
//!   | <gherkin text line>          (verbatim lines of the feature, prefixed with "| ")
//!   parse_error [late=<n>]        deliver a parser error item
//!   parser_end late=<n>           the parser stream ends only after n more Pending polls
//!   step <key> yields=<n> [busy_ms=<m>] fail_first=<k> | always_fail | pass      behaviour for steps whose text is "<key>"
//!                                 (busy_ms: after the yields keep yielding until m milliseconds of real time have passed)
//!   nomatch <key>                 steps with this text have no definition
//!   hook before|after <scenario|*> yields=<n> fail_first=<k> | always_fail | pass
//!   hooks none|before|after|both
//!   builder max_concurrent=<n|none> retries=<n> retry_after_ms=<n> retry_filter=<expr_with_underscores> fail_fast=1
//!   cli concurrency=<n> retry=<n> retry_after_ms=<n> retry_filter=<expr> fail_fast=1
//!   watchdog_ms <n>
use std::{
    cell::RefCell,
    collections::HashMap,
    future::Future,
    pin::Pin,
    sync::{
        atomic::{AtomicUsize, Ordering},
        mpsc, Arc, Mutex,
    },
    task::{Context as Cx, Poll},
    thread,
    time::{Duration, Instant},
};

use cucumber::{
    event::{self, Cucumber as Ev},
    parser,
    runner::{self, basic::Cli},
    step::Context,
    Event, Runner as _, World,
};
use futures::{future::LocalBoxFuture, stream, FutureExt as _, Stream, StreamExt as _};

use super::{classify, parse_feature};

static WORLDS: AtomicUsize = AtomicUsize::new(0);
static INFLIGHT: AtomicUsize = AtomicUsize::new(0);
static PEAK: AtomicUsize = AtomicUsize::new(0);

thread_local! {
    static BEH: RefCell<HashMap<String, Beh>> = RefCell::new(HashMap::new());
    static CALLS: RefCell<HashMap<String, usize>> = RefCell::new(HashMap::new());
    static LOG: RefCell<Vec<String>> = RefCell::new(Vec::new());
    static T0: RefCell<Option<Instant>> = RefCell::new(None);
}

#[derive(Clone, Debug, Default)]
struct Beh {
    yields: usize,
    busy_ms: u64,
    fail_first: usize,
    always_fail: bool,
    eager: bool,
    custom_payload: bool,
}

/// a panic payload that is neither `String` nor `&'static str`
#[derive(Debug)]
pub struct CustomPayload(pub u32);

#[derive(Debug)]
pub struct Wd {
    id: usize,
    counter: usize,
}

static HOOK_CALLS: AtomicUsize = AtomicUsize::new(0);
static WORLD_NEW_MODE: AtomicUsize = AtomicUsize::new(0); // 0 ok, 1 err, 2 panic while polled, 3 panic when called

impl World for Wd {
    type Error = String;
    // hand-written (not `async fn`): the part before the returned future runs when `new()` is CALLED
    fn new() -> impl Future<Output = Result<Self, Self::Error>> {
        let mode = WORLD_NEW_MODE.load(Ordering::SeqCst);
        log(format!("world_new_called mode={mode}"));
        if mode == 3 {
            panic!("scripted eager failure of World::new");
        }
        async move {
            if mode == 2 {
                panic!("scripted failure of World::new");
            }
            if mode == 1 {
                return Err("scripted error of World::new".to_owned());
            }
            let id = WORLDS.fetch_add(1, Ordering::SeqCst);
            log(format!("world_new w{id}"));
            Ok(Self { id, counter: 0 })
        }
    }
}

fn log(s: String) {
    let ms = T0.with(|t| t.borrow().map_or(0, |t| t.elapsed().as_millis()));
    LOG.with(|l| l.borrow_mut().push(format!("{s} t={ms}")));
}

struct YieldN(usize);
impl Future for YieldN {
    type Output = ();
    fn poll(mut self: Pin<&mut Self>, cx: &mut Cx<'_>) -> Poll<()> {
        if self.0 == 0 {
            Poll::Ready(())
        } else {
            self.0 -= 1;
            cx.waker().wake_by_ref();
            Poll::Pending
        }
    }
}

fn behave(kind: &str, key: String, w: usize, wc: usize) -> impl Future<Output = ()> {
    let b = BEH.with(|b| b.borrow().get(&key).cloned()).unwrap_or_default();
    let n = CALLS.with(|c| {
        let mut c = c.borrow_mut();
        let e = c.entry(key.clone()).or_insert(0);
        *e += 1;
        *e
    });
    let kind = kind.to_owned();
    if b.eager && (b.always_fail || n <= b.fail_first) {
        // the failure happens when the function is CALLED, before it returns its future
        log(format!("enter {kind} [{key}] call={n} world=w{w} counter={wc} eager_panic"));
        panic!("scripted eager failure of {key}");
    }
    async move {
        let infl = INFLIGHT.fetch_add(1, Ordering::SeqCst) + 1;
        PEAK.fetch_max(infl, Ordering::SeqCst);
        log(format!("enter {kind} [{key}] call={n} world=w{w} counter={wc} inflight={infl}"));
        YieldN(b.yields).await;
        if b.busy_ms > 0 {
            // stay in flight for real time: keep yielding (self-waking) until the deadline
            let until = Instant::now() + std::time::Duration::from_millis(b.busy_ms);
            while Instant::now() < until {
                YieldN(1).await;
            }
        }
        INFLIGHT.fetch_sub(1, Ordering::SeqCst);
        if b.always_fail || n <= b.fail_first {
            log(format!("exit {kind} [{key}] call={n} panic"));
            if b.custom_payload {
                std::panic::panic_any(CustomPayload(42));
            }
            panic!("scripted failure of {key}");
        }
        log(format!("exit {kind} [{key}] call={n} ok"));
    }
}

/// outlines are expanded the way `parser::Basic` does it (the real `expand_examples`)
fn expanded(f: gherkin::Feature) -> gherkin::Feature {
    use cucumber::feature::Ext as _;
    let mut f = f.expand_examples().expect("outline expands");
    if PREPEND_EMPTY_RULE.load(Ordering::SeqCst) && !f.rules.is_empty() {
        // what `Cucumber::filter_run` leaves behind when a filter rejects every scenario of the first rule: the rule stays
        let mut empty = f.rules[0].clone();
        empty.name = "emptied".to_owned();
        empty.scenarios.clear();
        empty.tags.clear();
        f.rules.insert(0, empty);
    }
    f
}

static PREPEND_EMPTY_RULE: std::sync::atomic::AtomicBool = std::sync::atomic::AtomicBool::new(false);

fn step_fn(w: &mut Wd, ctx: Context) -> LocalBoxFuture<'_, ()> {
    let key = ctx.step.value.clone();
    let (id, c) = (w.id, w.counter);
    w.counter += 1;
    behave("step", key, id, c).boxed_local()
}

fn before_fn<'a>(
    _: &'a gherkin::Feature,
    _: Option<&'a gherkin::Rule>,
    sc: &'a gherkin::Scenario,
    w: &'a mut Wd,
) -> LocalBoxFuture<'a, ()> {
    let key = hook_key("before", &sc.name);
    behave("before_hook", key, w.id, w.counter).boxed_local()
}

fn after_fn<'a>(
    _: &'a gherkin::Feature,
    _: Option<&'a gherkin::Rule>,
    sc: &'a gherkin::Scenario,
    fin: &'a event::ScenarioFinished,
    w: Option<&'a mut Wd>,
) -> LocalBoxFuture<'a, ()> {
    let key = hook_key("after", &sc.name);
    let (id, c) = w.map_or((usize::MAX, 0), |w| (w.id, w.counter));
    let reason = match fin {
        event::ScenarioFinished::BeforeHookFailed(..) => "BeforeHookFailed",
        event::ScenarioFinished::StepPassed => "StepPassed",
        event::ScenarioFinished::StepSkipped => "StepSkipped",
        event::ScenarioFinished::StepFailed(..) => "StepFailed",
    };
    log(format!("after_hook_reason [{}] {reason}", sc.name));
    behave("after_hook", key, id, c).boxed_local()
}

fn hook_key(kind: &str, scenario: &str) -> String {
    let specific = format!("{kind}:{scenario}");
    if BEH.with(|b| b.borrow().contains_key(&specific)) { specific } else { format!("{kind}:*") }
}

/// Parser stream: each item becomes ready after `late` extra polls (self-waking).
struct Lazy {
    items: Vec<(usize, Option<parser::Result<gherkin::Feature>>)>,
    idx: usize,
    polls: usize,
}

impl Stream for Lazy {
    type Item = parser::Result<gherkin::Feature>;
    fn poll_next(mut self: Pin<&mut Self>, cx: &mut Cx<'_>) -> Poll<Option<Self::Item>> {
        self.polls += 1;
        let i = self.idx;
        if i >= self.items.len() {
            return Poll::Ready(None);
        }
        if self.items[i].0 > 0 {
            self.items[i].0 -= 1;
            cx.waker().wake_by_ref();
            return Poll::Pending;
        }
        self.idx += 1;
        let it = self.items[i].1.take();
        log(format!("parser_delivers item{i}"));
        Poll::Ready(it)
    }
}

fn kv(l: &[String], k: &str) -> Option<String> {
    l.iter().find_map(|t| t.strip_prefix(&format!("{k}=")).map(str::to_owned))
}

pub fn run(lines: Vec<Vec<String>>, raw: String) {
    PREPEND_EMPTY_RULE.store(lines.iter().any(|l| l[0] == "prepend_empty_rule"), Ordering::SeqCst);
    let wd_ms: u64 = lines.iter().find(|l| l[0] == "watchdog_ms").map_or(10_000, |l| l[1].parse().unwrap());
    let (tx, rx) = mpsc::channel::<Vec<String>>();
    thread::spawn(move || {
        let out = std::panic::catch_unwind(std::panic::AssertUnwindSafe(|| inner(lines, raw)));
        match out {
            Ok(out) => {
                let _ = tx.send(out);
            }
            Err(p) => {
                let msg = p.downcast_ref::<String>().cloned().or_else(|| p.downcast_ref::<&str>().map(|s| (*s).to_owned())).unwrap_or_default();
                let mut out: Vec<String> = vec![];
                LOG.with(|l| {
                    for x in l.borrow().iter() {
                        out.push(format!("LOG {x}"));
                    }
                });
                out.push(format!("RESULT timeout=false stream_ended=false escaped=true payload={}", msg.replace(' ', "_")));
                let _ = tx.send(out);
            }
        }
    });
    match rx.recv_timeout(Duration::from_millis(wd_ms)) {
        Ok(out) => {
            for l in out {
                println!("{l}");
            }
        }
        Err(_) => {
            println!("RESULT timeout=true stream_ended=false");
            std::process::exit(0);
        }
    }
}

fn inner(lines: Vec<Vec<String>>, raw: String) -> Vec<String> {
    // the process panic hook: silent, but it COUNTS what reaches it (scripted failures must not: the runner silences the hook)
    std::panic::set_hook(Box::new(|_| {
        HOOK_CALLS.fetch_add(1, Ordering::SeqCst);
    }));
    T0.with(|t| *t.borrow_mut() = Some(Instant::now()));
    // features (verbatim text blocks)
    let mut items: Vec<(usize, Option<parser::Result<gherkin::Feature>>)> = vec![];
    let mut cur: Option<(usize, String)> = None;
    for line in raw.lines() {
        let t = line.trim_start();
        if let Some(rest) = t.strip_prefix("| ") {
            if let Some(c) = cur.as_mut() {
                c.1.push_str(rest);
                c.1.push('\n');
            }
            continue;
        }
        if t == "|" {
            continue;
        }
        let toks: Vec<String> = t.split_whitespace().map(String::from).collect();
        if toks.is_empty() {
            continue;
        }
        if toks[0] == "feature" || toks[0] == "parse_error" {
            if let Some((late, text)) = cur.take() {
                items.push((late, Some(Ok(expanded(parse_feature(&text))))));
            }
            let late = kv(&toks, "late").map_or(0, |v| v.parse().unwrap());
            if toks[0] == "feature" {
                cur = Some((late, String::new()));
            } else {
                items.push((late, Some(Err(parser::Error::Parsing(Arc::new(gherkin::ParseFileError::Reading {
                    path: "x".into(),
                    source: std::io::Error::other("x"),
                }))))));
            }
        }
    }
    if let Some((late, text)) = cur.take() {
        items.push((late, Some(Ok(expanded(parse_feature(&text))))));
    }
    // `parser_end late=<n>`: the stream reports its end only after n more Pending polls
    if let Some(l) = lines.iter().find(|l| l[0] == "parser_end") {
        items.push((kv(l, "late").map_or(0, |v| v.parse().unwrap()), None));
    }
    let mut nomatch: Vec<String> = vec![];
    let mut ambiguous: Vec<String> = vec![];
    for l in &lines {
        match l[0].as_str() {
            "step" | "hook" => {
                let key = if l[0] == "step" { l[1].replace('_', " ") } else { format!("{}:{}", l[1], l[2]) };
                let b = Beh {
                    yields: kv(l, "yields").map_or(0, |v| v.parse().unwrap()),
                    busy_ms: kv(l, "busy_ms").map_or(0, |v| v.parse().unwrap()),
                    fail_first: kv(l, "fail_first").map_or(0, |v| v.parse().unwrap()),
                    always_fail: l.iter().any(|t| t == "always_fail"),
                    eager: l.iter().any(|t| t == "eager"),
                    custom_payload: l.iter().any(|t| t == "payload=custom"),
                };
                BEH.with(|m| m.borrow_mut().insert(key, b));
            }
            "nomatch" => nomatch.push(l[1].replace('_', " ")),
            "ambiguous" => ambiguous.push(l[1].replace('_', " ")),
            "world_new" => WORLD_NEW_MODE.store(match l[1].as_str() { "err" => 1, "panic" => 2, "eager_panic" => 3, _ => 0 }, Ordering::SeqCst),
            _ => {}
        }
    }
    let mut r = runner::Basic::<Wd>::default();
    let mut cli = Cli::default();
    for l in &lines {
        if l[0] == "builder" {
            if let Some(v) = kv(l, "max_concurrent") {
                r = r.max_concurrent_scenarios(if v == "none" { None } else { Some(v.parse::<usize>().unwrap()) });
            }
            if let Some(v) = kv(l, "retries") {
                r = r.retries(v.parse::<usize>().unwrap());
            }
            if let Some(v) = kv(l, "retry_after_ms") {
                r = r.retry_after(Duration::from_millis(v.parse().unwrap()));
            }
            if let Some(v) = kv(l, "retry_filter") {
                r = r.retry_filter(v.replace('_', " ").parse::<gherkin::tagexpr::TagOperation>().unwrap());
            }
            if kv(l, "fail_fast").as_deref() == Some("1") {
                r = r.fail_fast();
            }
            if kv(l, "which").as_deref() == Some("exclusive") {
                // a custom classifier: `@exclusive` (not the literal `@serial`) on any level makes a scenario Serial
                let custom: runner::basic::WhichScenarioFn = |f, ru, s| {
                    if s.tags.iter().chain(ru.iter().flat_map(|r| &r.tags)).chain(&f.tags).any(|t| t == "exclusive") {
                        runner::ScenarioType::Serial
                    } else {
                        runner::ScenarioType::Concurrent
                    }
                };
                r = r.which_scenario(custom);
            }
            if kv(l, "retry_resolver").as_deref() == Some("resumed") {
                // a custom resolver (public API): scenarios named `*_a` / `*_c` enter the run as "resumed" attempts - their
                // retry options say current = 1 from the first execution on
                r = r.retry_options(|_, _, s, _| {
                    (s.name.ends_with("_a") || s.name.ends_with("_c")).then(|| runner::basic::RetryOptions {
                        retries: event::Retries { current: 1, left: 1 },
                        after: None,
                    })
                });
            }
            if kv(l, "which").as_deref() == Some("name_st") {
                // a custom classifier that goes by the scenario name only (no tag anywhere in the feature): `s` and `t` are Serial
                let custom: runner::basic::WhichScenarioFn = |_, _, s| {
                    if s.name == "s" || s.name == "t" { runner::ScenarioType::Serial } else { runner::ScenarioType::Concurrent }
                };
                r = r.which_scenario(custom);
            }
            if kv(l, "which").as_deref() == Some("name_serial") {
                // a custom classifier that looks at what a scenario IS (its expanded name), not at its tags
                let custom: runner::basic::WhichScenarioFn = |_, _, s| {
                    if s.name.contains("serial") { runner::ScenarioType::Serial } else { runner::ScenarioType::Concurrent }
                };
                r = r.which_scenario(custom);
            }
        }
        if l[0] == "cli" {
            cli.concurrency = kv(l, "concurrency").map(|v| v.parse().unwrap());
            cli.retry = kv(l, "retry").map(|v| v.parse().unwrap());
            cli.retry_after = kv(l, "retry_after_ms").map(|v| Duration::from_millis(v.parse().unwrap()));
            cli.retry_tag_filter = kv(l, "retry_filter").map(|v| v.replace('_', " ").parse().unwrap());
            cli.fail_fast = kv(l, "fail_fast").as_deref() == Some("1");
        }
    }
    // one catch-all definition per keyword, minus the "nomatch" texts
    let nm = nomatch.iter().map(|s| regex::escape(s)).collect::<Vec<_>>().join("|");
    let re = if nm.is_empty() { "^(.*)$".to_owned() } else { format!("^(?!x)(.*)$") };
    let _ = re;
    // the regex crate has no look-around: build an alternation of the defined texts instead
    let mut defined: Vec<String> = vec![];
    for it in &items {
        if let Some(Ok(f)) = &it.1 {
            let mut texts = vec![];
            let mut add = |steps: &Vec<gherkin::Step>| {
                for s in steps {
                    texts.push(s.value.clone());
                }
            };
            if let Some(b) = &f.background { add(&b.steps); }
            for s in &f.scenarios { add(&s.steps); }
            for ru in &f.rules {
                if let Some(b) = &ru.background { add(&b.steps); }
                for s in &ru.scenarios { add(&s.steps); }
            }
            for t in texts {
                if !nomatch.contains(&t) && !defined.contains(&t) {
                    defined.push(t);
                }
            }
        }
    }
    // `given_only <text>`: the text has a definition for Given steps only (When / Then steps with that text match nothing)
    let given_only: Vec<String> = lines.iter().filter(|l| l[0] == "given_only").map(|l| l[1].replace('_', " ")).collect();
    let mk = |texts: Vec<&String>| {
        let alt = texts.iter().map(|s| regex::escape(s)).collect::<Vec<_>>().join("|");
        regex::Regex::new(&format!("^({})$", if alt.is_empty() { "\u{1}never".to_owned() } else { alt })).unwrap()
    };
    let re = mk(defined.iter().collect());
    let re_rest = mk(defined.iter().filter(|t| !given_only.contains(t)).collect());
    let mut r = r.given(re, step_fn).when(re_rest.clone(), step_fn).then(re_rest, step_fn);
    for a in &ambiguous {
        // a second definition matching the same text makes the step ambiguous
        let re2 = regex::Regex::new(&format!("^{}()$", regex::escape(a))).unwrap();
        r = r.given(re2.clone(), step_fn).when(re2.clone(), step_fn).then(re2, step_fn);
    }
    let hooks = lines.iter().find(|l| l[0] == "hooks").map_or("none".to_owned(), |l| l[1].clone());
    // `runs <n>`: n runs one after the other in this process (process-wide state is carried over)
    let runs: usize = lines.iter().find(|l| l[0] == "runs").map_or(1, |l| l[1].parse().unwrap());
    let mut out: Vec<String> = vec![];
    macro_rules! drive {
        ($runner:expr) => {{
            let parser_stream = Lazy {
                items: items.iter().map(|(l, it)| (*l, match it {
                    None => None,
                    Some(Ok(f)) => Some(Ok(f.clone())),
                    Some(Err(e)) => Some(Err(e.clone())),
                })).collect(),
                idx: 0,
                polls: 0,
            };
            let before_calls = HOOK_CALLS.load(Ordering::SeqCst);
            let mut s = $runner.run(parser_stream, cli.clone());
            futures::executor::block_on(async {
                while let Some(ev) = s.next().await {
                    let line = match ev {
                        Err(_) => "err".to_owned(),
                        Ok(e) => classify(&e.into_inner()),
                    };
                    log(format!("EV {line}"));
                }
            });
            drop(s);
            let during = HOOK_CALLS.load(Ordering::SeqCst) - before_calls;
            // afterwards the hook that was installed before the run must be back: a probe panic reaches it
            let p0 = HOOK_CALLS.load(Ordering::SeqCst);
            let _ = std::panic::catch_unwind(|| panic!("probe"));
            let reached = HOOK_CALLS.load(Ordering::SeqCst) - p0;
            log(format!("HOOK during_run={during} probe_reached={reached}"));
        }};
    }
    for _run in 0..runs {
        match hooks.as_str() {
            "none" => drive!(r.clone()),
            "before" => drive!(r.clone().before(before_fn)),
            "after" => drive!(r.clone().after(after_fn)),
            _ => drive!(r.clone().before(before_fn).after(after_fn)),
        }
    }
    LOG.with(|l| {
        for x in l.borrow().iter() {
            out.push(format!("LOG {x}"));
        }
    });
    out.push(format!(
        "RESULT timeout=false stream_ended=true worlds={} peak_user_code={}",
        WORLDS.load(Ordering::SeqCst),
        PEAK.load(Ordering::SeqCst)
    ));
    out
}
