"""Stage M2 models: coroutines polled once, ready futures, the generic inner writer, FIFO logs."""
import re
import z3

from .values import UNIT, Cell, Lazy, Adt, Ref, FnItem, Obj, strip_ref, generic_args, bv, conc
from .interp import Inconclusive, PathEnd
from . import tables as T


STREAM_END = ('stream-end',)


def register(M):
    reg = M.reg

    def poll_ready(ty, v):
        return Adt(ty or 'Poll<?>', {(0, 0): v}, 0, None)

    def poll_pending(ty):
        return Adt(ty or 'Poll<?>', {}, 1, None)

    M.poll_ready, M.poll_pending = poll_ready, poll_pending

    def log(ex, kind, **kw):
        ex.env.setdefault('log', []).append(dict(kind=kind, **kw))

    M.log = log

    def poll_cell(ex, cell, cx, dty):
        """poll the future stored in `cell` (used by combinator models)"""
        pin = Adt('Pin<&mut ?>', {(None, 0): Ref(cell, ())})
        return M.table['Future::poll'](ex, {'self_ty': '', 'key': 'Future::poll', 'method': 'poll'}, [pin, cx], dty)
    M.poll_cell = poll_cell

    @reg('Future::poll', 'TryFuture::try_poll', 'FutureExt::poll_unpin')
    def future_poll(ex, info, a, dty):
        pin = ex.materialize(a[0])
        cell, path = ex.deref(pin)
        v = ex.read_path(cell, path)
        v = ex.materialize(v) if isinstance(v, Lazy) else v
        if isinstance(v, Adt) and v.ty.startswith('{coroutine@'):
            body = ex.prog.poll_body(v.ty, ex.coro_origin.get(v.ty))
            if body is None:
                raise Inconclusive('no poll body for %s' % v.ty)
            return ex.call_body(body, [pin, a[1]])
        if isinstance(v, Obj) and v.kind == 'future':
            return M.poll_future_obj(ex, cell, path, v, dty)
        if isinstance(v, Obj) and v.kind == 'pyfut':
            return v.poll(ex, cell, path, v, a[1], dty)
        if isinstance(v, Obj) and v.kind == 'join':
            outs = list(v.outs)
            for i, c in enumerate(v.cells):
                if outs[i] is None:
                    r = ex.materialize(poll_cell(ex, c, a[1], 'Poll<?>'))
                    if ex.branch(M.discr(ex, r) == bv(0)):
                        outs[i] = ex.field_of(r, 0, 0, '?')
            ex.write_path(cell, path, v.set(outs=tuple(outs)))
            if all(o is not None for o in outs):
                return poll_ready(dty, Adt('tuple', {(None, i): o for i, o in enumerate(outs)}))
            return poll_pending(dty)
        h = T.type_name_hint(info['self_ty'] or '')[0]
        f = M.table.get('poll<%s>' % h)
        if f is not None:
            return f(ex, info, [pin, a[1], cell, path, v], dty)
        raise Inconclusive('poll of %r (self type %s)' % (v, (info['self_ty'] or '')[:80]))

    def poll_future_obj(ex, cell, path, v, dty):
        if v.d.get('done'):
            raise PathEnd('panic', 'future polled after completion')
        left = v.d.get('pending', 0)
        if left > 0:
            ex.write_path(cell, path, v.set(pending=left - 1))
            log(ex, 'pending', what=v.d.get('what'))
            return poll_pending(dty)
        ex.write_path(cell, path, v.set(done=True))
        eff = v.d.get('on_ready')
        if eff is not None:
            eff(ex)
        return poll_ready(dty, v.d.get('value', UNIT))

    M.poll_future_obj = poll_future_obj

    def ready_future(what, value=UNIT, pending=0, on_ready=None):
        return Obj('future', what=what, value=value, pending=pending, on_ready=on_ready)

    M.ready_future = ready_future

    @reg('Writer::handle_event')
    def _(ex, info, a, dty):
        body = ex.prog.resolve(info)
        if body is not None:
            return ex.call_body(body, a)
        # generic inner writer: records the event, completes after `inner_pending` polls
        recv = ex.materialize(a[0])
        n = ex.env.get('inner_pending', 0)
        ev = a[1]
        name = M.recv_name(ex, recv)
        log(ex, 'inner_handle_event_called', writer=name, event=ev)
        return ready_future(('handle_event', name), pending=n,
                            on_ready=lambda ex_: log(ex_, 'inner_handle_event_done', writer=name, event=ev))

    @reg('Arbitrary::write')
    def _(ex, info, a, dty):
        body = ex.prog.resolve(info)
        if body is not None:
            return ex.call_body(body, a)
        recv = ex.materialize(a[0])
        name = M.recv_name(ex, recv)
        n = ex.env.get('inner_pending', 0)
        val = a[1]
        log(ex, 'inner_write_called', writer=name, value=val)
        return ready_future(('write', name), pending=n,
                            on_ready=lambda ex_: log(ex_, 'inner_write_done', writer=name, value=val))

    @reg('future::join', 'future::join3')
    def _(ex, info, a, dty):
        return Obj('join', cells=tuple(Cell(f) for f in a), outs=tuple(None for _ in a))

    def recv_name(ex, r):
        if isinstance(r, Ref):
            fl = [str(st[2]) for st in r.path if st[0] == 'f']
            return '%s%s' % (r.cell.name or ('cell%d' % r.cell.id), ''.join('.' + x for x in fl))
        return repr(r)

    M.recv_name = recv_name

    @reg('Result::as_deref')
    def _(ex, info, a, dty):
        cell, path = ex.deref(a[0])
        o = ex.materialize(ex.read_path(cell, path))
        g = generic_args(o.ty if isinstance(o, Adt) else '')
        d = M.discr(ex, o)
        if ex.branch(d == bv(0)):
            okty = g[0] if g else '?'
            r = Ref(cell, path + (('f', 0, 0, okty),))
            inner = ex.call_named('<%s as Deref>::deref' % okty, [r], None)
            return Adt(dty, {(0, 0): inner}, 0, None)
        return Adt(dty, {(1, 0): Ref(cell, path + (('f', 1, 0, g[1] if len(g) > 1 else '?'),))}, 1, None)

    @reg('Result::as_deref_mut')
    def _(ex, info, a, dty):
        cell, path = ex.deref(a[0])
        o = ex.materialize(ex.read_path(cell, path))
        g = generic_args(o.ty if isinstance(o, Adt) else '')
        d = M.discr(ex, o)
        if ex.branch(d == bv(0)):
            okty = g[0] if g else '?'
            r = Ref(cell, path + (('f', 0, 0, okty),))
            inner = ex.call_named('<%s as DerefMut>::deref_mut' % okty, [r], None)
            return Adt(dty, {(0, 0): inner}, 0, None)
        return Adt(dty, {(1, 0): Ref(cell, path + (('f', 1, 0, g[1] if len(g) > 1 else '?'),))}, 1, None)

    @reg('Option::as_deref')
    def _(ex, info, a, dty):
        cell, path = ex.deref(a[0])
        o = ex.materialize(ex.read_path(cell, path))
        g = generic_args(o.ty if isinstance(o, Adt) else '')
        if not M.is_some(ex, o):
            return M.none(dty)
        pty = g[0] if g else '?'
        r = Ref(cell, path + (('f', 1, 0, pty),))
        inner = ex.call_named('<%s as Deref>::deref' % pty, [r], None)
        return M.some(dty, inner)

    # ---------------------------------------------------------------- Fn traits
    @reg('Fn::call', 'FnMut::call_mut', 'FnOnce::call_once')
    def _(ex, info, a, dty):
        f = a[0]
        tup = ex.materialize(a[1]) if len(a) > 1 else UNIT
        args = []
        if isinstance(tup, Adt):
            n = 0
            while (None, n) in tup.fields:
                args.append(tup.fields[(None, n)])
                n += 1
        return M.call_fn_value(ex, f, args, dty, info)

    def call_fn_value(ex, f, args, dty, info):
        fv = ex.materialize(f)
        target = fv
        if isinstance(fv, Ref):
            target = ex.materialize(ex.read_path(fv.cell, fv.path))
            while isinstance(target, Ref):
                fv = target
                target = ex.materialize(ex.read_path(fv.cell, fv.path))
        if isinstance(target, Adt) and (target.ty.startswith('{closure@') or target.ty.startswith('{async closure@')):
            return ex.call_value(fv if isinstance(fv, Ref) else target, args)
        if isinstance(target, FnItem):
            return ex.call_named(target.text, args, dty)
        hook = M.opaque_fn_hook
        if hook is not None:
            return hook(ex, target, args, dty, info)
        raise Inconclusive('call of opaque function value %r' % (target,))

    M.call_fn_value = call_fn_value
    M.opaque_fn_hook = None
    register_streams(M)
    M.call_opaque_fn = lambda ex, f, args: call_fn_value(ex, f, list(args), None, None)


def register_streams(M):
    """Parser stream (items become ready after k polls), StreamExt::next, unbounded channel sender as a FIFO log."""
    reg = M.reg
    import z3 as _z3

    M.STREAM_END = STREAM_END

    def pstream(items):
        """items: list of (pending_polls, value)"""
        return Obj('pstream', items=tuple(items), polls=0)
    M.pstream = pstream

    @reg('StreamExt::next')
    def _(ex, info, a, dty):
        return Obj('next', stream=a[0])

    def poll_stream(ex, sref, dty):
        cell, path = ex.deref(sref)
        s = ex.read_path(cell, path)
        if isinstance(s, Adt) and (None, 0) in s.fields:      # Pin<&mut S>
            cell, path = ex.deref(s)
            s = ex.read_path(cell, path)
        if not (isinstance(s, Obj) and s.kind == 'pstream'):
            raise Inconclusive('poll_next on %r' % (s,))
        M.log(ex, 'stream_polled')
        if not s.items:
            return M.poll_ready(dty, M.none('Option<?>'))
        k, v = s.items[0]
        if k > 0:
            ex.write_path(cell, path, s.set(items=((k - 1, v),) + s.items[1:]))
            return M.poll_pending(dty)
        if v is STREAM_END:
            # an explicitly late end of the stream
            ex.write_path(cell, path, s.set(items=()))
            return M.poll_ready(dty, M.none('Option<?>'))
        ex.write_path(cell, path, s.set(items=s.items[1:]))
        return M.poll_ready(dty, M.some('Option<?>', v))
    M.poll_stream = poll_stream

    orig = M.table['Future::poll']

    def future_poll2(ex, info, a, dty):
        pin = ex.materialize(a[0])
        cell, path = ex.deref(pin)
        v = ex.read_path(cell, path)
        if isinstance(v, Obj) and v.kind == 'next':
            return M.poll_stream(ex, v.stream, dty)
        return orig(ex, info, a, dty)
    for k in ('Future::poll', 'TryFuture::try_poll', 'FutureExt::poll_unpin'):
        M.table[k] = future_poll2

    @reg('Stream::poll_next', 'StreamExt::poll_next_unpin')
    def _(ex, info, a, dty):
        return M.poll_stream(ex, a[0], dty)

    @reg('UnboundedSender::unbounded_send')
    def _(ex, info, a, dty):
        name = M.recv_name(ex, ex.materialize(a[0]))
        closed = ex.env.get('receiver_closed', False)
        M.log(ex, 'sent', channel=name, value=a[1], delivered=not closed)
        if closed:
            return Adt(dty or 'Result<(), TrySendError>', {(1, 0): Lazy('TrySendError', 'send_err')}, 1)
        return Adt(dty or 'Result<(), TrySendError>', {(0, 0): UNIT}, 0)

    @reg('UnboundedSender::clone')
    def _(ex, info, a, dty):
        return M.load(ex, a[0])
