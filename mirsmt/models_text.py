"""Template strings and the one regex of outline expansion (C16).

A *template string* is `Obj('tstr', parts=(...))` whose parts are
  ('lit', id)          a literal stretch that contains no placeholder
  ('ph', name_value)   a placeholder `<name>` (name_value: a `str` / `symstr` value)
  ('val', value)       text that was substituted in (never rescanned: `replace_all` is a single pass)
`Regex::replace_all(TEMPLATE_REGEX, s, closure)` is modelled on that representation: the closure is called once per
placeholder, left to right, with a `Captures` whose group 1 is the name; the result is the same sequence with each
placeholder replaced by what the closure returned.  This is the definition of `<([^>\\s]+)>` matching given that literal
stretches contain no match; the regex engine itself is trusted.
"""
import z3

from .values import UNIT, Cell, Lazy, Adt, Ref, FnItem, Obj, strip_ref, generic_args, bv, conc
from .interp import Inconclusive, PathEnd
from . import tables as T


def register(M):
    reg = M.reg

    def str_of(ex, v):
        v = ex.materialize(v)
        while isinstance(v, Ref):
            v = ex.materialize(ex.read_path(v.cell, v.path))
        return v
    M.str_of = str_of

    @reg('Regex::new')
    def _(ex, info, a, dty):
        s = str_of(ex, a[0])
        pat = None
        if isinstance(s, Obj) and s.kind == 'str':
            pat = s.text
            if pat.startswith('"') and pat.endswith('"'):
                pat = pat[1:-1].replace('\\\\', '\\')       # MIR prints the literal with Rust escapes
        return Adt('Result<Regex, regex::Error>', {(0, 0): Obj('regex', pattern=pat)}, 0)

    @reg('LazyLock::new')
    def _(ex, info, a, dty):
        return Obj('lazylock', init=a[0], value=None)

    def force_lazy(ex, r):
        cell, path = ex.deref(r)
        v = ex.read_path(cell, path)
        if isinstance(v, Obj) and v.kind == 'lazylock':
            if v.value is None:
                v = v.set(value=Cell(ex.call_value(v.init, [])))
                ex.write_path(cell, path, v)
            return Ref(v.value, ())
        raise Inconclusive('LazyLock deref on %r' % (v,))

    M.force_lazy = force_lazy

    @reg('Regex::replace_all')
    def _(ex, info, a, dty):
        re_ = str_of(ex, a[0])
        if not (isinstance(re_, Obj) and re_.kind == 'regex' and re_.pattern == r'<([^>\s]+)>'):
            raise Inconclusive('replace_all on a regex other than the template regex: %r' % (re_,))
        s = str_of(ex, a[1])
        if isinstance(s, Obj) and s.kind in ('str', 'symstr'):
            s = Obj('tstr', parts=(('val', s),))       # an opaque string without placeholders
        if not (isinstance(s, Obj) and s.kind == 'tstr'):
            raise Inconclusive('replace_all on %r' % (s,))
        fcell = Cell(a[2], name='replacer')
        # a replacer that is not a closure: a value of a crate type implementing `regex::Replacer` (possibly behind
        # `by_ref()`): its `replace_append(&mut self, caps, dst)` is called per placeholder with `dst` = what was built so far
        rep = ex.materialize(a[2])
        rcell, rpath = None, None
        for _ in range(4):
            if isinstance(rep, Ref):
                rcell, rpath = rep.cell, rep.path
                rep = ex.materialize(ex.read_path(rcell, rpath))
            elif isinstance(rep, Adt) and T.type_name_hint(rep.ty)[0] == 'ReplacerRef' and (None, 0) in rep.fields:
                rep = ex.materialize(rep.fields[(None, 0)])
            else:
                break
        append_body = None
        if isinstance(rep, Adt) and not rep.ty.startswith('{closure@'):
            h = T.type_name_hint(rep.ty)[0]
            for (st, m), lst in ex.prog.by_method.items():
                if m == 'replace_append' and st == h:
                    append_body = lst[0][1]
        out = []
        if append_body is not None:
            if rcell is None:
                rcell, rpath = Cell(rep, name='replacer'), ()
            dst = Cell(Obj('tstr', parts=()), name='replace_all.dst')
            for p in s.parts:
                cur = ex.read_path(dst, ())
                if p[0] != 'ph':
                    ex.write_path(dst, (), cur.set(parts=cur.parts + (p,)))
                    continue
                caps = Obj('captures', groups=(Obj('tstr', parts=(p,)), p[1]))
                ex.call_body(append_body, [Ref(rcell, rpath), Ref(Cell(caps), ()), Ref(dst, ())])
            res = ex.read_path(dst, ())
            M.log(ex, 'replace_all', src=s, out=res.parts)
            return res
        for p in s.parts:
            if p[0] != 'ph':
                out.append(p)
                continue
            caps = Obj('captures', groups=(Obj('tstr', parts=(p,)), p[1]))
            r = ex.call_value(Ref(fcell, ()), [Ref(Cell(caps), ())])
            out.append(('val', str_of(ex, r)))
        M.log(ex, 'replace_all', src=s, out=tuple(out))
        return Obj('tstr', parts=tuple(out))

    @reg('Regex::captures_iter')
    def _(ex, info, a, dty):
        # one Captures per placeholder of the template string, left to right (see the module comment)
        re_ = str_of(ex, a[0])
        if not (isinstance(re_, Obj) and re_.kind == 'regex' and re_.pattern == r'<([^>\s]+)>'):
            raise Inconclusive('captures_iter on a regex other than the template regex: %r' % (re_,))
        s = str_of(ex, a[1])
        if isinstance(s, Obj) and s.kind in ('str', 'symstr'):
            s = Obj('tstr', parts=(('val', s),))
        if not (isinstance(s, Obj) and s.kind == 'tstr'):
            raise Inconclusive('captures_iter on %r' % (s,))
        caps = [Obj('captures', groups=(Obj('tstr', parts=(p,)), p[1])) for p in s.parts if p[0] == 'ph']
        return Obj('iter', items=tuple(caps), ty=dty)

    # ------------------------------------------------------------------ hashing of strings (DefaultHasher)
    # hash(s) is one 64-bit unknown per string; equal strings have equal hashes (the converse is not assumed: collisions are
    # possible in the model as they are in reality)
    @reg('DefaultHasher::new', 'DefaultHasher::default', 'RandomState::build_hasher', 'BuildHasher::build_hasher')
    def _(ex, info, a, dty):
        return Obj('hasher', fed=())

    def hash_of_string(ex, v):
        if isinstance(v, Obj) and v.kind == 'str':
            nm = 'lit:' + v.text
        elif isinstance(v, Obj) and v.kind == 'symstr':
            nm = v.name
        else:
            raise Inconclusive('hash of %r' % (v,))
        known = ex.env.setdefault('string_hashes', {})
        if nm not in known:
            h = z3.BitVec('hash(%s)' % nm, 64)
            for other, (ho, vo) in known.items():
                ex.add(z3.Implies(M.str_eq(ex, None, [v, vo], 'bool'), h == ho))
            known[nm] = (h, v)
        return known[nm][0]

    @reg('Hash::hash')
    def _(ex, info, a, dty):
        cell, path = ex.deref(a[1])
        hs = ex.read_path(cell, path)
        if not (isinstance(hs, Obj) and hs.kind == 'hasher'):
            raise Inconclusive('Hash::hash into %r' % (hs,))
        ex.write_path(cell, path, hs.set(fed=hs.fed + (hash_of_string(ex, str_of(ex, a[0])),)))
        return UNIT

    @reg('Hasher::finish')
    def _(ex, info, a, dty):
        cell, path = ex.deref(a[0])
        hs = ex.read_path(cell, path)
        if not (isinstance(hs, Obj) and hs.kind == 'hasher'):
            raise Inconclusive('Hasher::finish on %r' % (hs,))
        if len(hs.fed) == 1:
            return hs.fed[0]
        return ex.fresh('hash_of_%d_items' % len(hs.fed), z3.BitVecSort(64))

    @reg('Replacer::by_ref')
    def _(ex, info, a, dty):
        return a[0]              # ReplacerRef(&mut R): the same replacer

    def dst_append(ex, dref, part):
        cell, path = ex.deref(dref)
        cur = ex.read_path(cell, path)
        if isinstance(cur, Obj) and cur.kind in ('str', 'symstr'):
            cur = Obj('tstr', parts=(('val', cur),) if not (cur.kind == 'str' and cur.text == '""') else ())
        if not (isinstance(cur, Obj) and cur.kind == 'tstr'):
            raise Inconclusive('append to %r' % (cur,))
        ex.write_path(cell, path, cur.set(parts=cur.parts + (part,)))

    @reg('String::push_str')
    def _(ex, info, a, dty):
        dst_append(ex, a[0], ('val', str_of(ex, a[1])))
        return UNIT

    @reg('Captures::expand')
    def _(ex, info, a, dty):
        # `$N` / `$name` / `${..}` / `$$` inside the replacement are references to capture groups: the replacement is
        # appended as written only when it contains none (a free Boolean per replacement text)
        v = str_of(ex, a[1])
        nm = v.name if isinstance(v, Obj) and v.kind == 'symstr' else repr(v)
        c = str_of(ex, a[0])
        g1 = c.groups[1] if isinstance(c, Obj) and c.kind == 'captures' and len(c.groups) > 1 else None
        g1 = g1.name if isinstance(g1, Obj) and g1.kind == 'symstr' else repr(g1)
        if ex.branch(z3.Bool('has-$-reference(%s)' % nm)):
            dst_append(ex, a[2], ('val', Obj('symstr', name='expand(%s|%s)' % (nm, g1))))
        else:
            dst_append(ex, a[2], ('val', v))
        return UNIT

    @reg('Captures::get')
    def _(ex, info, a, dty):
        c = str_of(ex, a[0])
        i = conc(z3.simplify(a[1]))
        if not (isinstance(c, Obj) and c.kind == 'captures') or i is None or i >= len(c.groups):
            return M.none(dty)
        return M.some(dty, Obj('match', s=c.groups[i]))

    @reg('Match::as_str')
    def _(ex, info, a, dty):
        m = str_of(ex, a[0])
        if isinstance(m, Obj) and m.kind == 'match':
            return Ref(Cell(m.s), ())
        raise Inconclusive('Match::as_str on %r' % (m,))

    @reg('ToString::to_string')
    def _(ex, info, a, dty):
        # Display of a named value: one symbolic string per value (two values may or may not display alike - string
        # equality between them is a solver-decided Boolean)
        v = str_of(ex, a[0])
        if isinstance(v, Obj) and v.kind in ('str', 'symstr', 'tstr'):
            return v
        nm = getattr(v, 'name', None)
        if nm:
            return Obj('symstr', name='display(%s)' % nm)
        return M.uninterpreted(ex, info, a, dty)

    @reg('Cow::into_owned', 'ToOwned::to_owned', 'String::as_str', 'String::as_mut_str')
    def _(ex, info, a, dty):
        v = ex.materialize(a[0])
        if info['method'] in ('into_owned', 'to_owned'):
            return str_of(ex, v)
        return v

    # ---------------------------------------------------------------- plain operations on string literals
    def lit(s):
        """the characters of a string literal object (as MIR prints it), or None"""
        if isinstance(s, Obj) and s.kind == 'str':
            t = s.text
            if t.startswith('b"'):
                t = t[1:]
            if t.startswith('"') and t.endswith('"'):
                t = t[1:-1]
            if '\\' in t:
                t = t.replace('\\\\', '\x00').replace('\\"', '"').replace('\\n', '\n').replace('\\t', '\t').replace('\x00', '\\')
            return t
        return None

    def mklit(t):
        return Obj('str', text='"%s"' % t.replace('\\', '\\\\').replace('"', '\\"').replace('\n', '\\n').replace('\t', '\\t'))

    @reg('str::starts_with', '<impl>::starts_with', 'String::starts_with')
    def _(ex, info, a, dty):
        s, p = str_of(ex, a[0]), str_of(ex, a[1])
        ls, lp = lit(s), lit(p)
        if ls is not None and lp is not None:
            return z3.BoolVal(ls.startswith(lp))
        if isinstance(s, Obj) and s.kind == 'symstr' and lp is not None:
            return z3.Bool('starts-with(%s, %s)' % (s.name, lp))
        raise Inconclusive('starts_with on %r / %r' % (s, p))

    @reg('str::chars', '<impl>::chars')
    def _(ex, info, a, dty):
        ls = lit(str_of(ex, a[0]))
        if ls is None:
            raise Inconclusive('chars() of a string that is not a literal')
        return Obj('iter', items=tuple(z3.BitVecVal(ord(c), 32) for c in ls), ty=dty)

    @reg('char::len_utf8', 'char::methods::<impl>::len_utf8', '<impl>::len_utf8')
    def _(ex, info, a, dty):
        c = z3.simplify(ex.materialize(a[0]))
        if not z3.is_bv_value(c):
            raise Inconclusive('len_utf8 of a symbolic char')
        return bv(len(chr(c.as_long()).encode('utf-8')))

    @reg('str::split_at', '<impl>::split_at')
    def _(ex, info, a, dty):
        ls = lit(str_of(ex, a[0]))
        n = z3.simplify(ex.materialize(a[1]))
        if ls is None or not z3.is_bv_value(n):
            raise Inconclusive('split_at on a string that is not a literal / at a symbolic index')
        b = ls.encode('utf-8')
        k = n.as_long()
        if k > len(b):
            raise PathEnd('panic', 'split_at out of bounds')
        return Adt('(&str, &str)', {(None, 0): Ref(Cell(mklit(b[:k].decode('utf-8'))), ()), (None, 1): Ref(Cell(mklit(b[k:].decode('utf-8'))), ())})

    @reg('str::rsplit_once', '<impl>::rsplit_once', 'str::split_once', '<impl>::split_once')
    def _(ex, info, a, dty):
        ls = lit(str_of(ex, a[0]))
        pat = ex.materialize(a[1])
        if isinstance(pat, Ref):
            pat = str_of(ex, pat)
        if z3.is_expr(pat) and z3.is_bv_value(z3.simplify(pat)):
            sep = chr(z3.simplify(pat).as_long())
        else:
            sep = lit(pat)
        if ls is None or sep is None:
            return M.uninterpreted(ex, info, a, dty)
        parts = ls.rsplit(sep, 1) if info['method'] == 'rsplit_once' else ls.split(sep, 1)
        if len(parts) != 2:
            return Adt(dty or 'Option<(&str, &str)>', {}, 0, None)
        tup = Adt('(&str, &str)', {(None, 0): Ref(Cell(mklit(parts[0])), ()), (None, 1): Ref(Cell(mklit(parts[1])), ())})
        return Adt(dty or 'Option<(&str, &str)>', {(1, 0): tup}, 1, None)
