"""Stage M2 models: Vec / slice / iterator pipelines over finite sequences (concrete length per path,
symbolic elements), symbolic strings compared against literals."""
import re
import z3

from .values import UNIT, Cell, Lazy, Adt, Ref, FnItem, Obj, strip_ref, generic_args, bv, conc
from .interp import Inconclusive, PathEnd
from . import tables as T


def register(M):
    reg = M.reg

    def seq_of(ex, v, what='sequence'):
        """-> (items, ref_base) for an iterable value: Obj iter / &Vec / &[T] / Vec / Option iter."""
        v = ex.materialize(v)
        if isinstance(v, Obj) and v.kind == 'iter':
            return list(v.items)
        if isinstance(v, Ref):
            inner = ex.read_path(v.cell, v.path)
            if isinstance(inner, Obj) and inner.kind == 'vec':
                return [Ref(v.cell, v.path + (('idx', bv(i)),)) for i in range(len(inner.items))]
            if isinstance(inner, Ref):
                return seq_of(ex, inner, what)
            if isinstance(inner, Obj) and inner.kind == 'iter':
                # an iterator consumed through `&mut`: whoever iterates it takes the items out
                ex.write_path(v.cell, v.path, inner.set(items=()))
                return list(inner.items)
            inner = ex.materialize(inner)
            if isinstance(inner, Adt) and T.type_name_hint(inner.ty)[0] == 'Option':
                # Option::iter / iter_mut through a reference: a reference to the payload
                return [Ref(v.cell, v.path + (('f', 1, 0, '?'),))] if M.is_some(ex, inner) else []
            raise Inconclusive('%s: iteration over %r (install a concrete-length vec in the harness)' % (what, inner))
        if isinstance(v, Obj) and v.kind == 'vec':
            return list(v.items)
        if isinstance(v, Obj) and v.kind == 'pstream':
            return [it for _, it in v.items]
        if isinstance(v, Adt) and T.type_name_hint(v.ty)[0] == 'Option':
            return [M.payload(ex, v)] if M.is_some(ex, v) else []
        if isinstance(v, Adt) and T.type_name_hint(v.ty)[0] == 'Either':
            # `Either<L, R>` of two iterators is the iterator of whichever side it holds
            d = conc(z3.simplify(M.discr(ex, v)))
            if d is None:
                d = 0 if ex.branch(M.discr(ex, v) == bv(0)) else 1
            return seq_of(ex, ex.field_of(v, d, 0, '?'), what)
        raise Inconclusive('%s: iteration over %r' % (what, v))

    M.seq_of = seq_of

    def mkiter(items, ty=None):
        return Obj('iter', items=tuple(items), ty=ty)

    @reg('<impl>::iter', '<impl>::iter_mut', 'Vec::iter')
    def _(ex, info, a, dty):
        return mkiter(seq_of(ex, a[0], 'iter()'), dty)

    def into_iter(ex, info, v, dty):
        return mkiter(seq_of(ex, v, 'into_iter()'), dty)
    M.into_iter = lambda ex, info, v, dty: into_iter(ex, info, v, dty)

    @reg('Iterator::chain')
    def _(ex, info, a, dty):
        return mkiter(seq_of(ex, a[0]) + seq_of(ex, a[1]), dty)

    @reg('Iterator::flat_map')
    def _(ex, info, a, dty):
        out = []
        for it in seq_of(ex, a[0]):
            out += seq_of(ex, ex.call_value(a[1], [it]))
        return mkiter(out, dty)

    @reg('Iterator::map')
    def _(ex, info, a, dty):
        return mkiter([ex.call_value(a[1], [it]) for it in seq_of(ex, a[0])], dty)

    @reg('Iterator::filter')
    def _(ex, info, a, dty):
        out = []
        for it in seq_of(ex, a[0]):
            if ex.branch(ex.call_value(a[1], [M.mkref(it)])):
                out.append(it)
        return mkiter(out, dty)

    @reg('Iterator::any', 'Iterator::all')
    def _(ex, info, a, dty):
        cell, path = ex.deref(a[0])
        items = seq_of(ex, ex.read_path(cell, path))
        # a predicate that gets its items by `&mut` (iter_mut) may change them: then it matters that `any` / `all` STOP at
        # the first decisive item - evaluated in order, branching on each verdict
        f0 = ex.materialize(a[1])
        fb = ex.prog.closure_body(f0.ty) if isinstance(f0, Adt) and f0.ty.startswith('{closure@') else None
        if fb is not None and len(fb.params) >= 2 and fb.params[1][1].strip().lstrip('(').startswith('&mut'):
            want = info['method'] == 'any'
            for i, it in enumerate(items):
                if ex.branch(ex.call_value(a[1], [it])) == want:
                    ex.write_path(cell, path, mkiter(items[i + 1:]))
                    return z3.BoolVal(want)
            ex.write_path(cell, path, mkiter([]))
            return z3.BoolVal(not want)
        rs = [ex.call_value(a[1], [it]) for it in items]
        ex.write_path(cell, path, mkiter([]))
        if info['method'] == 'any':
            return z3.Or(*rs) if rs else z3.BoolVal(False)
        return z3.And(*rs) if rs else z3.BoolVal(True)

    @reg('Iterator::find_map')
    def _(ex, info, a, dty):
        cell, path = ex.deref(a[0])
        items = seq_of(ex, ex.read_path(cell, path))
        for i, it in enumerate(items):
            r = ex.materialize(ex.call_value(a[1], [it]))
            if M.is_some(ex, r):
                ex.write_path(cell, path, mkiter(items[i + 1:]))
                return r
        ex.write_path(cell, path, mkiter([]))
        return M.none(dty)

    @reg('Iterator::find')
    def _(ex, info, a, dty):
        cell, path = ex.deref(a[0])
        items = seq_of(ex, ex.read_path(cell, path))
        for i, it in enumerate(items):
            if ex.branch(ex.call_value(a[1], [M.mkref(it)])):
                ex.write_path(cell, path, mkiter(items[i + 1:]))
                return M.some(dty, it)
        ex.write_path(cell, path, mkiter([]))
        return M.none(dty)

    @reg('Iterator::next')
    def _(ex, info, a, dty):
        cell, path = ex.deref(a[0])
        v = ex.read_path(cell, path)
        if isinstance(v, Obj) and v.kind == 'iter':
            if not v.items:
                return M.none(dty)
            ex.write_path(cell, path, v.set(items=v.items[1:]))
            return M.some(dty, v.items[0])
        raise Inconclusive('Iterator::next on %r' % (v,))

    @reg('Iterator::collect', 'FromIterator::from_iter')
    def _(ex, info, a, dty):
        items = seq_of(ex, a[0])
        h = T.type_name_hint(dty or '')[0]
        if h == 'Vec':
            return Obj('vec', items=tuple(items), ty=dty)
        if h == 'HashMap':
            g = generic_args(dty or '')
            m = M.new_assoc(g[0] if g else '?', g[1] if len(g) > 1 else '?')
            c = Cell(m)
            for it in items:
                it = ex.materialize(it)
                M.assoc_insert(ex, c, (), c.v, ex.field_of(it, None, 0, '?'), ex.field_of(it, None, 1, '?'), 'Option<?>')
            return c.v
        if h == 'BTreeMap':
            return M.btree_from(ex, items, dty)
        if h == 'HashSet':
            # a set = an association map with unit values (string elements compare by content)
            g = generic_args(dty or '')
            c = Cell(M.new_assoc(g[0] if g else '?', '()'))
            for it in items:
                M.assoc_insert(ex, c, (), c.v, it, UNIT, 'Option<()>')
            return c.v
        if h == 'Result' and T.type_name_hint((generic_args(dty or '') or ['?'])[0])[0] == 'Vec':
            # Result<Vec<T>, E>: the first Err short-circuits
            oks = []
            for it in items:
                it = ex.materialize(it)
                if ex.branch(M.discr(ex, it) == bv(0)):
                    oks.append(ex.field_of(it, 0, 0, '?'))
                else:
                    return Adt(dty, {(1, 0): ex.field_of(it, 1, 0, '?')}, 1, None)
            return Adt(dty, {(0, 0): Obj('vec', items=tuple(oks), ty=generic_args(dty)[0])}, 0, None)
        raise Inconclusive('collect into %s' % dty)

    @reg('iter::once', 'once')
    def _(ex, info, a, dty):
        return mkiter([a[0]], dty)

    @reg('iter::empty')
    def _(ex, info, a, dty):
        return mkiter([], dty)

    @reg('Iterator::cloned', 'Iterator::copied')
    def _(ex, info, a, dty):
        out = []
        for it in seq_of(ex, a[0]):
            it = ex.materialize(it)
            out.append(ex.read_path(it.cell, it.path) if isinstance(it, Ref) else it)
        return mkiter(out, dty)

    @reg('iter::repeat')
    def _(ex, info, a, dty):
        return Obj('repeat', item=a[0])

    @reg('<impl>::split_first')
    def _(ex, info, a, dty):
        items = seq_of(ex, a[0], 'split_first()')
        if not items:
            return M.none(dty)
        rest = Ref(Cell(Obj('vec', items=tuple(ex.read_path(r.cell, r.path) if isinstance(r, Ref) else r for r in items[1:]), ty='[T]'), name='tail'), ())
        return M.some(dty, Adt('tuple', {(None, 0): items[0], (None, 1): rest}))

    @reg('Iterator::zip')
    def _(ex, info, a, dty):
        ya = ex.materialize(a[1])
        if isinstance(ya, Obj) and ya.kind == 'repeat':
            return mkiter([Adt('tuple', {(None, 0): p, (None, 1): ya.item}) for p in seq_of(ex, a[0])], dty)
        x, y = seq_of(ex, a[0]), seq_of(ex, a[1])
        return mkiter([Adt('tuple', {(None, 0): p, (None, 1): q}) for p, q in zip(x, y)], dty)

    @reg('Iterator::take', 'Iterator::skip')
    def _(ex, info, a, dty):
        n = conc(z3.simplify(a[1]))
        if n is None:
            raise Inconclusive('take/skip with a symbolic count')
        src = ex.materialize(a[0])
        if isinstance(src, Ref) and info['method'] == 'take':
            under = ex.read_path(src.cell, src.path)
            if isinstance(under, Obj) and under.kind == 'iter':
                # `by_ref().take(n)`: the items are taken OUT of the underlying iterator (consumed eagerly here: every use
                # in the code under analysis drains the adapter at once)
                ex.write_path(src.cell, src.path, under.set(items=under.items[n:]))
                return mkiter(under.items[:n], dty)
        items = seq_of(ex, a[0])
        return mkiter(items[:n] if info['method'] == 'take' else items[n:], dty)

    @reg('Iterator::by_ref')
    def _(ex, info, a, dty):
        return a[0]

    @reg('Iterator::take_while')
    def _(ex, info, a, dty):
        out = []
        for it in seq_of(ex, a[0]):
            if not ex.branch(ex.call_value(a[1], [M.mkref(it)])):
                break
            out.append(it)
        return mkiter(out, dty)

    @reg('Iterator::fold')
    def _(ex, info, a, dty):
        acc = a[1]
        for it in seq_of(ex, a[0]):
            acc = ex.call_value(a[2], [acc, it])
        return acc

    @reg('Iterator::for_each')
    def _(ex, info, a, dty):
        for it in seq_of(ex, a[0]):
            ex.call_value(a[1], [it])
        return UNIT

    @reg('Iterator::last')
    def _(ex, info, a, dty):
        items = seq_of(ex, a[0])
        return M.some(dty, items[-1]) if items else M.none(dty)

    @reg('Iterator::count')
    def _(ex, info, a, dty):
        return bv(len(seq_of(ex, a[0])))

    @reg('Iterator::rev')
    def _(ex, info, a, dty):
        return mkiter(list(reversed(seq_of(ex, a[0]))), dty)

    @reg('Iterator::enumerate')
    def _(ex, info, a, dty):
        return mkiter([Adt('tuple', {(None, 0): bv(i), (None, 1): it}) for i, it in enumerate(seq_of(ex, a[0]))], dty)

    @reg('Iterator::flatten')
    def _(ex, info, a, dty):
        out = []
        for it in seq_of(ex, a[0]):
            it = ex.materialize(it)
            if isinstance(it, Adt) and T.type_name_hint(it.ty)[0] == 'Option':
                if M.is_some(ex, it):
                    out.append(M.payload(ex, it))
            else:
                out += seq_of(ex, it)
        return mkiter(out, dty)

    # ---------------------------------------------------------------- vec![..] lowering
    @reg('Box::new_uninit')
    def _(ex, info, a, dty):
        c = Cell(Adt('MaybeUninit<[T; N]>', {}, None, None))
        return Ref(c, (), pid=bv(0x6000000000000000 + c.id * 64))

    @reg('boxed::box_assume_init_into_vec_unsafe', '<impl>::into_vec')
    def _(ex, info, a, dty):
        b = ex.materialize(a[0])
        v = ex.read_path(b.cell, b.path)
        for _ in range(4):
            if isinstance(v, Obj) and v.kind == 'vec':
                return Obj('vec', items=v.items, ty=dty)
            v = ex.materialize(v)
            if isinstance(v, Adt):
                keys = [k for k in v.fields if k[0] is None]
                nxt = [v.fields[k] for k in sorted(keys, key=lambda k: k[1], reverse=True)]
                if not nxt:
                    break
                v = nxt[0]
        raise Inconclusive('vec![..] lowering not recognised: %r' % (v,))

    # ---------------------------------------------------------------- Vec
    @reg('Vec::new', 'Vec::with_capacity')
    def _(ex, info, a, dty):
        return Obj('vec', items=(), ty=dty)

    def vec_at(ex, r):
        cell, path = ex.deref(r)
        v = ex.read_path(cell, path)
        if isinstance(v, Lazy):
            raise Inconclusive('Vec operation on an unconstrained vector %s (install a concrete-length vec)' % v.name)
        if not (isinstance(v, Obj) and v.kind == 'vec'):
            raise Inconclusive('Vec operation on %r' % (v,))
        return cell, path, v
    M.vec_at = vec_at

    @reg('Vec::push')
    def _(ex, info, a, dty):
        cell, path, v = vec_at(ex, a[0])
        ex.write_path(cell, path, v.set(items=v.items + (a[1],)))
        return UNIT

    @reg('Vec::retain', 'Vec::retain_mut')
    def _(ex, info, a, dty):
        # the predicate is called once per element, front to back; elements it rejects are removed, order kept
        cell, path, v = vec_at(ex, a[0])
        kept = []
        for it in v.items:
            c = Cell(it)
            if ex.branch(ex.call_value(a[1], [Ref(c, ())])):
                kept.append(c.v)
        cur = ex.read_path(cell, path)
        ex.write_path(cell, path, cur.set(items=tuple(kept)))
        return UNIT

    @reg('Vec::insert')
    def _(ex, info, a, dty):
        cell, path, v = vec_at(ex, a[0])
        i = conc(z3.simplify(a[1]))
        if i is None:
            raise Inconclusive('Vec::insert at symbolic index')
        if i > len(v.items):
            raise PathEnd('panic', 'Vec::insert out of bounds')
        ex.write_path(cell, path, v.set(items=v.items[:i] + (a[2],) + v.items[i:]))
        return UNIT

    @reg('Vec::remove')
    def _(ex, info, a, dty):
        cell, path, v = vec_at(ex, a[0])
        i = conc(z3.simplify(a[1]))
        if i is None:
            raise Inconclusive('Vec::remove at symbolic index')
        if i >= len(v.items):
            raise PathEnd('panic', 'Vec::remove out of bounds')
        ex.write_path(cell, path, v.set(items=v.items[:i] + v.items[i + 1:]))
        return v.items[i]

    @reg('Vec::pop')
    def _(ex, info, a, dty):
        cell, path, v = vec_at(ex, a[0])
        if not v.items:
            return M.none(dty)
        ex.write_path(cell, path, v.set(items=v.items[:-1]))
        return M.some(dty, v.items[-1])

    @reg('Vec::len', '<impl>::len')
    def _(ex, info, a, dty):
        c0, p0 = ex.deref(a[0])
        v0 = ex.read_path(c0, p0)
        if isinstance(v0, Lazy):
            n = z3.BitVec(v0.name + '.len', 64)      # length of an unconstrained vector: one symbolic value
            ex.add(z3.ULE(n, z3.BitVecVal((1 << 63) - 1, 64)))       # (a Vec never holds more than isize::MAX bytes)
            return n
        cell, path, v = vec_at(ex, a[0])
        return bv(len(v.items))

    @reg('Itertools::dedup')
    def _(ex, info, a, dty):
        items = seq_of(ex, a[0])
        out = []
        for it in items:
            if out and ex.branch(M.deep_eq(ex, out[-1], it)):
                continue
            out.append(it)
        return mkiter(out, dty)

    @reg('Iterator::filter_map')
    def _(ex, info, a, dty):
        out = []
        for it in seq_of(ex, a[0]):
            r = ex.materialize(ex.call_value(a[1], [it]))
            if M.is_some(ex, r):
                out.append(M.payload(ex, r))
        return mkiter(out, dty)

    @reg('Iterator::sum')
    def _(ex, info, a, dty):
        s = bv(0)
        for it in seq_of(ex, a[0]):
            s = s + ex.materialize(it)
        return s

    @reg('Vec::is_empty', '<impl>::is_empty')
    def _(ex, info, a, dty):
        sv = ex.materialize(a[0])
        for _ in range(3):
            if isinstance(sv, Ref):
                sv = ex.materialize(ex.read_path(sv.cell, sv.path))
        if isinstance(sv, Obj) and sv.kind == 'str':
            return z3.BoolVal(sv.text in ('""', ''))
        if isinstance(sv, Obj) and sv.kind == 'symstr':
            return z3.Bool('is-empty(%s)' % sv.name)          # a free Boolean per symbolic string
        cell, path, v = vec_at(ex, a[0])
        return z3.BoolVal(len(v.items) == 0)

    @reg('Vec::extend', 'Extend::extend', 'Vec::extend_from_slice')
    def _(ex, info, a, dty):
        c0, p0 = ex.deref(a[0])
        tgt = ex.read_path(c0, p0)
        if isinstance(tgt, Obj) and tgt.kind == 'assoc' and tgt.vty == '()':
            M.set_extend(ex, c0, p0, seq_of(ex, a[1]))
            return UNIT
        cell, path, v = vec_at(ex, a[0])
        ex.write_path(cell, path, v.set(items=v.items + tuple(seq_of(ex, a[1]))))
        return UNIT

    @reg('Vec::append')
    def _(ex, info, a, dty):
        cell, path, v = vec_at(ex, a[0])
        c2, p2, v2 = vec_at(ex, a[1])
        ex.write_path(cell, path, v.set(items=v.items + v2.items))
        ex.write_path(c2, p2, ex.read_path(c2, p2).set(items=()))
        return UNIT

    @reg('Vec::truncate')
    def _(ex, info, a, dty):
        cell, path, v = vec_at(ex, a[0])
        n = conc(z3.simplify(a[1]))
        if n is None:
            raise Inconclusive('Vec::truncate to a symbolic length')
        ex.write_path(cell, path, v.set(items=v.items[:n]))
        return UNIT

    @reg('Vec::clear')
    def _(ex, info, a, dty):
        cell, path, v = vec_at(ex, a[0])
        ex.write_path(cell, path, v.set(items=()))
        return UNIT

    @reg('Vec::drain')
    def _(ex, info, a, dty):
        cell, path, v = vec_at(ex, a[0])
        ex.write_path(cell, path, v.set(items=()))
        return mkiter(list(v.items), dty)

    # ---------------------------------------------------------------- strings vs literals
    def str_of(ex, v):
        v = ex.materialize(v)
        while isinstance(v, Ref):
            v = ex.materialize(ex.read_path(v.cell, v.path))
        return v

    @reg('PartialEq::eq#str')
    def str_eq(ex, info, a, dty):
        x, y = str_of(ex, a[0]), str_of(ex, a[1])
        def nm(s):
            if isinstance(s, Obj) and s.kind == 'str':
                return ('lit', s.text)
            if isinstance(s, Obj) and s.kind == 'symstr':
                return ('sym', s.name)
            raise Inconclusive('string equality on %r' % (s,))
        nx, ny = nm(x), nm(y)
        if nx[0] == 'lit' and ny[0] == 'lit':
            return z3.BoolVal(nx[1] == ny[1])
        if nx == ny:
            return z3.BoolVal(True)
        if nx[0] == 'lit':
            nx, ny = ny, nx
        elif ny[0] != 'lit' and ny[1] < nx[1]:
            nx, ny = ny, nx        # one Boolean per unordered pair of names: `a == b` and `b == a` are the same fact
        return z3.Bool('%s==%s' % (nx[1], ny[1]))
    M.str_eq = str_eq
