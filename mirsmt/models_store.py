"""Stage M2 models: association maps (HashMap with decidable keys), futures::lock::Mutex, AtomicBool,
VecExt::drain_filter, itertools group-by."""
import itertools
import re
import z3

from .values import UNIT, Cell, Lazy, Adt, Ref, FnItem, Obj, strip_ref, generic_args, bv, conc
from .interp import Inconclusive, PathEnd
from . import tables as T


def register(M):
    reg = M.reg

    # ---------------------------------------------------------------- assoc maps
    def new_assoc(kty, vty, entries=()):
        return Obj('assoc', kty=kty, vty=vty, entries=tuple(entries))
    M.new_assoc = new_assoc

    def source_is_identity(ex):
        """Does `event::Source` compare by pointer (its hand-written PartialEq uses Arc::ptr_eq)?  If the crate compares it by
        value instead (a derive), keys holding a Source are equal when their contents are."""
        c = getattr(ex.prog, '_source_identity', None)
        if c is None:
            bodies = [b for (t, b) in ex.prog.by_method.get(('Source', 'eq'), []) if t == 'PartialEq']
            c = any('ptr_eq' in '\n'.join(b.text) for b in bodies)
            ex.prog._source_identity = c
        return c

    def has_source(ex, v, depth=0):
        v = ex.materialize(v)
        if isinstance(v, Adt):
            if T.type_name_hint(v.ty)[0] == 'Source':
                return True
            return depth < 3 and any(has_source(ex, f, depth + 1) for f in v.fields.values())
        return False

    def value_eq(ex, a, b):
        a, b = ex.materialize(a), ex.materialize(b)
        if a is b:
            return z3.BoolVal(True)
        if z3.is_expr(a) and z3.is_expr(b):
            return a == b
        if isinstance(a, Adt) and isinstance(b, Adt) and T.type_name_hint(a.ty)[0] == 'Source':
            ra, rb = ex.materialize(a.fields[(None, 0)]), ex.materialize(b.fields[(None, 0)])
            if isinstance(ra, Ref) and isinstance(rb, Ref):
                if ra.cell is rb.cell and ra.path == rb.path:
                    return z3.BoolVal(True)
                na, nb = sorted((ra.cell.name or 'cell%d' % ra.cell.id, rb.cell.name or 'cell%d' % rb.cell.id))
                return z3.Bool('same-content(%s,%s)' % (na, nb))      # two allocations whose gherkin values may be equal
        if isinstance(a, Adt) and isinstance(b, Adt):
            c = []
            if a.discr is not None or b.discr is not None:
                c.append(M.discr(ex, a) == M.discr(ex, b))
            for k in sorted(set(a.fields) & set(b.fields), key=repr):
                e = value_eq(ex, a.fields[k], b.fields[k])
                if k[0] is not None and a.discr is not None:
                    e = z3.Implies(M.discr(ex, a) == bv(k[0] if isinstance(k[0], int) else 0), e)
                c.append(e)
            return z3.And(*c) if c else z3.BoolVal(True)
        return M.deep_eq(ex, a, b)

    def key_eq(ex, m, k1, k2):
        if re.sub(r"'\w+|[&\s]|mut\b", '', m.kty or '') in ('str', 'String', 'std::string::String'):
            return M.str_eq(ex, None, [k1, k2], 'bool')       # string keys compare by content
        if not source_is_identity(ex) and has_source(ex, k1):
            return value_eq(ex, k1, k2)
        try:
            sh = M.shape(m.kty)
        except Inconclusive:
            return M.deep_eq(ex, k1, k2)       # structural equality (derived PartialEq; pointer identity for Source)
        a, b = M.flatten(ex, k1, sh), M.flatten(ex, k2, sh)
        return z3.And(*[x == y for x, y in zip(a, b)]) if a else z3.BoolVal(True)

    def find(ex, m, key):
        for i, (k, v) in enumerate(m.entries):
            if ex.branch(key_eq(ex, m, k, key)):
                return i
        return None

    @reg('LinkedHashMap::new', 'LinkedHashMap::default')
    def _(ex, info, a, dty):
        g = generic_args(dty or '')
        return Obj('assoc', kty=g[0] if g else '?', vty=g[1] if len(g) > 1 else '?', entries=(), linked=True)

    def as_assoc(ex, m, ty=None):
        if isinstance(m, Obj) and m.kind == 'assoc':
            return m
        raise Inconclusive('not an association map: %r' % (m,))

    orig_as_map = M._as_map

    def _as_map(ex, m):
        if isinstance(m, Obj) and m.kind == 'assoc':
            return m
        return orig_as_map(ex, m)
    M._as_map = _as_map

    def assoc_get(ex, cell, path, m, key, dty):
        i = find(ex, m, key)
        if i is None:
            return M.none(dty)
        return M.some(dty, Ref(cell, path + (('slot', i),)))
    M.assoc_get = assoc_get

    @reg('HashSet::new', 'HashSet::default', 'HashSet::with_capacity')
    def _(ex, info, a, dty):
        g = generic_args(dty or '')
        return Obj('assoc', kty=g[0] if g else '?', vty='()', entries=())

    @reg('HashMap::clear', 'HashSet::clear')
    def _(ex, info, a, dty):
        cell, path = ex.deref(a[0])
        m = ex.read_path(cell, path)
        if isinstance(m, Obj) and m.kind == 'assoc':
            ex.write_path(cell, path, m.set(entries=()))
            return UNIT
        raise Inconclusive('clear on %r' % (m,))

    @reg('HashSet::insert')
    def _(ex, info, a, dty):
        cell, path = ex.deref(a[0])
        m = as_assoc(ex, ex.read_path(cell, path))
        if find(ex, m, a[1]) is not None:
            return z3.BoolVal(False)
        ex.write_path(cell, path, m.set(entries=m.entries + ((a[1], UNIT),)))
        return z3.BoolVal(True)

    @reg('HashSet::contains')
    def _(ex, info, a, dty):
        cell, path = ex.deref(a[0])
        m = as_assoc(ex, ex.read_path(cell, path))
        return z3.BoolVal(find(ex, m, M.load(ex, a[1]) if isinstance(ex.materialize(a[1]), Ref) else a[1]) is not None)

    @reg('HashSet::remove')
    def _(ex, info, a, dty):
        cell, path = ex.deref(a[0])
        m = as_assoc(ex, ex.read_path(cell, path))
        key = M.load(ex, a[1]) if isinstance(ex.materialize(a[1]), Ref) else a[1]
        i = find(ex, m, key)
        if i is None:
            return z3.BoolVal(False)
        ex.write_path(cell, path, m.set(entries=m.entries[:i] + m.entries[i + 1:]))
        return z3.BoolVal(True)

    def set_extend(ex, cell, path, items):
        """`HashSet::extend`: every item inserted unless an equal one is there"""
        for it in items:
            m = as_assoc(ex, ex.read_path(cell, path))
            if find(ex, m, it) is None:
                ex.write_path(cell, path, m.set(entries=m.entries + ((it, UNIT),)))
    M.set_extend = set_extend

    @reg('HashSet::len')
    def _(ex, info, a, dty):
        cell, path = ex.deref(a[0])
        return bv(len(as_assoc(ex, ex.read_path(cell, path)).entries))

    def assoc_insert(ex, cell, path, m, key, val, dty):
        i = find(ex, m, key)
        if i is None:
            ex.write_path(cell, path, m.set(entries=m.entries + ((key, val),)))
            return M.none(dty)
        old = m.entries[i][1]
        es = list(m.entries)
        if m.d.get('linked'):
            # linked-hash-map 0.5: inserting an existing key updates the value AND moves the node to the back
            k0 = es[i][0]
            del es[i]
            es.append((k0, val))
        else:
            es[i] = (es[i][0], val)
        ex.write_path(cell, path, m.set(entries=tuple(es)))
        return M.some(dty, old)
    M.assoc_insert = assoc_insert

    def assoc_remove(ex, cell, path, m, key, dty):
        i = find(ex, m, key)
        if i is None:
            return M.none(dty)
        old = m.entries[i][1]
        ex.write_path(cell, path, m.set(entries=m.entries[:i] + m.entries[i + 1:]))
        return M.some(dty, old)
    M.assoc_remove = assoc_remove

    def assoc_slot_read(ex, m, st):
        return m.entries[st[1]][1]
    M.assoc_slot_read = assoc_slot_read

    def assoc_slot_write(ex, m, st, f):
        es = list(m.entries)
        es[st[1]] = (es[st[1]][0], f(es[st[1]][1]))
        return m.set(entries=tuple(es))
    M.assoc_slot_write = assoc_slot_write

    @reg('HashMap::new', 'HashMap::default', 'HashMap::with_capacity')
    def _(ex, info, a, dty):
        g = generic_args(dty or '')
        return new_assoc(g[0] if g else '?', g[1] if len(g) > 1 else '?')

    @reg('HashMap::entry')
    def _(ex, info, a, dty):
        # std's `Entry` enum: Occupied(OccupiedEntry) = 0 / Vacant(VacantEntry) = 1, so that code matching on it runs as is
        cell, path, m = M._map_at(ex, a[0])
        if m.kind == 'assoc':
            i = find(ex, m, a[1])
            e = Obj('entry', cell=cell, path=path, key=a[1], idx=i, sym=None)
            return Adt(dty or 'Entry<K, V>', {(0, 0): e, (1, 0): e}, bv(0 if i is not None else 1), None)
        k = M.key_term(ex, a[1], m.ksh)
        M.retain_facts(ex, k)
        ex.write_path(cell, path, m)
        e = Obj('entry', cell=cell, path=path, key=a[1], idx=None, sym=k)
        return Adt(dty or 'Entry<K, V>', {(0, 0): e, (1, 0): e}, z3.simplify(z3.If(z3.Select(m.present, k), bv(0), bv(1))), None)

    def entry_of(ex, v):
        v = ex.materialize(v)
        if isinstance(v, Ref):
            v = ex.materialize(ex.read_path(v.cell, v.path))
        if isinstance(v, Obj) and v.kind == 'entry':
            return v, None
        if isinstance(v, Adt) and (0, 0) in v.fields and isinstance(v.fields[(0, 0)], Obj) and v.fields[(0, 0)].kind == 'entry':
            return v.fields[(0, 0)], v
        raise Inconclusive('Entry method on %r' % (v,))

    def entry_insert(ex, e, val):
        """the key is absent: put (key, val) in; -> slot reference"""
        m = ex.read_path(e.cell, e.path)
        if e.sym is None:
            i = len(m.entries)
            ex.write_path(e.cell, e.path, m.set(entries=m.entries + ((e.key, val),)))
            return Ref(e.cell, e.path + (('slot', i),))
        vals = M.flatten(ex, val, m.vsh)
        ex.write_path(e.cell, e.path, m.set(present=z3.Store(m.present, e.sym, z3.BoolVal(True)), leaves=tuple(z3.Store(x, e.sym, y) for x, y in zip(m.leaves, vals))))
        return Ref(e.cell, e.path + (('slot', e.sym),))

    def entry_slot(e):
        return Ref(e.cell, e.path + (('slot', e.idx if e.sym is None else e.sym),))

    @reg('Entry::or_default', 'Entry::or_insert_with', 'Entry::or_insert')
    def _(ex, info, a, dty):
        e, wrap = entry_of(ex, a[0])
        m = ex.read_path(e.cell, e.path)
        occupied = (e.idx is not None) if e.sym is None else ex.branch(M.discr(ex, wrap) == bv(0))
        if occupied:
            return entry_slot(e)
        if info['method'] == 'or_default':
            v = M.default_value(ex, m.vty)
        elif info['method'] == 'or_insert':
            v = a[1]
        else:
            v = ex.call_value(a[1], [])
        return entry_insert(ex, e, v)

    @reg('OccupiedEntry::get', 'OccupiedEntry::get_mut', 'OccupiedEntry::into_mut')
    def _(ex, info, a, dty):
        e, _w = entry_of(ex, a[0])
        return entry_slot(e)

    @reg('OccupiedEntry::remove', 'OccupiedEntry::remove_entry')
    def _(ex, info, a, dty):
        e, _w = entry_of(ex, a[0])
        m = ex.read_path(e.cell, e.path)
        if e.sym is None:
            old = m.entries[e.idx][1]
            ex.write_path(e.cell, e.path, m.set(entries=m.entries[:e.idx] + m.entries[e.idx + 1:]))
        else:
            old = M.unflatten(ex, iter([z3.Select(x, e.sym) for x in m.leaves]), m.vsh, 'old')
            ex.write_path(e.cell, e.path, m.set(present=z3.Store(m.present, e.sym, z3.BoolVal(False))))
        if info['method'] == 'remove_entry':
            return Adt(dty or '(K, V)', {(None, 0): e.key, (None, 1): old})
        return old

    @reg('OccupiedEntry::insert')
    def _(ex, info, a, dty):
        e, _w = entry_of(ex, a[0])
        slot = entry_slot(e)
        old = ex.read_path(slot.cell, slot.path)
        ex.write_path(slot.cell, slot.path, a[1])
        return old

    @reg('VacantEntry::insert')
    def _(ex, info, a, dty):
        e, _w = entry_of(ex, a[0])
        return entry_insert(ex, e, a[1])

    @reg('OccupiedEntry::key', 'VacantEntry::key', 'Entry::key')
    def _(ex, info, a, dty):
        e, _w = entry_of(ex, a[0])
        return Ref(Cell(e.key), ())

    def orders_of(ex, m):
        return list(range(len(m.entries))) if m.d.get('linked') else orders(ex, len(m.entries))
    M.orders_of = orders_of

    def orders(ex, n):
        """iteration order of a hash map: a symbolic permutation (n <= 3), explored by branching"""
        if n <= 1 or ex.env.get('map_order') == 'insertion':
            return list(range(n))
        perms = list(itertools.permutations(range(n)))
        for p in perms[:-1]:
            if ex.branch(ex.fresh('map_order', z3.BoolSort())):
                return list(p)
        return list(perms[-1])
    M.map_orders = orders

    @reg('HashMap::values', 'HashMap::values_mut')
    def _(ex, info, a, dty):
        cell, path, m = M._map_at(ex, a[0])
        if m.kind != 'assoc':
            raise Inconclusive('values() on a symbolic map')
        return Obj('iter', items=tuple(Ref(cell, path + (('slot', i),)) for i in orders(ex, len(m.entries))), ty=dty)

    @reg('HashMap::iter', 'HashMap::iter_mut')
    def _(ex, info, a, dty):
        cell, path, m = M._map_at(ex, a[0])
        if m.kind != 'assoc':
            raise Inconclusive('iter() on a symbolic map')
        return Obj('iter', items=tuple(Adt('(&K, &V)', {(None, 0): Ref(Cell(m.entries[i][0]), ()), (None, 1): Ref(cell, path + (('slot', i),))})
                                       for i in orders_of(ex, m)), ty=dty)

    @reg('LinkedHashMap::front', 'LinkedHashMap::back')
    def _(ex, info, a, dty):
        cell, path, m = M._map_at(ex, a[0])
        if m.kind != 'assoc' or not m.d.get('linked'):
            raise Inconclusive('front()/back() on %r' % (m,))
        if not m.entries:
            return M.none(dty)
        i = 0 if info['method'] in ('front', 'first_key_value') else len(m.entries) - 1
        return M.some(dty, Adt('(&K, &V)', {(None, 0): Ref(Cell(m.entries[i][0]), ()), (None, 1): Ref(cell, path + (('slot', i),))}))

    @reg('LinkedHashMap::get_refresh')
    def _(ex, info, a, dty):
        # linked_hash_map: "Returns the mutable reference corresponding to the key in the map. If value is found, it is
        # moved to the end of the linked list."
        cell, path, m = M._map_at(ex, a[0])
        if m.kind != 'assoc' or not m.d.get('linked'):
            raise Inconclusive('get_refresh() on %r' % (m,))
        i = find(ex, m, M.load(ex, a[1]))
        if i is None:
            return M.none(dty)
        ex.write_path(cell, path, m.set(entries=m.entries[:i] + m.entries[i + 1:] + (m.entries[i],)))
        return M.some(dty, Ref(cell, path + (('slot', len(m.entries) - 1),)))

    @reg('LinkedHashMap::pop_front', 'LinkedHashMap::pop_back')
    def _(ex, info, a, dty):
        cell, path, m = M._map_at(ex, a[0])
        if m.kind != 'assoc' or not m.d.get('linked'):
            raise Inconclusive('pop_front()/pop_back() on %r' % (m,))
        if not m.entries:
            return M.none(dty)
        i = 0 if info['method'] in ('pop_front', 'pop_first') else len(m.entries) - 1
        k, v = m.entries[i]
        ex.write_path(cell, path, m.set(entries=m.entries[:i] + m.entries[i + 1:]))
        return M.some(dty, Adt('(K, V)', {(None, 0): k, (None, 1): v}))

    @reg('HashMap::keys')
    def _(ex, info, a, dty):
        cell, path, m = M._map_at(ex, a[0])
        if m.kind != 'assoc':
            raise Inconclusive('keys() on a symbolic map')
        return Obj('iter', items=tuple(Ref(Cell(m.entries[i][0]), ()) for i in orders(ex, len(m.entries))), ty=dty)

    @reg('HashMap::len')
    def _(ex, info, a, dty):
        cell, path, m = M._map_at(ex, a[0])
        return bv(len(m.entries))

    @reg('HashMap::is_empty')
    def _(ex, info, a, dty):
        cell, path, m = M._map_at(ex, a[0])
        return z3.BoolVal(len(m.entries) == 0)

    @reg('HashMap::drain')
    def _(ex, info, a, dty):
        cell, path, m = M._map_at(ex, a[0])
        ex.write_path(cell, path, m.set(entries=()))
        return Obj('iter', items=tuple(Adt('tuple', {(None, 0): m.entries[i][0], (None, 1): m.entries[i][1]}) for i in orders(ex, len(m.entries))), ty=dty)

    prev_into_iter = M.into_iter

    def into_iter(ex, info, v, dty):
        v0 = ex.materialize(v)
        if isinstance(v0, Obj) and v0.kind == 'assoc':
            return Obj('iter', items=tuple(Adt('tuple', {(None, 0): v0.entries[i][0], (None, 1): v0.entries[i][1]})
                                           for i in orders_of(ex, v0)), ty=dty)
        return prev_into_iter(ex, info, v, dty)
    M.into_iter = into_iter

    # ---------------------------------------------------------------- futures::lock::Mutex / atomics
    @reg('Mutex::lock')
    def _(ex, info, a, dty):
        cell, path = ex.deref(a[0])
        mv = ex.materialize(ex.read_path(cell, path))
        g = generic_args(mv.ty if isinstance(mv, Adt) else '')
        inner_ty = g[0] if g else '?'
        guard = Adt('MutexGuard<%s>' % inner_ty, {(None, 0): Ref(cell, path + (('f', None, 0, inner_ty),))})
        if 'sync::Mutex' in (info.get('text') or '') or 'sync::poison::' in (info.get('text') or ''):
            # std::sync::Mutex: blocking lock, LockResult<MutexGuard> (never poisoned, never contended: one thread)
            return Adt(dty or 'Result<MutexGuard, PoisonError>', {(0, 0): guard}, 0)
        M.log(ex, 'lock', what=M.recv_name(ex, Ref(cell, path)))
        return M.ready_future(('lock',), value=guard, pending=ex.env.get('lock_pending', 0))

    @reg('Mutex::new')
    def _(ex, info, a, dty):
        return Adt(dty or 'Mutex<?>', {(None, 0): a[0]})

    @reg('AtomicBool::load', 'Atomic::load')
    def _(ex, info, a, dty):
        v = ex.materialize(M.load(ex, a[0]))
        if isinstance(v, Adt):
            return ex.materialize(ex.field_of(v, None, 0, 'bool'), 'bool')
        return v

    @reg('AtomicBool::store', 'Atomic::store')
    def _(ex, info, a, dty):
        cell, path = ex.deref(a[0])
        ex.write_path(cell, path, Adt('AtomicBool', {(None, 0): a[1]}))
        return UNIT

    @reg('Atomic::fetch_add', 'Atomic::fetch_sub')
    def _(ex, info, a, dty):
        cell, path = ex.deref(a[0])
        v = ex.materialize(ex.read_path(cell, path))
        old = ex.materialize(ex.field_of(v, None, 0, 'usize'), 'usize') if isinstance(v, Adt) else v
        new = old + a[1] if info['method'] == 'fetch_add' else old - a[1]
        ex.write_path(cell, path, Adt(v.ty if isinstance(v, Adt) else 'Atomic', {(None, 0): new}))
        return old

    @reg('AtomicBool::new')
    def _(ex, info, a, dty):
        return Adt('AtomicBool', {(None, 0): a[0]})

    # ---------------------------------------------------------------- drain_filter
    @reg('VecExt::drain_filter')
    def _(ex, info, a, dty):
        cell, path, v = M.vec_at(ex, a[0])
        keep, out = [], []
        n = len(v.items)
        for i in range(n):
            # the predicate sees `&mut item` in place
            cur = ex.read_path(cell, path)
            pos = len(keep)
            r = ex.call_value(a[1], [Ref(cell, path + (('idx', bv(pos)),))])
            cur = ex.read_path(cell, path)
            item = cur.items[pos]
            if ex.branch(r):
                out.append(item)
                ex.write_path(cell, path, cur.set(items=cur.items[:pos] + cur.items[pos + 1:]))
            else:
                keep.append(item)
        return Obj('iter', items=tuple(out), ty=dty)

    register_linked_later = True
    # ---------------------------------------------------------------- itertools
    @reg('Itertools::into_group_map_by')
    def _(ex, info, a, dty):
        items = M.seq_of(ex, a[0])
        g = generic_args(dty or '')
        m = new_assoc(g[0] if g else '?', g[1] if len(g) > 1 else '?')
        cell = Cell(m)
        for it in items:
            k = ex.call_value(a[1], [M.mkref(it)])
            cur = cell.v
            i = find(ex, cur, k)
            if i is None:
                cell.v = cur.set(entries=cur.entries + ((k, Obj('vec', items=(it,), ty='Vec<?>')),))
            else:
                es = list(cur.entries)
                es[i] = (es[i][0], es[i][1].set(items=es[i][1].items + (it,)))
                cell.v = cur.set(entries=tuple(es))
        return cell.v

    @reg('Itertools::into_group_map')
    def _(ex, info, a, dty):
        # items are (key, value) pairs: values grouped per key in iteration order
        items = M.seq_of(ex, a[0])
        g = generic_args(dty or '')
        cell = Cell(new_assoc(g[0] if g else '?', g[1] if len(g) > 1 else '?'))
        for it in items:
            it = ex.materialize(it)
            k, v = ex.field_of(it, None, 0, '?'), ex.field_of(it, None, 1, '?')
            cur = cell.v
            i = find(ex, cur, k)
            if i is None:
                cell.v = cur.set(entries=cur.entries + ((k, Obj('vec', items=(v,), ty='Vec<?>')),))
            else:
                es = list(cur.entries)
                es[i] = (es[i][0], es[i][1].set(items=es[i][1].items + (v,)))
                cell.v = cur.set(entries=tuple(es))
        return cell.v


def register_btree(M):
    """BTreeMap: an association map kept sorted by key.  Keys behind references compare through the referent (`Ord for &T`);
    the ORDER of two different keys comes from the harness (`M.key_order(ex, key)` -> sortable), equality from deep_eq."""
    def referent(ex, k):
        k = ex.materialize(k)
        while isinstance(k, Ref):
            k = ex.materialize(ex.read_path(k.cell, k.path))
        return k

    def btree_from(ex, items, dty):
        g = generic_args(dty or '')
        entries = []
        for it in items:
            it = ex.materialize(it)
            k, v = ex.field_of(it, None, 0, '?'), ex.field_of(it, None, 1, '?')
            for i, (k0, v0) in enumerate(entries):
                if ex.branch(M.deep_eq(ex, referent(ex, k0), referent(ex, k))):
                    entries[i] = (k0, v)          # insert of an equal key keeps the old key, replaces the value
                    break
            else:
                entries.append((k, v))
        order = getattr(M, 'key_order', None)
        if len(entries) > 1:
            if order is None:
                raise Inconclusive('BTreeMap with several keys needs a key order from the harness')
            entries.sort(key=lambda e: order(ex, referent(ex, e[0])))
        return Obj('assoc', kty=g[0] if g else '?', vty=g[1] if len(g) > 1 else '?', entries=tuple(entries), linked=True, btree=True)
    M.btree_from = btree_from
    for meth in ('len', 'is_empty', 'iter', 'values', 'keys', 'pop_front', 'pop_back', 'front', 'back'):
        src = ('HashMap::' + meth) if ('HashMap::' + meth) in M.table else ('LinkedHashMap::' + meth)
        dst = {'pop_front': 'pop_first', 'pop_back': 'pop_last', 'front': 'first_key_value', 'back': 'last_key_value'}.get(meth, meth)
        if src in M.table:
            M.table['BTreeMap::' + dst] = M.table[src]


def register_linked(M):
    for meth in ('get', 'get_mut', 'insert', 'remove', 'contains_key', 'entry', 'iter', 'iter_mut', 'values', 'values_mut', 'len', 'is_empty', 'keys', 'drain'):
        if ('HashMap::' + meth) in M.table:
            M.table['LinkedHashMap::' + meth] = M.table['HashMap::' + meth]
