"""Stage M3 models for one scenario attempt (run_scenario / run_before_hook / run_step / run_after_hook):
future combinators of `futures` (CatchUnwind, AndThen, MapOk, TryFold, stream::iter, StreamExt::map) and user code
as model futures.  A panic in user code is the Python exception `UserPanic`; only `CatchUnwind::poll` catches it -
a panic that escapes to the harness is exactly a panic that would unwind out of the real run.
"""
import re

import z3

from .values import UNIT, Cell, Lazy, Adt, Ref, FnItem, Obj, strip_ref, generic_args, bv, conc
from .interp import Inconclusive, PathEnd
from . import tables as T


re_ws = re.compile(r'\s+')


class UserPanic(Exception):
    def __init__(self, payload, where):
        Exception.__init__(self, 'user panic %s in %s' % (payload, where))
        self.payload = payload
        self.where = where


def register(M):
    reg = M.reg
    log = M.log
    M.UserPanic = UserPanic

    # ---- panic payloads: `Box<dyn Any + Send>` whose content has a TYPE (String / &'static str / anything else).
    # The type is a symbolic choice per payload, decided only if the code asks (`Box::downcast`).
    PTYPES = ['String', "&'static str", 'other']

    def panic_box(ex, tag):
        return Obj('panic_payload', tag=tag, ty=z3.BitVec('payload_type(%s)' % tag, 64))
    M.panic_box = panic_box
    M.PTYPES = PTYPES

    @reg('Box::downcast', '<impl>::downcast')
    def _(ex, info, a, dty):
        b = ex.materialize(a[0])
        if not (isinstance(b, Obj) and b.kind == 'panic_payload'):
            raise Inconclusive('Box::downcast on %r' % (b,))
        want = (info.get('generics') or ['?'])[-1].strip('<>').strip()
        want = re_ws.sub(' ', want)
        idx = 0 if want.endswith('String') else 1 if want.replace("'static ", '') in ('&str', "&'static str") or want == "&'static str" else None
        ex.add(z3.ULT(b.ty, bv(len(PTYPES))))
        if idx is not None and ex.branch(b.ty == bv(idx)):
            boxed = Ref(Cell(Obj('payload_value', tag=b.tag, ty=PTYPES[idx]), name='downcast'), ())
            return Adt(dty or 'Result<Box<T>, Box<dyn Any>>', {(0, 0): boxed}, 0)
        return Adt(dty or 'Result<Box<T>, Box<dyn Any>>', {(1, 0): b}, 1)

    @reg('FutureExt::catch_unwind')
    def _(ex, info, a, dty):
        return Obj('catch_unwind', inner=Cell(a[0]))

    @reg('TryFutureExt::and_then')
    def _(ex, info, a, dty):
        return Obj('and_then', first=Cell(a[0]), f=a[1], second=None)

    @reg('TryFutureExt::map_ok', 'TryFutureExt::map_err', 'FutureExt::map')
    def _(ex, info, a, dty):
        return Obj('fmap', inner=Cell(a[0]), f=a[1], how=info['method'])

    @reg('stream::iter')
    def _(ex, info, a, dty):
        return M.pstream([(0, it) for it in M.seq_of(ex, a[0])])

    orig_smap = M.table.get('StreamExt::map')

    @reg('StreamExt::map')
    def _(ex, info, a, dty):
        s = ex.materialize(a[0])
        if isinstance(s, Obj) and s.kind == 'pstream':
            return s.set(items=tuple((k, ex.call_value(a[1], [v])) for k, v in s.items))
        if orig_smap is not None:
            return orig_smap(ex, info, a, dty)
        return M.uninterpreted(ex, info, a, dty)

    @reg('TryStreamExt::try_fold')
    def _(ex, info, a, dty):
        return Obj('try_fold', stream=Cell(a[0]), acc=a[1], f=a[2], cur=None)

    base_poll = M.table['Future::poll']

    def ok(v):
        return Adt('Result<?, ?>', {(0, 0): v}, 0)

    def err(v):
        return Adt('Result<?, ?>', {(1, 0): v}, 1)

    def poll_user(ex, info, a, dty):
        pin = ex.materialize(a[0])
        cell, path = ex.deref(pin)
        v = ex.read_path(cell, path)
        if isinstance(v, Adt) and T.type_name_hint(v.ty)[0] == 'Pin' and (None, 0) in v.fields:
            cell, path = ex.deref(v)
            v = ex.read_path(cell, path)
        if isinstance(v, Ref):
            cell, path = v.cell, v.path
            v = ex.read_path(cell, path)
        cx = a[1]
        if isinstance(v, Adt) and T.type_name_hint(v.ty)[0] == 'AssertUnwindSafe':
            c = Cell(v.fields[(None, 0)])
            try:
                return M.poll_cell(ex, c, cx, dty)
            finally:
                ex.write_path(cell, path, v.with_field((None, 0), c.v))
        if isinstance(v, Obj) and v.kind == 'catch_unwind':
            try:
                r = ex.materialize(M.poll_cell(ex, v.inner, cx, 'Poll<?>'))
            except UserPanic as p:
                log(ex, 'panic_caught', payload=p.payload, where=p.where)
                return M.poll_ready(dty, err(M.panic_box(ex, p.payload)))
            if ex.branch(M.discr(ex, r) == bv(0)):
                return M.poll_ready(dty, ok(ex.field_of(r, 0, 0, '?')))
            return M.poll_pending(dty)
        if isinstance(v, Obj) and v.kind == 'and_then':
            if v.second is None:
                r = ex.materialize(M.poll_cell(ex, v.first, cx, 'Poll<?>'))
                if not ex.branch(M.discr(ex, r) == bv(0)):
                    return M.poll_pending(dty)
                res = ex.materialize(ex.field_of(r, 0, 0, 'Result'))
                if not ex.branch(M.discr(ex, res) == bv(0)):
                    return M.poll_ready(dty, err(ex.field_of(res, 1, 0, '?')))
                v = v.set(second=Cell(ex.call_value(v.f, [ex.field_of(res, 0, 0, '?')])))
                ex.write_path(cell, path, v)
            return M.poll_cell(ex, v.second, cx, dty)
        if isinstance(v, Obj) and v.kind == 'fmap':
            r = ex.materialize(M.poll_cell(ex, v.inner, cx, 'Poll<?>'))
            if not ex.branch(M.discr(ex, r) == bv(0)):
                return M.poll_pending(dty)
            out = ex.field_of(r, 0, 0, '?')
            if v.how == 'map':
                return M.poll_ready(dty, ex.call_value(v.f, [out]))
            res = ex.materialize(out)
            is_ok = ex.branch(M.discr(ex, res) == bv(0))
            if v.how == 'map_ok':
                return M.poll_ready(dty, ok(ex.call_value(v.f, [ex.field_of(res, 0, 0, '?')])) if is_ok else res)
            return M.poll_ready(dty, res if is_ok else err(ex.call_value(v.f, [ex.field_of(res, 1, 0, '?')])))
        if isinstance(v, Obj) and v.kind == 'try_fold':
            for _ in range(64):
                if v.cur is None:
                    sref = Ref(v.stream, ())
                    r = ex.materialize(M.poll_stream(ex, sref, 'Poll<Option<?>>'))
                    if not ex.branch(M.discr(ex, r) == bv(0)):
                        ex.write_path(cell, path, v)
                        return M.poll_pending(dty)
                    item = ex.materialize(ex.field_of(r, 0, 0, 'Option'))
                    if not ex.branch(M.discr(ex, item) == bv(1)):
                        ex.write_path(cell, path, v)
                        return M.poll_ready(dty, ok(v.acc))
                    res = ex.materialize(ex.field_of(item, 1, 0, 'Result'))
                    if not ex.branch(M.discr(ex, res) == bv(0)):
                        return M.poll_ready(dty, err(ex.field_of(res, 1, 0, '?')))
                    v = v.set(cur=Cell(ex.call_value(v.f, [v.acc, ex.field_of(res, 0, 0, '?')])))
                r = ex.materialize(M.poll_cell(ex, v.cur, cx, 'Poll<?>'))
                if not ex.branch(M.discr(ex, r) == bv(0)):
                    ex.write_path(cell, path, v)
                    return M.poll_pending(dty)
                res = ex.materialize(ex.field_of(r, 0, 0, 'Result'))
                if not ex.branch(M.discr(ex, res) == bv(0)):
                    ex.write_path(cell, path, v.set(cur=None))
                    return M.poll_ready(dty, err(ex.field_of(res, 1, 0, '?')))
                v = v.set(cur=None, acc=ex.field_of(res, 0, 0, '?'))
            raise PathEnd('loopbound', 'try_fold')
        return base_poll(ex, info, [pin, a[1]], dty)
    for k in ('Future::poll', 'TryFuture::try_poll', 'FutureExt::poll_unpin'):
        M.table[k] = poll_user

    def user_future(what, pending, outcome, value=UNIT, on_done=None):
        """model of a future returned by user code: Pending `pending` polls, then Ok / Err / panic"""
        def poll(ex, cell, path, v, cx, dty):
            st = v.d
            if st['left'] > 0:
                ex.write_path(cell, path, v.set(left=st['left'] - 1))
                log(ex, 'user_pending', what=what)
                return M.poll_pending(dty)
            if outcome == 'panic':
                log(ex, 'user_panics', what=what, hook=ex.env.get('panic_hook'))
                raise UserPanic(what, 'poll')
            if on_done is not None:
                on_done(ex)
            log(ex, 'user_done', what=what)
            return M.poll_ready(dty, value(ex) if callable(value) else value)
        return Obj('pyfut', poll=poll, left=pending, what=what)
    M.user_future = user_future
