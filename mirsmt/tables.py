"""Type tables re-extracted from Rust *sources* on every run.

MIR text names enum variants in downcasts (`as Failed`) but numbers them in
`switchInt` / `discriminant(..) = n`, and names struct fields in aggregates
(`Stats { passed: .. }`) but numbers them in projections (`.0`).  The
declaration order in the source gives the mapping.  Also: the Self type / trait
of every `impl` block by source location, to resolve MIR callee paths
(`Summarize::<W>::handle_step`) to bodies (`summarize::<impl at f.rs:322:1: ..>::handle_step`).
"""
import glob
import os
import re


def strip_comments(src):
    out, i, n = [], 0, len(src)
    while i < n:
        c = src[i]
        if src.startswith('//', i):
            j = src.find('\n', i)
            j = n if j == -1 else j
            out.append(' ' * (j - i))
            i = j
        elif src.startswith('/*', i):
            j = src.find('*/', i + 2)
            j = n if j == -1 else j + 2
            out.append(re.sub(r'[^\n]', ' ', src[i:j]))
            i = j
        elif c == '"':
            j = i + 1
            while j < n and src[j] != '"':
                if src[j] == '\\':
                    j += 1
                j += 1
            lit = src[i + 1:j]
            keep = re.fullmatch(r'[A-Za-z0-9_\-]{1,24}', lit) is not None
            out.append('"' + (lit if keep else re.sub(r'[^\n]', ' ', lit)) + '"')
            i = j + 1
        elif c == 'r' and re.match(r'r#*"', src[i:i + 6]) and (i == 0 or not (src[i - 1].isalnum() or src[i - 1] == '_')):
            m = re.match(r'r(#*)"', src[i:])
            end = '"' + m.group(1)
            j = src.find(end, i + len(m.group(0)))
            j = n if j == -1 else j + len(end)
            out.append(re.sub(r'[^\n]', ' ', src[i:j]))
            i = j
        elif c == "'" and i + 2 < n and (src[i + 2] == "'" or src[i + 1] == '\\'):
            j = src.find("'", i + 2)
            out.append(re.sub(r'[^\n]', ' ', src[i:j + 1]))
            i = j + 1
        else:
            out.append(c)
            i += 1
    return ''.join(out)


def _match(src, i, o='{', c='}'):
    d = 0
    for j in range(i, len(src)):
        if src[j] == o:
            d += 1
        elif src[j] == c:
            if c == '>' and j > 0 and src[j - 1] in '-=':
                continue        # `->` / `=>` are not closing angle brackets
            d -= 1
            if d == 0:
                return j
    return -1


def _split_top(s):
    out, d, cur = [], 0, []
    prev = ''
    for ch in s:
        if ch in '([{<':
            d += 1
        elif ch in ')]}':
            d -= 1
        elif ch == '>' and prev not in '-=':
            d -= 1
        if ch == ',' and d == 0:
            out.append(''.join(cur))
            cur = []
        else:
            cur.append(ch)
        prev = ch
    if ''.join(cur).strip():
        out.append(''.join(cur))
    return out


ENABLED_FEATURES = {'default', 'macros'}


def _strip_attrs(s):
    """Strip leading attributes; return '' if a #[cfg(feature = "x")] disables the item
    (string literals were blanked by strip_comments, so the feature name is read from the raw text)."""
    s = s.strip()
    while s.startswith('#'):
        k = s.index('[')
        j = _match(s, k, '[', ']')
        attr = s[k + 1:j]
        m = re.match(r'\s*cfg\s*\((.*)\)\s*$', attr, re.S)
        if m:
            c = m.group(1).strip()
            neg = False
            mm = re.match(r'not\s*\((.*)\)\s*$', c, re.S)
            if mm:
                neg, c = True, mm.group(1).strip()
            fm = re.match(r'feature\s*=\s*"([^"]*)"', c)
            if fm:
                on = fm.group(1) in ENABLED_FEATURES
                if on == neg:
                    return ''
        s = s[j + 1:].strip()
    return s


class Tables:
    def __init__(self):
        self.enums = {}     # name -> [ (variant, nfields, fieldnames or None) ]
        self.structs = {}   # name -> [fieldname, ...] (named) or int (tuple arity)
        self.impls = {}     # (file, line) -> (selftype, trait or None)
        self.aliases = {}       # type alias name -> last ident of its target
        self.alias_full = {}    # type alias name -> full target text
        self.struct_field_types = {}   # (struct name, file) -> {field: type text}
        self.enum_decls = {}    # name -> [(file, variants)]
        self.struct_decls = {}  # name -> [(file, fieldnames | arity)]
        self._std()

    def _std(self):
        self.enums['Option'] = [('None', 0, None), ('Some', 1, None)]
        self.enums['Result'] = [('Ok', 1, None), ('Err', 1, None)]
        self.enums['Poll'] = [('Ready', 1, None), ('Pending', 0, None)]
        self.enums['ControlFlow'] = [('Continue', 1, None), ('Break', 1, None)]
        self.enums['Either'] = [('Left', 1, None), ('Right', 1, None)]
        self.enums['Ordering'] = [('Less', 0, None), ('Equal', 0, None), ('Greater', 0, None)]
        self.enums['Cow'] = [('Borrowed', 1, None), ('Owned', 1, None)]
        self.enums['Entry'] = [('Occupied', 1, None), ('Vacant', 1, None)]
        self.enums['MaybeDone'] = [('Future', 1, None), ('Done', 1, None), ('Gone', 0, None)]

    def add_source(self, path, rel=None):
        try:
            raw = open(path, encoding='utf-8').read()
        except OSError:
            return
        src = strip_comments(raw)
        rel = rel or path
        for m in re.finditer(r'\benum\s+([A-Za-z_]\w*)', src):
            k = src.find('{', m.end())
            semi = src.find(';', m.end())
            if k == -1 or (semi != -1 and semi < k):
                continue
            j = _match(src, k)
            variants = []
            for part in _split_top(src[k + 1:j]):
                part = _strip_attrs(part)
                if not part:
                    continue
                vm = re.match(r'([A-Za-z_]\w*)\s*(.*)$', part, re.S)
                if not vm:
                    continue
                name, rest = vm.group(1), vm.group(2).strip()
                if rest.startswith('('):
                    e = _match(rest, 0, '(', ')')
                    nf = len([p for p in _split_top(rest[1:e]) if p.strip()])
                    variants.append((name, nf, None))
                elif rest.startswith('{'):
                    e = _match(rest, 0)
                    names = []
                    for p in _split_top(rest[1:e]):
                        p = _strip_attrs(p)
                        fm = re.match(r'(?:pub(?:\([^)]*\))?\s+)?(?:r#)?([A-Za-z_]\w*)\s*:', p)
                        if fm:
                            names.append(fm.group(1))
                    variants.append((name, len(names), names))
                else:
                    variants.append((name, 0, None))
            self.enum_decls.setdefault(m.group(1), []).append((rel, variants))
        for m in re.finditer(r'\bstruct\s+([A-Za-z_]\w*)', src):
            rest_i = m.end()
            # skip generics
            k = rest_i
            while k < len(src) and src[k] not in '{(;':
                if src[k] == '<':
                    k = _match(src, k, '<', '>')
                k += 1
            if k >= len(src) or src[k] == ';':
                self.struct_decls.setdefault(m.group(1), []).append((rel, []))
                continue
            if src[k] == '(':
                e = _match(src, k, '(', ')')
                self.struct_decls.setdefault(m.group(1), []).append((rel, len([p for p in _split_top(src[k + 1:e]) if p.strip()])))
                continue
            e = _match(src, k)
            names, ftypes = [], {}
            for p in _split_top(src[k + 1:e]):
                p = _strip_attrs(p)
                fm = re.match(r'(?:pub(?:\([^)]*\))?\s+)?(?:r#)?([A-Za-z_]\w*)\s*:', p)
                if fm:
                    names.append(fm.group(1))
                    ftypes[fm.group(1)] = re.sub(r'\s+', ' ', p[fm.end():].strip())
            self.struct_decls.setdefault(m.group(1), []).append((rel, names))
            self.struct_field_types.setdefault((m.group(1), rel), {}).update(ftypes)
        for m in re.finditer(r'\btype\s+([A-Za-z_]\w*)\s*(?:<[^=;]*>)?\s*=\s*([^;]+);', src):
            self.aliases.setdefault(m.group(1), _last_ident(m.group(2)))
            self.alias_full.setdefault(m.group(1), m.group(2))
        # impl headers by line
        lines_off = [0]
        for ln in src.split('\n'):
            lines_off.append(lines_off[-1] + len(ln) + 1)
        for m in re.finditer(r'(?m)^[ \t]*(?:unsafe\s+)?impl\b', src):
            k = src.find('{', m.end())
            if k == -1:
                continue
            header = src[m.end():k]
            line = src.count('\n', 0, m.start()) + 1
            col = m.start() - src.rfind('\n', 0, m.start())
            h = header.strip()
            if h.startswith('<'):
                h = h[_match(h, 0, '<', '>') + 1:].strip()
            wh = re.search(r'\bwhere\b', h)
            if wh:
                h = h[:wh.start()]
            trait = None
            fm = re.search(r'\bfor\b(?!\s*<)', h)
            if fm:
                trait = h[:fm.start()].strip()
                h = h[fm.end():].strip()
            self.impls[(rel, line)] = (_last_ident(h), _last_ident(trait) if trait else None)
        # derive-generated impls are named by the location of the trait ident inside #[derive(..)]
        for m in re.finditer(r'#\s*\[\s*derive\s*\(', src):
            k = m.end() - 1
            e = _match(src, k, '(', ')')
            if e == -1:
                continue
            # the item the attribute is attached to
            tm = re.compile(r'\b(?:struct|enum|union)\s+([A-Za-z_]\w*)').search(src, e)
            if not tm:
                continue
            for im in re.finditer(r'[A-Za-z_][\w:]*', src[k + 1:e]):
                pos = k + 1 + im.start()
                line = src.count('\n', 0, pos) + 1
                col = pos - src.rfind('\n', 0, pos)
                self.impls[(rel, line, col)] = (tm.group(1), im.group(0).split('::')[-1])

    @staticmethod
    def _pick(decls, hint, segs=None):
        if not decls:
            return None
        if segs and len(segs) > 1:
            # prefer the declaration whose file path ends with the longest suffix of the module path
            best, bestn = [], 0
            for d in decls:
                parts = re.sub(r'\.rs$', '', d[0]).split('/')
                if parts and parts[-1] in ('mod', 'lib'):
                    parts = parts[:-1]
                n = 0
                while n < len(segs) and n < len(parts) and segs[-1 - n] == parts[-1 - n]:
                    n += 1
                if n > bestn:
                    best, bestn = [d], n
                elif n == bestn and n > 0:
                    best.append(d)
            if len(best) == 1:
                return best[0][1]
        if hint:
            c = [d for d in decls if re.search(r'(^|/|-)%s(\.rs|/|-\d)' % re.escape(hint), d[0]) or d[0].startswith(hint)]
            if len(c) == 1:
                return c[0][1]
            if not c:
                return None
            decls = c
        c = [d for d in decls if d[0].startswith('src/')]
        if len(c) == 1:
            return c[0][1]
        if len(decls) == 1:
            return decls[0][1]
        return None

    def enum_variants(self, ty):
        """Variants of the enum type `ty` (MIR type text), or None if `ty` is not a known enum."""
        name, hint = type_name_hint(ty)
        if name in self.enums and (hint in (None, 'option', 'result', 'task', 'ops', 'poll', 'cmp', 'borrow', 'hash_map', 'itertools', 'either', 'future', 'futures', 'std', 'core')):
            return self.enums[name]
        return self._pick(self.enum_decls.get(name), hint, type_path(ty))

    def struct_fields(self, ty):
        name, hint = type_name_hint(ty)
        return self._pick(self.struct_decls.get(name), hint, type_path(ty))


def field_types(tables, name, file_hint):
    """{field: type text} of the struct `name` declared in a file whose path contains `file_hint`"""
    for (n, rel), d in tables.struct_field_types.items():
        if n == name and file_hint in rel:
            return d
    return None


def skeleton(tables, t):
    """Type text with aliases expanded, module paths / lifetimes / references / generic-parameter names of aliases
    dropped: used to tell apart impls written on different instantiations of one generic type through aliases."""
    t = re.sub(r'//[^\n]*', '', t)
    for _ in range(8):
        changed = False
        for a, full in tables.alias_full.items():
            m = re.search(r'\b%s\b' % re.escape(a), t)
            while m:
                e = m.end()
                k = e
                while k < len(t) and t[k] == ' ':
                    k += 1
                if k < len(t) and t[k] == '<':
                    e = _match(t, k, '<', '>') + 1
                t = t[:m.start()] + full + t[e:]
                changed = True
                m = re.search(r'\b%s\b' % re.escape(a), t)
        if not changed:
            break
    t = t.replace('::<', '<')
    t = re.sub(r"'\w+", '', t)
    t = re.sub(r'\bmut\b|&|\bdyn\b', '', t)
    t = re.sub(r'(\w+::)+', '', t)
    t = re.sub(r'\s+', '', t)
    return t


def _last_ident(t):
    """Last path segment of a type, generics stripped: `event::Source<Foo>` -> Source; `&mut X<T>` -> X."""
    t = t.strip()
    t = re.sub(r"^(&\s*('\w+\s+)?(mut\s+)?|\*const\s+|\*mut\s+|dyn\s+)+", '', t)
    out, d = [], 0
    prev = ''
    for ch in t:
        if ch == '<':
            d += 1
        elif ch == '>' and prev not in '-=':
            d -= 1
        elif d == 0:
            out.append(ch)
        prev = ch
    s = ''.join(out).strip()
    s = s.split('::')[-1].strip()
    m = re.match(r'[A-Za-z_]\w*', s)
    return m.group(0) if m else s


def type_name_hint(ty):
    """`event::Step<W>` -> ('Step', 'event');  `&mut Retries` -> ('Retries', None)."""
    t = ty.strip()
    t = re.sub(r"^(&\s*('\w+\s+)?(mut\s+)?|\*const\s+|\*mut\s+|dyn\s+)+", '', t)
    out, d, prev = [], 0, ''
    for ch in t:
        if ch == '<':
            d += 1
        elif ch == '>' and prev not in '-=':
            d -= 1
        elif d == 0:
            out.append(ch)
        prev = ch
    segs = [x.strip() for x in ''.join(out).split('::') if x.strip()]
    if not segs:
        return ty, None
    return segs[-1], (segs[-2] if len(segs) > 1 else None)


def type_path(ty):
    """module path segments of a type text, the type's own name excluded: `runner::basic::Cli` -> ['runner', 'basic']"""
    t = ty.strip()
    t = re.sub(r"^(&\s*('\w+\s+)?(mut\s+)?|\*const\s+|\*mut\s+|dyn\s+)+", '', t)
    out, d, prev = [], 0, ''
    for ch in t:
        if ch == '<':
            d += 1
        elif ch == '>' and prev not in '-=':
            d -= 1
        elif d == 0:
            out.append(ch)
        prev = ch
    segs = [x.strip() for x in ''.join(out).split('::') if x.strip()]
    return segs[:-1]


def build(repo_root):
    t = Tables()
    reg = glob.glob(os.path.expanduser('~/.cargo/registry/src/*/'))
    for r in reg:
        for crate in ('gherkin-0.14.0', 'futures-util-0.3.34'):
            for p in glob.glob(os.path.join(r, crate, 'src', '**', '*.rs'), recursive=True):
                if crate.startswith('futures') and not p.endswith(('maybe_done.rs', 'either.rs')):
                    continue
                t.add_source(p, rel=crate + '/' + os.path.relpath(p, os.path.join(r, crate)))
    for p in sorted(glob.glob(os.path.join(repo_root, 'src', '**', '*.rs'), recursive=True)):
        t.add_source(p, rel=os.path.relpath(p, repo_root))
    return t


if __name__ == '__main__':
    import sys
    t = build(sys.argv[1])
    for k in ('event::Step<W>', 'gherkin::Step', 'event::Scenario<W>', 'Indicator', 'StepError', 'Hook<W>', 'ExecutionFailure<W>', 'ScenarioType', 'gherkin::StepType', 'TagOperation', 'event::Feature<W>', 'std::option::Option<usize>', 'Poll<()>', 'FinishedState', 'gherkin::Feature'):
        print(k, t.enum_variants(k))
    for k in ('summarize::Stats', 'Summarize<W>', 'Retries', 'gherkin::Step', 'RetryOptions'):
        print(k, t.struct_fields(k))
