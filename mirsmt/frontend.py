"""Front end: MIR of /repo's *current working tree*, regenerated on every run.

The tree is copied to a scratch directory outside /repo and /verif, compiled
with the stock nightly compiler (`-Zunpretty=mir`, overflow checks on), and the
text parsed.  A content-hash keyed cache under $VERIF_CACHE (default
/var/tmp/cuke-verif-cache) only avoids recompiling an identical tree when
several checks run back to back; it is never required and is safe to delete.
"""
import fcntl
import hashlib
import os
import shutil
import subprocess
import time

from . import mirparse, tables
from .interp import Program

REPO = os.environ.get('VERIF_REPO', '/repo')
CACHE = os.environ.get('VERIF_CACHE', '/var/tmp/cuke-verif-cache')
KEEP = 6


def tree_hash(repo):
    h = hashlib.sha256()
    roots = ['src', 'codegen/src', 'Cargo.toml', 'Cargo.lock', 'codegen/Cargo.toml']
    files = []
    for r in roots:
        p = os.path.join(repo, r)
        if os.path.isfile(p):
            files.append(p)
        else:
            for d, _, fs in os.walk(p):
                for f in fs:
                    files.append(os.path.join(d, f))
    for f in sorted(files):
        h.update(os.path.relpath(f, repo).encode())
        h.update(b'\0')
        with open(f, 'rb') as fh:
            h.update(fh.read())
        h.update(b'\0')
    return h.hexdigest()[:24]


def dump_mir(repo=REPO):
    """-> (mir_text, meta)"""
    os.makedirs(CACHE, exist_ok=True)
    key = tree_hash(repo)
    out = os.path.join(CACHE, 'mir-%s.txt' % key)
    meta = {'tree_hash': key, 'cached': False, 'compile_s': 0.0}
    lock = open(os.path.join(CACHE, 'lock'), 'w')
    fcntl.flock(lock, fcntl.LOCK_EX)
    try:
        if os.path.exists(out) and os.path.getsize(out) > 100000:
            meta['cached'] = True
            return open(out).read(), meta
        src = os.path.join(CACHE, 'src')
        tgt = os.path.join(CACHE, 'target')
        os.makedirs(src, exist_ok=True)
        subprocess.run(['rsync', '-a', '--delete', '--exclude', 'target', '--exclude', '.git', '--exclude', 'book',
                        repo.rstrip('/') + '/', src + '/'], check=True)
        os.utime(os.path.join(src, 'src', 'lib.rs'), None)
        env = dict(os.environ)
        env['CARGO_NET_OFFLINE'] = 'true'
        env.pop('RUSTFLAGS', None)
        t0 = time.time()
        cmd = ['cargo', '+nightly', 'rustc', '--offline', '--lib', '--target-dir', tgt, '--', '-Zunpretty=mir',
               '-C', 'debug-assertions=off', '-C', 'overflow-checks=on', '--cap-lints', 'warn']
        p = subprocess.run(cmd, cwd=src, env=env, stdout=subprocess.PIPE, stderr=subprocess.PIPE, text=True)
        meta['compile_s'] = round(time.time() - t0, 1)
        meta['cmd'] = ' '.join(cmd)
        if p.returncode != 0 or len(p.stdout) < 100000:
            raise RuntimeError('MIR dump failed (rc=%s):\n%s' % (p.returncode, p.stderr[-3000:]))
        tmp = out + '.tmp%d' % os.getpid()
        with open(tmp, 'w') as f:
            f.write(p.stdout)
        os.replace(tmp, out)
        # prune old dumps
        dumps = sorted((f for f in os.listdir(CACHE) if f.startswith('mir-')), key=lambda f: os.path.getmtime(os.path.join(CACHE, f)))
        for f in dumps[:-KEEP]:
            os.remove(os.path.join(CACHE, f))
        return p.stdout, meta
    finally:
        fcntl.flock(lock, fcntl.LOCK_UN)
        lock.close()


def load(repo=REPO):
    text, meta = dump_mir(repo)
    t0 = time.time()
    bodies = mirparse.parse_mir(text)
    tb = tables.build(repo)
    prog = Program(bodies, tb)
    meta['parse_s'] = round(time.time() - t0, 2)
    meta['mir_lines'] = text.count('\n')
    meta['bodies'] = sum(len(v) for v in bodies.values())
    return prog, meta
