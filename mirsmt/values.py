"""Value domain of the MIR symbolic executor.

All aggregate values are immutable; writes are functional updates from the root
cell.  Scalars are z3 terms (BitVec of the real width, Bool).
"""
import re
import z3

from .mirparse import split_top, match_close

INT_BITS = {'usize': 64, 'isize': 64, 'u64': 64, 'i64': 64, 'u32': 32, 'i32': 32, 'u16': 16, 'i16': 16,
            'u8': 8, 'i8': 8, 'u128': 128, 'i128': 128, 'char': 32}
SIGNED = {'isize', 'i64', 'i32', 'i16', 'i8', 'i128'}


class Unit:
    def __repr__(self):
        return '()'


UNIT = Unit()


class Cell:
    """A mutable memory cell (a frame local, a heap box, the pointee of a symbolic reference)."""
    _n = 0

    def __init__(self, v=None, name=None):
        Cell._n += 1
        self.id = Cell._n
        self.v = v
        self.name = name

    def __repr__(self):
        return '<Cell %s %s>' % (self.id, self.name or '')


class Uninit:
    def __repr__(self):
        return '<uninit>'


UNINIT = Uninit()


class Lazy:
    """An unconstrained symbolic value of type `ty`, materialised on demand.
    Leaf names are derived from `name`, so re-materialisation is deterministic."""
    __slots__ = ('ty', 'name')

    def __init__(self, ty, name):
        self.ty = ty
        self.name = name

    def __repr__(self):
        return '<Lazy %s: %s>' % (self.name, self.ty[:40])


class Adt:
    """struct / tuple / closure / enum / coroutine value.
    fields: dict (variant|None, idx) -> value.  discr: None | int | z3 BV64.
    name: base name for fields not present (they are Lazy), or None if complete."""
    __slots__ = ('ty', 'name', 'discr', 'fields')

    def __init__(self, ty, fields=None, discr=None, name=None):
        self.ty = ty
        self.fields = fields or {}
        self.discr = discr
        self.name = name

    def with_field(self, key, v):
        f = dict(self.fields)
        f[key] = v
        return Adt(self.ty, f, self.discr, self.name)

    def with_discr(self, d):
        return Adt(self.ty, self.fields, d, self.name)

    def __repr__(self):
        return '<Adt %s d=%s %s>' % (self.ty[:30], self.discr, {k: v for k, v in self.fields.items()})


class Ref:
    """Reference / Box / Arc: a cell plus a projection path inside the cell's value.
    pid: z3 BV64 pointer identity (for Arc::ptr_eq / hashing by address)."""
    __slots__ = ('cell', 'path', 'pid')

    def __init__(self, cell, path=(), pid=None):
        self.cell = cell
        self.path = tuple(path)
        self.pid = pid

    def __repr__(self):
        return '<Ref %r %r>' % (self.cell, self.path)


class FnItem:
    __slots__ = ('text',)

    def __init__(self, text):
        self.text = text

    def __repr__(self):
        return '<fn %s>' % self.text[:60]


class Obj:
    """Model object (map, vec, channel, ...) - immutable; `kind` selects the model."""
    __slots__ = ('kind', 'd')

    def __init__(self, kind, **d):
        self.kind = kind
        self.d = d

    def set(self, **kw):
        d = dict(self.d)
        d.update(kw)
        return Obj(self.kind, **d)

    def __getattr__(self, k):
        try:
            return self.d[k]
        except KeyError:
            raise AttributeError(k)

    def __repr__(self):
        return '<Obj %s %s>' % (self.kind, list(self.d))


# ---------------------------------------------------------------- types

def strip_ref(ty):
    """`&'a mut T` -> T ; `Box<T>` -> T; returns None if not a pointer-like type."""
    t = ty.strip()
    m = re.match(r"&\s*('\w+\s+)?(mut\s+)?", t)
    if m:
        return t[m.end():].strip()
    m = re.match(r'\*(const|mut)\s+', t)
    if m:
        return t[m.end():].strip()
    for pre in ('Box<', 'std::boxed::Box<', 'Pin<', 'std::pin::Pin<', 'Arc<', 'std::sync::Arc<', 'Rc<'):
        if t.startswith(pre) and t.endswith('>'):
            inner = t[len(pre):-1]
            return split_top(inner)[0].strip()
    return None


def generic_args(ty):
    """`HashMap<K, V>` -> ['K', 'V'] (top-level generic args of the last path segment)."""
    t = ty.strip()
    k = t.find('<')
    if k == -1 or not t.endswith('>'):
        return []
    # find the '<' matching the final '>'
    depth = 0
    for i in range(len(t) - 1, -1, -1):
        c = t[i]
        if c == '>' and not (i > 0 and t[i - 1] in '-='):
            depth += 1
        elif c == '<':
            depth -= 1
            if depth == 0:
                return [a.strip() for a in split_top(t[i + 1:-1]) if a.strip()]
    return []


def tuple_elems(ty):
    t = ty.strip()
    if t.startswith('(') and t.endswith(')') and match_close(t, 0) == len(t) - 1:
        return [a.strip() for a in split_top(t[1:-1]) if a.strip()]
    return None


def is_scalar(ty):
    t = ty.strip()
    return t in INT_BITS or t == 'bool' or t in TIME_TYPES


TIME_TYPES = {'std::time::Duration', 'Duration', 'std::time::Instant', 'Instant'}


def sort_of(ty):
    t = ty.strip()
    if t == 'bool':
        return z3.BoolSort()
    if t in INT_BITS:
        return z3.BitVecSort(INT_BITS[t])
    if t in TIME_TYPES:
        return z3.BitVecSort(64)      # abstract nanoseconds (Duration) / abstract monotone clock reading (Instant)
    return None


def bv(n, bits=64):
    return z3.BitVecVal(n, bits)


def is_concrete(x):
    return z3.is_bv_value(x) or z3.is_true(x) or z3.is_false(x)


def conc(x):
    """python value of a concrete z3 scalar, else None."""
    if z3.is_bv_value(x):
        return x.as_long()
    if z3.is_true(x):
        return True
    if z3.is_false(x):
        return False
    return None
