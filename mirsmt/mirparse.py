"""Parser for `rustc -Zunpretty=mir` text (rustc 1.97 nightly).

Produces Body objects with blocks of statements / terminators in a small
tuple-based AST.  Anything the parser does not understand becomes an
('unknown', text) node; the interpreter turns reaching such a node on a
feasible path into an *inconclusive* verdict, never a pass.
"""
import hashlib
import re

OPEN = {'(': ')', '[': ']', '{': '}', '<': '>'}
CLOSE = {v: k for k, v in OPEN.items()}


def _skip_lit(s, i):
    """If s[i] starts a string or char literal return the index just past it, else i."""
    n = len(s)
    c = s[i]
    if c == '"':
        j = i + 1
        while j < n and s[j] != '"':
            if s[j] == '\\':
                j += 1
            j += 1
        return j + 1
    if c == "'":
        if i + 2 < n and s[i + 1] != '\\' and s[i + 2] == "'":
            return i + 3
        if i + 1 < n and s[i + 1] == '\\':
            j = s.find("'", i + 3)
            if j != -1 and j - i <= 12:
                return j + 1
    return i


def split_top(s, sep=','):
    """Split s at separator `sep` occurring at bracket depth 0 (outside strings)."""
    out, depth, cur, i, n = [], 0, [], 0, len(s)
    while i < n:
        c = s[i]
        if c in '"\'':
            j = _skip_lit(s, i)
            if j != i:
                cur.append(s[i:j])
                i = j
                continue
        if c in '([{':
            depth += 1
        elif c in ')]}':
            depth -= 1
        elif c == '<':
            # generic bracket unless it is a comparison (never in MIR operands)
            depth += 1
        elif c == '>':
            if i > 0 and s[i - 1] in '-=':
                pass  # '->' / '=>'
            else:
                depth -= 1
        if depth == 0 and s.startswith(sep, i):
            out.append(''.join(cur))
            cur = []
            i += len(sep)
            continue
        cur.append(c)
        i += 1
    out.append(''.join(cur))
    return out


def find_top(s, sep, start=0, last=False):
    """Index of sep at depth 0 (first, or last when last=True); -1 if none."""
    depth, i, n, found = 0, 0, len(s), -1
    while i < n:
        c = s[i]
        if c in '"\'':
            j = _skip_lit(s, i)
            if j != i:
                i = j
                continue
        if depth == 0 and i >= start and s.startswith(sep, i):
            if not last:
                return i
            found = i
        if c in '([{<':
            depth += 1
        elif c in ')]}':
            depth -= 1
        elif c == '>' and not (i > 0 and s[i - 1] in '-='):
            depth -= 1
        i += 1
    return found


def match_close(s, i):
    """s[i] is an opening bracket; return index of its matching close."""
    depth, n = 0, len(s)
    j = i
    while j < n:
        c = s[j]
        if c in '"\'':
            k = _skip_lit(s, j)
            if k != j:
                j = k
                continue
        if c in '([{<':
            depth += 1
        elif c in ')]}':
            depth -= 1
        elif c == '>' and not (j > 0 and s[j - 1] in '-='):
            depth -= 1
        if depth == 0:
            return j
        j += 1
    raise ValueError('unbalanced: ' + s[i:i + 80])


class Body:
    def __init__(self, name, header):
        self.name = name
        self.header = header
        self.params = []      # [(local, type)]
        self.ret_type = None
        self.locals = {}      # n -> type
        self.blocks = {}      # n -> Block
        self.promoted = {}    # idx -> Body
        self.ctfe = False
        self.text = []
        self.debug = {}       # name -> place text

    @property
    def sha(self):
        return hashlib.sha256('\n'.join(self.text).encode()).hexdigest()[:16]

    def __repr__(self):
        return '<Body %s>' % self.name


class Block:
    __slots__ = ('stmts', 'term', 'cleanup')

    def __init__(self, cleanup):
        self.stmts = []
        self.term = None
        self.cleanup = cleanup


# --------------------------------------------------------------- places

def parse_place(s):
    """Return (local, [proj...])."""
    s = s.strip()
    pl, rest = _place(s, 0)
    if rest != len(s):
        raise ValueError('trailing in place: %r' % s)
    return pl


def _place(s, i):
    n = len(s)
    if s[i] == '_':
        m = re.compile(r'_(\d+)').match(s, i)
        base = (int(m.group(1)), [])
        i = m.end()
    elif s[i] == '(':
        j = match_close(s, i)
        inner = s[i + 1:j]
        base = _paren_place(inner)
        i = j + 1
    else:
        raise ValueError('bad place: %r' % s[i:])
    # postfix [..]
    while i < n and s[i] == '[':
        j = match_close(s, i)
        idx = s[i + 1:j].strip()
        local, proj = base
        proj = list(proj)
        m = re.fullmatch(r'_(\d+)', idx)
        if m:
            proj.append(('index', int(m.group(1))))
        else:
            m = re.fullmatch(r'(-?)(\d+) of (\d+)', idx)
            if m:
                proj.append(('constindex', int(m.group(2)), int(m.group(3)), m.group(1) == '-'))
            else:
                proj.append(('subslice', idx))
        base = (local, proj)
        i = j + 1
    return base, i


def _paren_place(inner):
    inner = inner.strip()
    if inner.startswith('*'):
        (local, proj), k = _place(inner, 1)
        if k != len(inner):
            raise ValueError('bad deref: %r' % inner)
        return (local, proj + [('deref',)])
    (local, proj), k = _place(inner, 0)
    rest = inner[k:]
    if rest.startswith(' as '):
        v = rest[4:].strip()
        m = re.fullmatch(r'variant#(\d+)', v)
        return (local, proj + [('downcast', int(m.group(1)) if m else v)])
    if rest.startswith('.'):
        m = re.match(r'\.(\d+): ', rest)
        if not m:
            raise ValueError('bad field: %r' % inner)
        return (local, proj + [('field', int(m.group(1)), rest[m.end():].strip())])
    if rest == '':
        return (local, proj)
    raise ValueError('bad paren place: %r' % inner)


# --------------------------------------------------------------- operands

def parse_operand(s):
    s = s.strip()
    if s.startswith('copy '):
        return ('copy', parse_place(s[5:]))
    if s.startswith('move '):
        return ('move', parse_place(s[5:]))
    if s.startswith('const '):
        return ('const', s[6:].strip())
    if re.match(r'[A-Za-z_<{]', s):
        return ('const', s)   # bare fn item / path constant
    raise ValueError('bad operand %r' % s)


BINOPS = {'Add', 'Sub', 'Mul', 'Div', 'Rem', 'BitXor', 'BitAnd', 'BitOr', 'Shl', 'Shr',
          'Eq', 'Lt', 'Le', 'Ne', 'Ge', 'Gt', 'Cmp', 'Offset',
          'AddWithOverflow', 'SubWithOverflow', 'MulWithOverflow',
          'AddUnchecked', 'SubUnchecked', 'MulUnchecked', 'ShlUnchecked', 'ShrUnchecked'}
UNOPS = {'Not', 'Neg', 'PtrMetadata'}


def parse_rvalue(s):
    s = s.strip()
    try:
        return _rvalue(s)
    except Exception as e:  # noqa
        return ('unknown', s, str(e))


def _rvalue(s):
    if s.startswith('no_retag '):
        s = s[9:]
    if s.startswith('&raw '):
        rest = s[5:]
        mut = rest.startswith('mut ')
        rest = rest[4:] if mut else rest[6:]
        return ('rawptr', mut, parse_place(rest))
    if s.startswith('&'):
        rest = s[1:]
        for pre in ('mut ', 'fake shallow ', 'fake '):
            if rest.startswith(pre):
                return ('ref', pre == 'mut ', parse_place(rest[len(pre):]))
        return ('ref', False, parse_place(rest))
    if s.startswith(('copy ', 'move ', 'const ')):
        k = find_top(s, ' as ', last=True)
        if k != -1 and s.endswith(')') and not s.startswith('const '):
            body = s[k + 4:]
            p = body.rfind(' (')
            # cast kind is the last parenthesised group
            j = len(body) - 1
            depth = 0
            while j >= 0:
                if body[j] == ')':
                    depth += 1
                elif body[j] == '(':
                    depth -= 1
                    if depth == 0:
                        break
                j -= 1
            return ('cast', parse_operand(s[:k]), body[:j].strip(), body[j + 1:-1])
        if s.startswith('const ') and k != -1 and re.search(r'\((IntToInt|Transmute|PtrToPtr|PointerCoercion[^)]*\)?|FloatToInt|IntToFloat)\)$', s):
            body = s[k + 4:]
            j = body.rfind(' (')
            return ('cast', parse_operand(s[:k]), body[:j].strip(), body[j + 2:-1])
        return ('use', parse_operand(s))
    if s.endswith(')') and re.search(r' \((PointerCoercion\(.*\)|IntToInt|Transmute|PtrToPtr|Subtype|FnPtrToPtr|PointerExposeProvenance|PointerWithExposedProvenance)\)$', s):
        k = find_top(s, ' as ', last=True)
        if k != -1:
            body = s[k + 4:]
            j, depth = len(body) - 1, 0
            while j >= 0:
                if body[j] == ')':
                    depth += 1
                elif body[j] == '(':
                    depth -= 1
                    if depth == 0:
                        break
                j -= 1
            return ('cast', parse_operand(s[:k]), body[:j].strip(), body[j + 1:-1])
    m = re.match(r'([A-Za-z]+)\(', s)
    if m and s.endswith(')'):
        op = m.group(1)
        inner = s[m.end():-1]
        if op in BINOPS:
            a, b = split_top(inner)
            return ('binop', op, parse_operand(a), parse_operand(b))
        if op in UNOPS:
            return ('unop', op, parse_operand(inner))
        if op == 'discriminant':
            return ('discr', parse_place(inner))
        if op == 'Len':
            return ('len', parse_place(inner))
        if op == 'CopyForDeref' or op == 'no_retag':
            return ('use', ('copy', parse_place(inner)))
        if op in ('SizeOf', 'AlignOf', 'OffsetOf', 'UbChecks', 'ContractChecks'):
            return ('nullop', op, inner)
        if op == 'ShallowInitBox':
            return ('unknown', s, 'ShallowInitBox')
    if s.startswith('no_retag('):
        pass
    # aggregates ---------------------------------------------------------
    if s.startswith('(') and s.endswith(')') and match_close(s, 0) == len(s) - 1:
        inner = s[1:-1].strip()
        if inner == '':
            return ('agg', 'tuple', '', [])
        parts = [p for p in split_top(inner) if p.strip() != '']
        return ('agg', 'tuple', '', [parse_operand(p) for p in parts])
    if s.startswith('[') and s.endswith(']'):
        inner = s[1:-1].strip()
        k = find_top(inner, '; ')
        if k != -1:
            return ('repeat', parse_operand(inner[:k]), inner[k + 2:])
        parts = [p for p in split_top(inner) if p.strip() != '']
        return ('agg', 'array', '', [parse_operand(p) for p in parts])
    if s.startswith('{closure@') or s.startswith('{coroutine@') or s.startswith('{async '):
        j = match_close(s, 0)
        name = s[:j + 1]
        rest = s[j + 1:].strip()
        fields = []
        if rest.startswith('{'):
            inner = rest[1:-1].strip()
            for p in split_top(inner):
                p = p.strip()
                if not p:
                    continue
                k = p.index(': ')
                fields.append((p[:k], parse_operand(p[k + 2:])))
        return ('agg', 'closure', name, fields)
    # Struct { f: op, .. }  |  Path::Variant(op, ..)  |  Path::Variant / unit struct
    if s.endswith('}'):
        k = find_top(s, ' {')
        if k != -1:
            name = s[:k].strip()
            inner = s[k + 2:-1].strip()
            fields = []
            for p in split_top(inner):
                p = p.strip()
                if not p:
                    continue
                kk = p.index(': ')
                fields.append((p[:kk], parse_operand(p[kk + 2:])))
            return ('agg', 'struct', name, fields)
    if s.endswith(')'):
        # find the '(' that opens the final group at depth 0
        k = find_top(s, '(', last=True)
        if k > 0:
            name = s[:k].strip()
            inner = s[k + 1:-1]
            parts = [p for p in split_top(inner) if p.strip() != '']
            return ('agg', 'ctor', name, [parse_operand(p) for p in parts])
    if re.match(r'[A-Za-z_<]', s) and '(' not in s.split('::')[-1]:
        return ('agg', 'ctor', s, [])
    raise ValueError('unparsed rvalue')


# --------------------------------------------------------------- terminators

def _targets(s):
    """Parse '[return: bb1, unwind: bb2]' / 'bb3' / 'unwind continue' -> dict."""
    s = s.strip()
    d = {}
    if s.startswith('['):
        for p in split_top(s[1:-1]):
            if ':' not in p:
                continue
            k, v = p.split(':', 1)
            d[k.strip()] = v.strip()
    else:
        d['return'] = s
    return d


def _bb(s):
    m = re.fullmatch(r'bb(\d+)', s.strip())
    return int(m.group(1)) if m else None


def parse_terminator(s):
    s = s.strip()
    if s == 'return':
        return ('return',)
    if s == 'unreachable':
        return ('unreachable',)
    if s.startswith('resume') or s.startswith('terminate') or s == 'abort':
        return ('resume',)
    if s.startswith('coroutine_drop'):
        return ('resume',)
    m = re.fullmatch(r'goto -> bb(\d+)', s)
    if m:
        return ('goto', int(m.group(1)))
    if s.startswith('switchInt('):
        j = match_close(s, len('switchInt'))
        op = parse_operand(s[len('switchInt('):j])
        rest = s[j + 1:].strip()
        assert rest.startswith('-> ['), s
        arms, otherwise = [], None
        for p in split_top(rest[4:-1]):
            k, v = p.split(':')
            k = k.strip()
            if k == 'otherwise':
                otherwise = _bb(v)
            else:
                arms.append((int(k), _bb(v)))
        return ('switch', op, arms, otherwise)
    if s.startswith('drop('):
        j = match_close(s, 4)
        t = _targets(s[j + 1:].strip()[3:])
        return ('drop', parse_place(s[5:j]), _bb(t.get('return', '')))
    if s.startswith('assert('):
        j = match_close(s, 6)
        inner = split_top(s[7:j])
        cond = inner[0].strip()
        expected = True
        if cond.startswith('!'):
            expected = False
            cond = cond[1:]
        t = _targets(s[j + 1:].strip()[3:])
        return ('assert', parse_operand(cond), expected, ','.join(inner[1:]).strip(), _bb(t.get('success', '')))
    if s.startswith('falseEdge') or s.startswith('falseUnwind') or s.startswith('yield'):
        return ('unknown_term', s)
    # call:  PLACE = CALLEE(ARGS) -> TARGETS
    k = find_top(s, ' = ')
    if k != -1:
        dest = s[:k]
        rest = s[k + 3:]
        a = find_top(rest, ' -> ', last=True)
        if a != -1:
            targets = _targets(rest[a + 4:])
            rest = rest[:a].strip()
        else:
            targets = {}
        if rest.endswith(')'):
            # the argument list is the last top-level paren group
            kk = find_top(rest, '(', last=True)
            callee = rest[:kk].strip()
            args = [parse_operand(p) for p in split_top(rest[kk + 1:-1]) if p.strip()]
            return ('call', parse_place(dest), callee, args, _bb(targets.get('return', '')))
    return ('unknown_term', s)


# --------------------------------------------------------------- file level

RE_FN = re.compile(r'^(fn|const|static|static mut) (.*)$')
RE_BB = re.compile(r'^    bb(\d+)( \(cleanup\))?: \{$')
RE_LET = re.compile(r'^\s+let (mut )?_(\d+): (.*);$')
RE_DEBUG = re.compile(r'^\s+debug (\S+) => (.*);$')
TERMINATOR_START = ('goto ', 'switchInt(', 'return', 'unreachable', 'resume', 'drop(', 'assert(', 'terminate', 'abort',
                    'falseEdge', 'falseUnwind', 'yield', 'coroutine_drop')


def _parse_header(line):
    """'fn NAME(_1: T, _2: U) -> R {' ; NAME may contain '(' inside <impl at ..> only in angle brackets."""
    assert line.endswith('{')
    line = line[:-1].rstrip()
    if line.startswith('fn '):
        rest = line[3:]
        k = find_top(rest, '(')
        name = rest[:k]
        j = match_close(rest, k)
        params = []
        for p in split_top(rest[k + 1:j]):
            p = p.strip()
            if not p:
                continue
            m = re.match(r'_(\d+): (.*)$', p, re.S)
            params.append((int(m.group(1)), m.group(2)))
        ret = rest[j + 1:].strip()
        ret = ret[2:].strip() if ret.startswith('->') else '()'
        return name, params, ret
    # const / static / promoted:  'const NAME: TYPE = '
    m = re.match(r'(const|static mut|static) ', line)
    rest = line[m.end():]
    k = find_top(rest, ': ')
    if k != -1 and rest.rstrip().endswith('='):
        return rest[:k], [], rest[k + 2:].rstrip()[:-1].strip()
    m = re.match(r'(?:const|static mut|static) (.*)$', line)
    return m.group(1), [], '?'


STATIC_ALLOCS = {}      # allocN -> name of the static it is (from the allocation dumps after the bodies)


def parse_mir(text):
    """Return dict name -> [Body] (several bodies may share a name: CTFE duplicates)."""
    bodies = {}
    lines = text.split('\n')
    i, n = 0, len(lines)
    ctfe_next = False
    STATIC_ALLOCS.clear()
    for m in re.finditer(r'(?m)^(alloc\d+) \(static: ([\w:]+)', text):
        STATIC_ALLOCS[m.group(1)] = m.group(2)
    while i < n:
        line = lines[i]
        if line.startswith('// MIR FOR CTFE'):
            ctfe_next = True
            i += 1
            continue
        # promoted bodies look like: 'const NAME::promoted[0]: T = {'
        if (line.startswith('fn ') or line.startswith('const ') or line.startswith('static ')) and line.rstrip().endswith('{'):
            # header may span one line only (rustc prints on one line)
            name, params, ret = _parse_header(line.rstrip())
            b = Body(name, line)
            b.params, b.ret_type, b.ctfe = params, ret, ctfe_next
            ctfe_next = False
            for (l, t) in params:
                b.locals[l] = t
            j = i + 1
            cur = None
            while j < n and lines[j] != '}':
                L = lines[j]
                b.text.append(L)
                m = RE_BB.match(L)
                if m:
                    cur = Block(bool(m.group(2)))
                    b.blocks[int(m.group(1))] = cur
                elif cur is None:
                    m = RE_LET.match(L)
                    if m:
                        b.locals[int(m.group(2))] = m.group(3)
                    else:
                        m = RE_DEBUG.match(L)
                        if m:
                            b.debug[m.group(1)] = m.group(2)
                elif L == '    }':
                    cur = None
                else:
                    s = L.strip()
                    if not s or s.startswith('//'):
                        j += 1
                        continue
                    # multi-line statements (string consts with newlines) - join until ';'
                    while not s.endswith(';') and j + 1 < n and lines[j + 1] != '    }':
                        j += 1
                        b.text.append(lines[j])
                        s += '\n' + lines[j]
                    s = s[:-1] if s.endswith(';') else s
                    try:
                        _add_stmt(cur, s)
                    except Exception as e:  # noqa
                        if s.startswith(TERMINATOR_START) or ' -> [' in s or ' -> bb' in s:
                            cur.term = ('unknown_term', s, str(e))
                        else:
                            cur.stmts.append(('unknown', s, 'exc ' + str(e)))
                j += 1
            b.text.insert(0, line)
            m = re.match(r'(.*)::promoted\[(\d+)\]$', name)
            bodies.setdefault(name, []).append(b)
            i = j + 1
            continue
        i += 1
    return bodies


def _add_stmt(blk, s):
    if s.startswith(TERMINATOR_START):
        blk.term = parse_terminator(s)
        return
    if s.startswith(('StorageLive', 'StorageDead', 'FakeRead', 'AscribeUserType', 'PlaceMention', 'Retag', 'nop',
                     'Coverage', 'ConstEvalCounter', 'BackwardIncompatibleDropHint')):
        return
    m = re.match(r'discriminant\((.*)\) = (\d+)$', s)
    if m:
        blk.stmts.append(('setdiscr', parse_place(m.group(1)), int(m.group(2))))
        return
    if s.startswith('Deinit(') or s.startswith('assume('):
        return
    k = find_top(s, ' = ')
    if k == -1:
        blk.stmts.append(('unknown', s, 'no ='))
        return
    rest = s[k + 3:]
    # a call terminator: has ' -> ' at top level after a ')' .
    a = find_top(rest, ' -> ', last=True)
    if a != -1 and rest[:a].rstrip().endswith(')') and re.match(r'\s*(\[|bb\d+|unwind)', rest[a + 4:]):
        blk.term = parse_terminator(s)
        return
    try:
        place = parse_place(s[:k])
    except Exception as e:
        blk.stmts.append(('unknown', s, str(e)))
        return
    blk.stmts.append(('assign', place, parse_rvalue(rest)))


if __name__ == '__main__':
    import sys
    import collections
    bodies = parse_mir(open(sys.argv[1]).read())
    nb = sum(len(v) for v in bodies.values())
    unk = collections.Counter()
    total = 0
    for bl in bodies.values():
        for b in bl:
            for blk in b.blocks.values():
                for st in blk.stmts:
                    total += 1
                    if st[0] == 'unknown':
                        unk[(st[2], st[1][:100])] += 1
                    elif st[0] == 'assign' and st[2][0] == 'unknown':
                        unk[(st[2][2], st[2][1][:100])] += 1
                if blk.term is None:
                    unk[('noterm', b.name[:80])] += 1
                elif blk.term[0] == 'unknown_term':
                    unk[('term', blk.term[1][:100])] += 1
    print('bodies', nb, 'names', len(bodies), 'stmts', total, 'unknown', sum(unk.values()))
    for k, v in unk.most_common(40):
        print(v, k)
