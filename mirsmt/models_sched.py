"""Stage M3 models: futures that take several polls and the plumbing of the scheduler loop.

FuturesUnordered (FIFO ready queue of always-woken members), Then, Pending, Either::factor_first, unbounded channels
with a receiver, oneshot + thread::spawn (the retry-delay sleeper), the panic-hook automaton, a symbolic monotone
clock.  Completion order of scenarios is driven by per-scenario poll counts chosen by the harness, so no fairness
assumption and no symbolic indexing is needed.
"""
import z3

from .values import UNIT, Cell, Lazy, Adt, Ref, FnItem, Obj, strip_ref, generic_args, bv, conc
from .interp import Inconclusive, PathEnd
from . import tables as T

BV64 = z3.BitVecSort(64)
INF = 10 ** 9


def register(M):
    reg = M.reg
    log = M.log

    # ---------------------------------------------------------------- panic hook automaton
    @reg('take_hook', 'panic::take_hook')
    def _(ex, info, a, dty):
        cur = ex.env.get('panic_hook', 'original')
        ex.env['panic_hook'] = 'default'
        log(ex, 'take_hook', was=cur)
        return Obj('hook', which=cur)

    @reg('set_hook', 'panic::set_hook')
    def _(ex, info, a, dty):
        h = ex.materialize(a[0])
        if isinstance(h, Ref):
            h = ex.materialize(ex.read_path(h.cell, h.path))
        if isinstance(h, Obj) and h.kind == 'hook':
            ex.env['panic_hook'] = h.which
        elif isinstance(h, Adt) and h.ty.startswith('{closure@'):
            # a closure that only forwards to a captured hook behaves like that hook; a capture-less one is the silent hook
            caps = []
            for v in h.fields.values():
                v = ex.materialize(v)
                for _ in range(3):
                    if isinstance(v, Ref):
                        v = ex.materialize(ex.read_path(v.cell, v.path))
                caps.append(v)
            hooks = [c for c in caps if isinstance(c, Obj) and c.kind == 'hook']
            if len(caps) == 1 and len(hooks) == 1:
                ex.env['panic_hook'] = hooks[0].which
            elif not caps:
                ex.env['panic_hook'] = 'silenced'
            else:
                raise Inconclusive('set_hook(closure capturing %r)' % (caps,))
        else:
            raise Inconclusive('set_hook(%r)' % (h,))
        log(ex, 'set_hook', now=ex.env['panic_hook'])
        return UNIT

    # ---------------------------------------------------------------- unbounded channel with a receiver
    @reg('unbounded', 'mpsc::unbounded')
    def _(ex, info, a, dty):
        ch = Cell(Obj('chan', q=()), name='chan%d' % (len(ex.env.setdefault('chans', [])) + 1))
        ex.env['chans'].append(ch)
        return Adt(dty or '(Sender, Receiver)', {(None, 0): Obj('sender', ch=ch), (None, 1): Obj('receiver', ch=ch)})

    prev_send = M.table['UnboundedSender::unbounded_send']

    @reg('UnboundedSender::unbounded_send')
    def _(ex, info, a, dty):
        s = ex.materialize(a[0])
        tgt = ex.materialize(ex.read_path(s.cell, s.path)) if isinstance(s, Ref) else s
        if isinstance(tgt, Obj) and tgt.kind == 'sender':
            ch = tgt.ch
            ch.v = ch.v.set(q=ch.v.q + (a[1],))
            log(ex, 'sent', channel=ch.name, value=a[1], delivered=True)
            return Adt(dty or 'Result<(), TrySendError>', {(0, 0): UNIT}, 0)
        return prev_send(ex, info, a, dty)

    @reg('UnboundedReceiver::try_next')
    def _(ex, info, a, dty):
        r = ex.materialize(a[0])
        tgt = ex.materialize(ex.read_path(r.cell, r.path)) if isinstance(r, Ref) else r
        if not (isinstance(tgt, Obj) and tgt.kind == 'receiver'):
            raise Inconclusive('try_next on %r' % (tgt,))
        ch = tgt.ch
        if ch.v.q:
            x = ch.v.q[0]
            ch.v = ch.v.set(q=ch.v.q[1:])
            return Adt(dty, {(0, 0): M.some('Option<T>', x)}, 0)
        return Adt(dty, {(1, 0): Lazy('TryRecvError', 'try_recv_err')}, 1)

    @reg('Clone::clone#sender')
    def _(ex, info, a, dty):
        return M.load(ex, a[0])

    # ---------------------------------------------------------------- FuturesUnordered
    @reg('FuturesUnordered::new')
    def _(ex, info, a, dty):
        return Obj('futs', cells=())

    def futs_at(ex, r):
        cell, path = ex.deref(r)
        v = ex.read_path(cell, path)
        if not (isinstance(v, Obj) and v.kind == 'futs'):
            raise Inconclusive('FuturesUnordered op on %r' % (v,))
        return cell, path, v

    @reg('FuturesUnordered::is_empty')
    def _(ex, info, a, dty):
        return z3.BoolVal(len(futs_at(ex, a[0])[2].cells) == 0)

    @reg('FuturesUnordered::len')
    def _(ex, info, a, dty):
        return bv(len(futs_at(ex, a[0])[2].cells))

    @reg('FuturesUnordered::push')
    def _(ex, info, a, dty):
        cell, path, v = futs_at(ex, a[0])
        ex.write_path(cell, path, v.set(cells=v.cells + (Cell(a[1]),)))
        return UNIT

    # FuturesOrdered: the same set of concurrently polled futures, outputs handed out strictly in push order (an output
    # of a later pushed future is buffered until everything pushed before it has been handed out)
    @reg('FuturesOrdered::new')
    def _(ex, info, a, dty):
        return Obj('futs', cells=(), ordered=True, order=(), outs=())

    @reg('FuturesOrdered::is_empty')
    def _(ex, info, a, dty):
        return z3.BoolVal(len(futs_at(ex, a[0])[2].order) == 0)

    @reg('FuturesOrdered::len')
    def _(ex, info, a, dty):
        return bv(len(futs_at(ex, a[0])[2].order))

    @reg('FuturesOrdered::push_back', 'FuturesOrdered::push')
    def _(ex, info, a, dty):
        cell, path, v = futs_at(ex, a[0])
        c = Cell(a[1])
        ex.write_path(cell, path, v.set(cells=v.cells + (c,), order=v.order + (c,)))
        return UNIT

    def poll_ordered(ex, cell, path, s, dty):
        if not s.order:
            return M.poll_ready(dty, M.none('Option<?>'))
        cx = Ref(Cell(Lazy('Context', 'cx')), ())

        def hand_out(cur):
            head = cur.order[0]
            for (c, val) in cur.outs:
                if c is head:
                    ex.write_path(cell, path, cur.set(order=cur.order[1:], outs=tuple(x for x in cur.outs if x[0] is not c)))
                    return M.poll_ready(dty, M.some('Option<?>', val))
            return None
        r0 = hand_out(s)
        if r0 is not None:
            return r0
        for c in list(s.cells):
            r = ex.materialize(M.poll_cell(ex, c, cx, 'Poll<?>'))
            cur = ex.read_path(cell, path)
            if ex.branch(M.discr(ex, r) == bv(0)):
                cur = cur.set(cells=tuple(x for x in cur.cells if x is not c), outs=cur.outs + ((c, ex.field_of(r, 0, 0, '?')),))
                ex.write_path(cell, path, cur)
                r0 = hand_out(cur)
                if r0 is not None:
                    return r0
                continue
            ex.write_path(cell, path, cur.set(cells=tuple(x for x in cur.cells if x is not c) + (c,)))
        return M.poll_pending(dty)

    prev_poll_stream = M.poll_stream

    def poll_stream(ex, sref, dty):
        cell, path = ex.deref(sref)
        s = ex.read_path(cell, path)
        if isinstance(s, Adt) and (None, 0) in s.fields:
            cell, path = ex.deref(s)
            s = ex.read_path(cell, path)
        if isinstance(s, Obj) and s.kind == 'futs' and getattr(s, 'ordered', False):
            return poll_ordered(ex, cell, path, s, dty)
        if isinstance(s, Obj) and s.kind == 'futs':
            if not s.cells:
                return M.poll_ready(dty, M.none('Option<?>'))
            queue = list(s.cells)
            cx = Ref(Cell(Lazy('Context', 'cx')), ())
            for i, c in enumerate(list(queue)):
                r = ex.materialize(M.poll_cell(ex, c, cx, 'Poll<?>'))
                cur = ex.read_path(cell, path)
                if ex.branch(M.discr(ex, r) == bv(0)):
                    rest = tuple(x for x in cur.cells if x is not c)
                    ex.write_path(cell, path, cur.set(cells=rest))
                    return M.poll_ready(dty, M.some('Option<?>', ex.field_of(r, 0, 0, '?')))
                # pending and (self-)woken: to the back of the ready queue
                rest = tuple(x for x in cur.cells if x is not c) + (c,)
                ex.write_path(cell, path, cur.set(cells=rest))
            return M.poll_pending(dty)
        return prev_poll_stream(ex, sref, dty)
    M.poll_stream = poll_stream

    # ---------------------------------------------------------------- Then / Pending / Either
    @reg('FutureExt::then')
    def _(ex, info, a, dty):
        return Obj('then', first=Cell(a[0]), f=a[1], second=None)

    @reg('future::pending')
    def _(ex, info, a, dty):
        return Obj('future', what=('pending',), pending=INF, value=UNIT, on_ready=None)
    M.pending_future = lambda: Obj('future', what=('pending',), pending=INF, value=UNIT, on_ready=None)

    @reg('FutureExt::left_future', 'FutureExt::right_future', 'FutureExt::boxed', 'FutureExt::boxed_local', 'FutureExt::fuse')
    def _(ex, info, a, dty):
        return a[0]           # Either<A, B> / Box / Fuse as a future: polls the wrapped future, same output

    @reg('future::poll_fn')
    def _(ex, info, a, dty):
        return Obj('poll_fn', f=Cell(a[0], name='poll_fn closure'))

    @reg('future::select')
    def _(ex, info, a, dty):
        return Obj('select2', a=Cell(a[0]), b=Cell(a[1]))

    @reg('future::ready')
    def _(ex, info, a, dty):
        return Obj('future', what=('ready',), pending=0, value=a[0], on_ready=None)

    @reg('Either::factor_first')
    def _(ex, info, a, dty):
        e = ex.materialize(a[0])
        d = M.discr(ex, e)
        k = 0 if ex.branch(d == bv(0)) else 1
        tup = ex.materialize(ex.field_of(e, k, 0, '(T, X)'))
        t, x = ex.field_of(tup, None, 0, '?'), ex.field_of(tup, None, 1, '?')
        return Adt(dty or '(T, Either)', {(None, 0): t, (None, 1): Adt('Either<A, B>', {(k, 0): x}, k)})

    orig_poll = M.table['Future::poll']

    def poll_any(ex, info, a, dty):
        pin = ex.materialize(a[0])
        cell, path = ex.deref(pin)
        v = ex.read_path(cell, path)
        if isinstance(v, Adt) and T.type_name_hint(v.ty)[0] == 'Pin' and (None, 0) in v.fields:
            # poll_unpin(&mut Pin<&mut F>)
            cell, path = ex.deref(v)
            v = ex.read_path(cell, path)
            pin = Adt('Pin<&mut ?>', {(None, 0): Ref(cell, path)})
        if isinstance(v, Ref):
            # poll_unpin(&mut &mut F) / Box<F>
            cell, path = v.cell, v.path
            v = ex.read_path(cell, path)
            pin = Adt('Pin<&mut ?>', {(None, 0): Ref(cell, path)})
        if isinstance(v, Adt) and T.type_name_hint(v.ty)[0] == 'Either' and v.discr is not None:
            # future::Either as a future: the active side is polled, same output
            d_ = z3.simplify(M.discr(ex, v))
            k_ = d_.as_long() if z3.is_bv_value(d_) else (0 if ex.branch(d_ == bv(0)) else 1)
            inner = Ref(cell, path + (('f', k_, 0, '?'),))
            return M.table['Future::poll'](ex, info, [Adt('Pin<&mut ?>', {(None, 0): inner}), a[1]], dty)
        if isinstance(v, Obj) and v.kind == 'then':
            if v.second is None:
                r = ex.materialize(M.poll_cell(ex, v.first, a[1], 'Poll<?>'))
                if not ex.branch(M.discr(ex, r) == bv(0)):
                    return M.poll_pending(dty)
                out = ex.field_of(r, 0, 0, '?')
                v = v.set(second=Cell(ex.call_value(v.f, [out])))
                ex.write_path(cell, path, v)
            return M.poll_cell(ex, v.second, a[1], dty)
        if isinstance(v, Obj) and v.kind == 'poll_fn':
            return ex.call_value(Ref(v.f, ()), [a[1]])
        if isinstance(v, Obj) and v.kind == 'select2':
            # futures::future::select: polls A, then B; the loser is handed back next to the winner's output
            r = ex.materialize(M.poll_cell(ex, v.a, a[1], 'Poll<?>'))
            if ex.branch(M.discr(ex, r) == bv(0)):
                tup = Adt('(A::Output, B)', {(None, 0): ex.field_of(r, 0, 0, '?'), (None, 1): v.b.v})
                return M.poll_ready(dty, Adt('Either<(A::Output, B), (B::Output, A)>', {(0, 0): tup}, 0))
            r = ex.materialize(M.poll_cell(ex, v.b, a[1], 'Poll<?>'))
            if ex.branch(M.discr(ex, r) == bv(0)):
                tup = Adt('(B::Output, A)', {(None, 0): ex.field_of(r, 0, 0, '?'), (None, 1): v.a.v})
                return M.poll_ready(dty, Adt('Either<(A::Output, B), (B::Output, A)>', {(1, 0): tup}, 1))
            return M.poll_pending(dty)
        if isinstance(v, Obj) and v.kind == 'oneshot_rx':
            st = v.ch.v
            if st.fired:
                return M.poll_ready(dty, Adt('Result<(), Canceled>', {(0, 0): UNIT}, 0))
            if st.armed is None:
                if st.dropped:
                    return M.poll_ready(dty, Adt('Result<(), Canceled>', {(1, 0): UNIT}, 1))
                log(ex, 'oneshot_never_fires')
                return M.poll_pending(dty)
            if st.armed > 0:
                v.ch.v = st.set(armed=st.armed - 1)
                log(ex, 'sleeping')
                return M.poll_pending(dty)
            # the sleeper thread has slept `dur`: the clock moved on by at least that much
            old = M.clock(ex)
            new = ex.fresh('clock', BV64)
            # thread::sleep(dur) sleeps at least dur and time moves on while the thread is scheduled: strictly more than dur
            ex.add(z3.And(z3.UGT(new, old + st.dur), z3.UGE(old + st.dur, old)))
            if ex.env.get('time_bound_bits'):
                ex.add(z3.And(z3.ULT(new - old, bv(1 << (ex.env['time_bound_bits'] + 1))), z3.ULT(new, bv(1 << 50))))
            ex.env['clock'] = new
            v.ch.v = st.set(fired=True)
            log(ex, 'woke_up_after_sleep', dur=st.dur)
            return M.poll_ready(dty, Adt('Result<(), Canceled>', {(0, 0): UNIT}, 0))
        if isinstance(v, Adt) and not v.ty.startswith('{coroutine@'):
            h = T.type_name_hint(v.ty)[0]
            c = [b for (tr, b) in ex.prog.by_method.get((h, 'poll'), []) if tr == 'Future']
            if len(c) == 1:
                return ex.call_body(c[0], [pin, a[1]])
        return orig_poll(ex, info, [pin, a[1]], dty)
    for k in ('Future::poll', 'TryFuture::try_poll', 'FutureExt::poll_unpin'):
        M.table[k] = poll_any

    # ---------------------------------------------------------------- clock
    def clock(ex):
        c = ex.env.get('clock')
        if c is None:
            c = z3.BitVec('clock0', 64)
            ex.env['clock'] = c
            if ex.env.get('time_bound_bits'):
                ex.add(z3.ULT(c, bv(1 << ex.env['time_bound_bits'])))
        return c
    M.clock = clock
    M.tick = lambda ex: tick(ex)

    def tick(ex):
        old = clock(ex)
        new = ex.fresh('clock', BV64)
        ex.add(z3.UGE(new, old))
        if ex.env.get('time_bound_bits'):
            ex.add(z3.And(z3.ULT(new - old, bv(1 << ex.env['time_bound_bits'])), z3.ULT(new, bv(1 << 50))))
        ex.env['clock'] = new
        return new

    @reg('Instant::now')
    def _(ex, info, a, dty):
        t = tick(ex)
        ex.env.setdefault('now_calls', []).append(t)
        return t

    @reg('Instant::elapsed')
    def _(ex, info, a, dty):
        t0 = ex.materialize(M.load(ex, a[0]))
        now = tick(ex)
        e = ex.fresh('elapsed', BV64)
        ex.add(z3.And(z3.UGE(now, t0), e == now - t0))
        ex.env.setdefault('elapsed', []).append((t0, e))
        return e

    # ---------------------------------------------------------------- oneshot + sleeper thread
    @reg('oneshot::channel')
    def _(ex, info, a, dty):
        ch = Cell(Obj('oneshot', armed=None, dur=None, fired=False, dropped=False))
        return Adt(dty or '(Sender, Receiver)', {(None, 0): Obj('oneshot_tx', ch=ch), (None, 1): Obj('oneshot_rx', ch=ch)})

    @reg('thread::spawn')
    def _(ex, info, a, dty):
        clo = ex.materialize(a[0])
        tx, dur = None, None
        for v in clo.fields.values():
            v = ex.materialize(v)
            if isinstance(v, Obj) and v.kind == 'oneshot_tx':
                tx = v
            elif z3.is_bv(v):
                dur = v
        if tx is None or dur is None:
            raise Inconclusive('thread::spawn of an unrecognised closure %r' % (clo,))
        tx.ch.v = tx.ch.v.set(armed=ex.env.get('sleep_polls', 1), dur=dur)
        log(ex, 'sleeper_thread_spawned', dur=dur)
        return Lazy(dty or 'JoinHandle', 'join_handle')

    @reg('Context::waker', 'Waker::wake_by_ref', 'Waker::wake')
    def _(ex, info, a, dty):
        if info['method'] == 'waker':
            return Ref(Cell(Lazy('Waker', 'waker')), ())
        log(ex, 'wake')
        return UNIT

    @reg('ControlFlow::continue_value')
    def _(ex, info, a, dty):
        c = ex.materialize(a[0])
        if ex.branch(M.discr(ex, c) == bv(0)):
            return M.some(dty, ex.field_of(c, 0, 0, '?'))
        return M.none(dty)

    @reg('ControlFlow::is_break')
    def _(ex, info, a, dty):
        return M.discr(ex, M.load(ex, a[0])) == bv(1)

    @reg('ControlFlow::is_continue')
    def _(ex, info, a, dty):
        return M.discr(ex, M.load(ex, a[0])) == bv(0)
